"""Shared helpers of the density-estimation checks (C16, C17): exact-rational specification (the property's own
predicate, independent of the Coq model), generators, implementation workers."""
import itertools
from fractions import Fraction as F

from .. import sx

THRESHOLD = 200


# ----------------------------------------------------------------------------------------------- exact specification
def hat1(lo, p, hi, x):
    """piecewise-linear hat with nodes lo < p < hi (value 1 at p, 0 outside [lo, hi])"""
    if x <= lo or x >= hi:
        return F(0)
    if x <= p:
        return (x - lo) / (p - lo)
    return (hi - x) / (hi - p)


def gram1(ti, tj):
    """integral of the product of two hats: Simpson's rule on every piece between consecutive break points
    (exact for the piecewise quadratic product)"""
    bps = sorted(set(ti) | set(tj))
    s = F(0)
    for a, b in zip(bps, bps[1:]):
        m = (a + b) / 2
        f = lambda x: hat1(*ti, x) * hat1(*tj, x)
        s += (b - a) / 6 * (f(a) + 4 * f(m) + f(b))
    return s


def triples(stripe):
    return [(stripe[i - 1], stripe[i], stripe[i + 1]) for i in range(1, len(stripe) - 1)]


def grid_hats(stripes):
    return list(itertools.product(*[triples(s) for s in stripes]))


def uniform_stripes(lv):
    return [[F(i, 2 ** l) for i in range(2 ** l + 1)] for l in lv]


def spec_gram(stripes, lam):
    hs = grid_hats(stripes)
    n = len(hs)
    cache = {}
    G = [[F(0)] * n for _ in range(n)]
    for i in range(n):
        for j in range(i, n):
            v = F(1)
            for d in range(len(stripes)):
                key = (d, hs[i][d], hs[j][d])
                if key not in cache:
                    cache[key] = gram1(hs[i][d], hs[j][d])
                v *= cache[key]
                if v == 0:
                    break
            G[i][j] = G[j][i] = v
        G[i][i] += lam
    return G


def spec_gram_diag(stripes):
    """diagonal of the Gram matrix only (mass lumping needs nothing else)"""
    cache = {}
    out = []
    for t in grid_hats(stripes):
        v = F(1)
        for d in range(len(stripes)):
            key = (d, t[d])
            if key not in cache:
                cache[key] = gram1(t[d], t[d])
            v *= cache[key]
        out.append(v)
    return out


def spec_hat_nd(t, x):
    v = F(1)
    for d in range(len(t)):
        v *= hat1(*t[d], x[d])
        if v == 0:
            break
    return v


def spec_rhs(stripes, data, signs):
    hs = grid_hats(stripes)
    M = len(data)
    return [sum((spec_hat_nd(t, x) * (signs[n] if signs else 1) for n, x in enumerate(data)), F(0)) / M for t in hs]


def trap_weights(stripes):
    w1 = [[(s[i] - s[i - 1]) / 2 + (s[i + 1] - s[i]) / 2 for i in range(1, len(s) - 1)] for s in stripes]
    out = []
    for ws in itertools.product(*w1):
        v = F(1)
        for w in ws:
            v *= w
        out.append(v)
    return out


def solve_exact(G, b):
    """Gaussian elimination over the rationals (partial pivoting only when a pivot vanishes).
    Returns (x, pivots) ; pivots all > 0 without row exchange <=> symmetric G is positive definite."""
    n = len(b)
    A = [list(map(F, row)) + [F(bi)] for row, bi in zip(G, b)]
    pivots = []
    swapped = False
    for k in range(n):
        if A[k][k] == 0:
            for r in range(k + 1, n):
                if A[r][k] != 0:
                    A[k], A[r] = A[r], A[k]
                    swapped = True
                    break
            else:
                return None, pivots
        pk = A[k][k]
        pivots.append(pk)
        rowk = A[k]
        for r in range(k + 1, n):
            f = A[r][k]
            if f != 0:
                f = f / pk
                rr = A[r]
                for c in range(k, n + 1):
                    if rowk[c] != 0:
                        rr[c] -= f * rowk[c]
    x = [F(0)] * n
    for k in range(n - 1, -1, -1):
        s = A[k][n]
        for c in range(k + 1, n):
            if A[k][c] != 0:
                s -= A[k][c] * x[c]
        x[k] = s / A[k][k]
    return x, (pivots if not swapped else None)


def is_spd(G):
    """exact test on a rational matrix: symmetric and all elimination pivots positive"""
    n = len(G)
    for i in range(n):
        for j in range(i):
            if G[i][j] != G[j][i]:
                return False, 'not symmetric at (%d,%d)' % (i, j)
    x, piv = solve_exact(G, [F(0)] * n)
    if piv is None or len(piv) < n or any(p <= 0 for p in piv):
        return False, 'non-positive pivot in the exact LDL^T factorisation'
    return True, ''


def spec_normalise(alphas, weights, labelled):
    W = sum(weights, F(0))
    a = list(alphas)
    if labelled:
        i1 = sum((x * w for x, w in zip(a, weights)), F(0)) / W
        a = [x - i1 for x in a]
    integ = sum((max(x, F(0)) * w for x, w in zip(a, weights)), F(0)) / W
    if integ != 0:
        a = [x / integ for x in a]
    return a, integ


def mean_pos(alphas, weights):
    return sum((max(x, F(0)) * w for x, w in zip(alphas, weights)), F(0)) / sum(weights, F(0))


# ----------------------------------------------------------------------------------------------- numeric comparison
def close(a, b, rel=1e-9, scale=0.0, abs_=1e-13):
    a = F(a); b = F(b)
    return abs(a - b) <= F(rel) * (abs(b) + F(scale)) + F(abs_)


def vec_close(a, b, rel=1e-9, abs_=1e-13):
    if a is None or b is None or len(a) != len(b):
        return False
    scale = max([abs(F(x)) for x in b] + [F(0)])
    return all(close(x, y, rel, scale, abs_) for x, y in zip(a, b))


def mat_close(A, B, rel=1e-11, abs_=1e-15):
    if len(A) != len(B):
        return False
    return all(len(r) == len(s) and all(close(x, y, rel, 0, abs_) for x, y in zip(r, s)) for r, s in zip(A, B))


def max_rel_err(A, B):
    m = 0.0
    for r, s in zip(A, B):
        for x, y in zip(r, s):
            if x != y:
                m = max(m, float(abs(F(x) - F(y)) / (abs(F(y)) if y != 0 else 1)))
    return m


def cancellation_amp(stripes):
    """calculate_R_value_analytically evaluates the off-diagonal entry h/6 as a difference of terms of size m^2 x^3
    (m = 1/h): its rounding error is about 6 (x/h)^3 eps relative.  Returns max over the cells of 6 (x_right/h)^3;
    tolerances for quantities that depend on these entries are scaled with it (cancellation-aware bound, DESIGN section 3)."""
    amp = 1.0
    for s in stripes:
        for a, b in zip(s[1:-1], s[2:-1]):
            h = float(b) - float(a)
            if h > 0:
                amp = max(amp, 6.0 * (float(b) / h) ** 3)
    return amp


EPS = 2.0 ** -52


def fr(v):
    """floats (nested) -> Fractions"""
    if isinstance(v, (list, tuple)):
        return [fr(x) for x in v]
    return sx.rat(v)


def qv(v):
    """model rationals (nested) -> Fractions"""
    if isinstance(v, list) and len(v) == 2 and isinstance(v[0], int) and isinstance(v[1], int):
        return F(v[0], v[1])
    if isinstance(v, list):
        return [qv(x) for x in v]
    return F(v)


def qvec(v):
    return [sx.q(x) for x in v]


def qmat(m):
    return [[sx.q(x) for x in row] for row in m]


# ----------------------------------------------------------------------------------------------- generators
def dyadic(rng, k, lo=0, hi=None):
    hi = 2 ** k if hi is None else hi
    return rng.randrange(lo, hi + 1) / 2 ** k


def gen_data(rng, dim, M, stripes_f=None, k=None):
    """samples on a dyadic lattice of the unit cube; a share of them on grid lines and on the domain boundary"""
    k = k or rng.choice([2, 3, 4, 5])
    data = []
    for _ in range(M):
        x = []
        for d in range(dim):
            r = rng.random()
            if r < 0.12:
                x.append(rng.choice([0.0, 1.0]))
            elif r < 0.35 and stripes_f is not None:
                x.append(float(rng.choice(stripes_f[d])))
            else:
                x.append(dyadic(rng, k))
        data.append(x)
    return data


def gen_stripe(rng, maxlevel, minpts=1, maxpts=7):
    """strictly increasing dyadic coordinates containing 0 and 1 (as produced by dimension-wise refinement:
    a subset of the level-maxlevel lattice), with their levels"""
    n = 2 ** maxlevel
    inner = list(range(1, n))
    k = rng.randrange(minpts, min(maxpts, len(inner)) + 1)
    r = rng.random()
    if r < 0.25:                       # refinement-like: refine intervals by bisection
        pts = {0, n}
        cells = [(0, n)]
        while len(pts) - 2 < k and cells:
            a, b = cells.pop(rng.randrange(len(cells)))
            if b - a < 2:
                continue
            m = (a + b) // 2
            pts.add(m)
            cells += [(a, m), (m, b)]
        idx = sorted(pts)
    else:
        idx = [0] + sorted(rng.sample(inner, k)) + [n]
    if len(idx) < 3:
        idx = [0, n // 2, n]

    def level(i):
        if i == 0 or i == n:
            return 0
        l = maxlevel
        while i % 2 == 0:
            i //= 2
            l -= 1
        return l
    return [i / n for i in idx], [level(i) for i in idx]


def near_node(stripes, pts):
    """some coordinate lies within 2^-52 below an inner grid node (binary64 neighbourhood of the node)"""
    eps = F(1, 2 ** 52)
    for d, st in enumerate(stripes):
        for p in st[1:-1]:
            for x in pts:
                if 0 < F(p) - F(x[d]) <= eps:
                    return True
    return False


def eval_points(rng, dim, stripes_f, n, ulp=0.0):
    import math
    pts = []
    for _ in range(n):
        x = []
        for d in range(dim):
            r = rng.random()
            if r < ulp:
                x.append(math.nextafter(float(rng.choice(stripes_f[d][1:-1])), rng.choice([0.0, 0.0, 1.0])))
            elif r < 0.3:
                x.append(float(rng.choice(stripes_f[d])))
            elif r < 0.4:
                x.append(rng.choice([0.0, 1.0]))
            else:
                x.append(dyadic(rng, 6))
        pts.append(x)
    return pts


# ----------------------------------------------------------------------------------------------- implementation
class _RC:
    def __init__(self):
        import numpy as np
        self.value = np.zeros(1)


def make_op(case, dimension_wise, cls=None):
    """DensityEstimation object ready for direct calls of the matrix / rhs / solve methods.
    Optional case keys (all default to the constructor defaults): debug, pre_scaled, data_form ('array' | 'tuple'),
    explicit_grid (uniform path: pass a TrapezoidalGrid instead of grid=None)"""
    import numpy as np
    from sparseSpACE.GridOperation import DensityEstimation
    from sparseSpACE.Grid import GlobalTrapezoidalGrid
    from sparseSpACE.Utils import print_levels, log_levels
    dim = case['dim']
    data = np.array(case['data'], dtype=float)
    classes = np.array(case['classes']) if case.get('classes') is not None else None
    kw = dict(masslumping=bool(case.get('ml')), lambd=case.get('lam', 0.0), classes=classes,
              reuse_old_values=bool(case.get('reuse')), numeric_calculation=bool(case.get('numeric')),
              print_level=print_levels.ERROR, log_level=log_levels.ERROR)
    if case.get('debug'):
        kw['debug'] = True
    if case.get('pre_scaled'):
        kw['pre_scaled_data'] = True
    if case.get('data_form') == 'tuple':
        data = (data, classes if classes is not None else np.ones(len(data)))
    cls = cls or DensityEstimation
    if dimension_wise:
        grid = GlobalTrapezoidalGrid(a=np.zeros(dim), b=np.ones(dim), boundary=False)
        op = cls(data, dim, grid=grid, **kw)
        op.init_dimension_wise(grid, None, _RC(), [1] * dim, [6] * dim, np.zeros(dim), np.ones(dim))
        op.initialize_evaluation_dimension_wise(_RC())
    else:
        if case.get('explicit_grid'):
            from sparseSpACE.Grid import TrapezoidalGrid
            kw['grid'] = TrapezoidalGrid(a=np.zeros(dim), b=np.ones(dim), boundary=False)
        op = cls(data, dim, **kw)
        op.initialize()
    return op


def tolist(a):
    import numpy as np
    a = np.asarray(a, dtype=float)
    return a.tolist()
