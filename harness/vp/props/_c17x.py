"""C17, wave 2: HISTORIES ON ONE OPERATION OBJECT.

(e) 'op-history'      direct calls on ONE DensityEstimation object per setting (reuse on / off, plus a decoy object with other
                      data that is driven in between): a sequence of refinement steps, each a small scheme of component grids
                      taken from one per-dimension refinement tree (nested growth, replaced points, repeats, removed points, bumped
                      level vectors); per component grid: right-hand side (and, on part of the cases, matrix + solve), then
                      interpolation of EVERY component grid at fixed and at changing point batches while the grid object holds the
                      last component grid (its size selects the interpolation path), post_processing before or after the
                      interpolation.  Every step is compared reuse on / off and with the model (pure function of the step).
(f) 'adaptive-steps'  complete SpatiallyAdaptiveSingleDimensions2 runs driven step by step (scripted error calculator: the
                      refinement history is the same for both settings by construction; or the misclassification estimator, which
                      interpolates inside the evaluation); at EVERY stop: scheme, component grids, surpluses, right-hand sides of
                      all solves and combi(points); combi(points) is also compared with the model interpolant of the run's own
                      surpluses (the property's predicate evaluated on one run alone).  Stop / continue without refinement,
                      repeated interpolation, a second run on the same operation object.
(g) 'std-history'     StandardCombi.perform_operation twice on one operation object (different level ranges), reuse on / off."""
import itertools
import random as _random
from fractions import Fraction as F

from .. import sx
from . import _de
from ._de import fr, qvec, vec_close

REL = 1e-12
THR = _de.THRESHOLD


# ================================================================================================ generators
def _counts(rng, dim, lo, hi, kmax=40):
    for _ in range(10000):
        ks = [rng.randrange(1, kmax + 1) for _ in range(dim)]
        n = 1
        for k in ks:
            n *= k
        if lo <= n <= hi:
            return ks
    return [max(1, min(kmax, lo))] + [1] * (dim - 1)


SIZE_CLASSES = {
    'small': (6, 120), 'below': (150, 199), 'edge199': (199, 199), 'edge200': (200, 200), 'edge201': (201, 201),
    'above': (202, 300), 'big': (301, 440), 'huge': (1025, 1200),
}


class _Tree:
    """per dimension: lattice index -> level (inner points only), lattice 2^L; `cands` restricts the positions that may be used
    (fine lattices: a coarse sub-lattice plus a window of consecutive fine positions)"""

    def __init__(self, L, pts, cands=None):
        self.L = L
        self.n = 2 ** L
        self.pts = dict(pts)
        self.cands = cands

    def stripe(self, maxlevel):
        idx = [0] + sorted(i for i, l in self.pts.items() if l <= maxlevel) + [self.n]
        return [i / self.n for i in idx], [0] + [self.pts[i] for i in idx[1:-1]] + [0]

    def free(self):
        pool = self.cands if self.cands is not None else range(1, self.n)
        return [i for i in pool if i not in self.pts]


def _gen_tree(rng, k, K, fine=False):
    L = 5
    while 2 ** L - 1 < 2 * k + 2:
        L += 1
    L = max(L, rng.choice([5, 6]))
    cands = None
    if fine:
        # axis d (magnitudes): grid spacings down to 2^-34 - a window of consecutive positions of a very fine lattice next to a
        # coarse lattice point, plus points of the coarse lattice
        Lf = rng.choice([26, 30, 34])
        w = 2 ** (Lf - L)
        coarse = [i * w for i in range(1, 2 ** L)]
        base = rng.randrange(1, 2 ** L - 1) * w
        win = list(range(base + 1, base + 4 * k + 9))
        cands = sorted(set(coarse + win))
        idx = rng.sample(win, min(len(win), max(2, (2 * k) // 3)))
        idx += rng.sample(coarse, max(1, k - len(idx)))
        L = Lf
    else:
        idx = rng.sample(range(1, 2 ** L), k)
    pts = {}
    for n, i in enumerate(idx):
        if n == 0 or K == 1:
            pts[i] = 1
        else:
            pts[i] = K if rng.random() < 0.3 else rng.randrange(1, K + 1)
    return _Tree(L, pts, cands)


def _scheme(rng, Ks):
    dim = len(Ks)
    cand = [tuple(Ks)]
    for d in range(dim):
        if Ks[d] > 1:
            cand.append(tuple(Ks[e] - (1 if e == d else 0) for e in range(dim)))
    if all(k > 1 for k in Ks) and dim > 1:
        cand.append(tuple(k - 1 for k in Ks))
    n = rng.choice([1, 1, 2, 3])
    rest = cand[1:]
    rng.shuffle(rest)
    sch = rest[:n - 1] + [cand[0]]
    if rng.random() < 0.4:
        rng.shuffle(sch)                  # the finest grid is not always the last one evaluated
    return [list(s) for s in sch]


def gen_ophist(rng, size=None, M=None, npoints=None, fine=None):
    dim = rng.choice([1, 2, 2, 2, 3])
    size = size or rng.choice(['small', 'below', 'edge199', 'edge200', 'edge201', 'above', 'above', 'above', 'big'])
    lo, hi = SIZE_CLASSES[size]
    if size.startswith('edge') and dim == 3:
        dim = 2
    if size == 'huge':
        dim = rng.choice([2, 2, 3])
    ks = _counts(rng, dim, lo, hi, kmax=40 if dim > 1 else 450)
    if dim == 1:
        ks = [rng.randrange(lo, hi + 1)]
    Ks = [rng.choice([1, 2, 2, 3]) for _ in range(dim)]
    if size == 'huge':
        Ks = [1] * dim
    fine = fine if fine is not None else (size != 'huge' and rng.random() < 0.18)
    dfine = rng.randrange(dim) if fine else None
    trees = [_gen_tree(rng, ks[d], Ks[d], fine=(d == dfine)) for d in range(dim)]
    scheme = _scheme(rng, Ks)
    fin0 = [trees[d].stripe(Ks[d])[0] for d in range(dim)]
    M = M or rng.choice([1, 3, 10, 25, 60])
    data = _de.gen_data(rng, dim, M, fin0, k=7)

    def in_window(x):
        # a coordinate on or between the positions of the fine window (exact in binary64: at most 37 bits)
        t = trees[dfine]
        win = [i for i in t.cands if i % (2 ** (t.L - 5)) != 0]
        return (rng.choice(win) + rng.choice([0, 0.5, 0.25, -0.5])) / t.n
    if fine:
        for x in data:
            if rng.random() < 0.4:
                x[dfine] = in_window(x)
    if rng.random() < 0.2 and M >= 3:     # axis i: ties - repeated samples (np.argsort breaks the ties arbitrarily)
        for n in range(M):
            if rng.random() < 0.3:
                data[n] = list(data[rng.randrange(M)])
    rescale = (not fine) and rng.random() < 0.1
    if rescale:                       # samples outside the unit cube: initialize() min-max scales them (unless pre_scaled_data)
        data = [[3 * v - 1 for v in x] for x in data]
        data[0] = [-1.0] * dim
        if M > 1:
            data[1] = [2.0] * dim
    lab = rng.random() < 0.4
    labels = rng.choice([[-1, 1]] * 7 + [[-1, 2], [0, 1], [-3, 5]])
    points = [list(x) for x in data[:3]] + _de.eval_points(rng, dim, fin0, 6)
    if rescale:
        points = _de.eval_points(rng, dim, fin0, 9)
    if fine:
        for x in points[3:]:
            if rng.random() < 0.6:
                x[dfine] = in_window(x)
    if npoints:
        points += _de.eval_points(rng, dim, fin0, npoints - len(points))
    # axis i: level values beyond 1,2,3 (keys of old_B are str(max levels), keys of the surplus dictionary are level vectors)
    lvmap = rng.choice([lambda k: k] * 3 + [lambda k: 2 * k + 1, lambda k: 10 * k, lambda k: 3 if k == 1 else 7 * k])
    lam0 = rng.choice([0.0, 0.01, 0.125, 0.125, 2.0 ** -20, 64.0])
    nsteps = rng.choice([2, 3, 3, 4]) if size != 'huge' else 2
    steps = []
    surplus_seed = rng.randrange(1 << 30)
    solve_case = rng.random() < 0.35 and size != 'huge'
    for s in range(nsteps):
        ops = []
        if s > 0:
            for _ in range(rng.choice([1, 1, 2])):
                d = rng.randrange(dim) if not (fine and rng.random() < 0.6) else dfine
                t = trees[d]
                op = rng.choice(['refine', 'refine', 'refine', 'replace', 'replace', 'repeat', 'remove', 'rekey'])
                if size == 'huge' and op in ('rekey',):
                    op = 'refine'
                if op == 'refine':
                    free = t.free()
                    near = [i for i in free if any(abs(i / t.n - p[d]) <= 3 / t.n for p in points[:12])]
                    for _ in range(rng.choice([1, 1, 2, 3])):
                        pool = near if (near and rng.random() < 0.6) else free
                        if not pool:
                            break
                        i = rng.choice(pool)
                        if i in t.pts:
                            continue
                        t.pts[i] = rng.randrange(1, Ks[d] + 1)
                elif op == 'replace':
                    srt = [0] + sorted(t.pts) + [t.n]
                    j = rng.randrange(1, len(srt) - 1)
                    pool_ = t.cands if t.cands is not None else range(srt[j - 1] + 1, srt[j + 1])
                    cand = [v for v in pool_ if srt[j - 1] < v < srt[j + 1] and v != srt[j]]
                    if cand:
                        lv = t.pts.pop(srt[j])
                        t.pts[rng.choice(cand)] = lv
                elif op == 'remove':
                    if len(t.pts) > 2:
                        i = rng.choice(sorted(t.pts))
                        if t.pts[i] != 1 or sum(1 for l in t.pts.values() if l == 1) > 1:
                            del t.pts[i]
                elif op == 'rekey':
                    Ks[d] += 1
                    for g in scheme:
                        g[d] += 1
                    free = t.free()
                    for i in rng.sample(free, min(len(free), rng.choice([1, 2]))):
                        t.pts[i] = Ks[d]
                ops.append(op)
        grids = []
        for lv in scheme:
            sl = [trees[d].stripe(lv[d]) for d in range(dim)]
            N = 1
            for st, _ in sl:
                N *= len(st) - 2
            if N > (520 if size != 'huge' else 1400):
                continue
            grids.append(dict(lv=[lvmap(k) for k in lv], stripes=[st for st, _ in sl],
                              levels=[[lvmap(k) if k else 0 for k in l] for _, l in sl],
                              solve=bool(solve_case and N <= 230 and not fine), seed=surplus_seed + 7 * s + sum(lv)))
        if not grids:
            continue
        fin = [trees[d].stripe(Ks[d])[0] for d in range(dim)]
        steps.append(dict(ops=ops, grids=grids, order=rng.choice(['interp-first', 'post-first', 'post-first']),
                          points2=_de.eval_points(rng, dim, fin, 4) if rng.random() < 0.6 else None,
                          twice=rng.random() < 0.3, post_again=rng.random() < 0.3,
                          lam=rng.choice([0.0, 0.01, 0.5, 2.0 ** -20, 64.0]) if (s > 0 and rng.random() < 0.3) else None))
    args = dict(share=rng.random() < 0.6, layout=rng.choice(['C', 'C', 'F', 'view']), points_as=rng.choice(['tuples', 'ndarray']),
                scribble=rng.random() < 0.5, sentinel=rng.random() < 0.5)
    return dict(kind='op-history', dim=dim, size=size, data=data, classes=[rng.choice(labels) for _ in range(M)] if lab else None,
                lam=lam0, debug=rng.random() < 0.08, decoy=rng.random() < 0.5, args=args, observers=rng.random() < 0.4,
                fine=bool(fine), ascale=rng.choice([0, 0, 0, -40, 30]),
                ml=solve_case and rng.random() < 0.2, rescale=rescale, pre_scaled=(not rescale) and rng.random() < 0.1,
                points=points, steps=steps)


LARGE_SHAPES = ['2d-44', '2d-44', '2d-44', '1d-88', '1d-88', '2d-34', '2d-34', '2d-45']
CHEAP_SHAPES = ['1d-small', '2d-13', '2d-23s', '3d-12', '2d-24s']


def gen_steps(rng, family='large', shape=None):
    """complete dimension-wise runs, driven step by step.  family 'large': component grids beyond the threshold at several
    consecutive stops (the last evaluated grid selects the interpolation path); 'cheap': small grids, all option values"""
    shape = shape or rng.choice(LARGE_SHAPES if family == 'large' else CHEAP_SHAPES)
    margin = rng.choice([0.25, 0.5, 0.5, 0.9])
    if shape == '1d-88':
        dim, lmin, lmax, nsteps = 1, 8, 8, rng.choice([2, 3])
    elif shape == '2d-44':
        dim, lmin, lmax, nsteps = 2, 4, 4, 2
    elif shape == '2d-45':
        dim, lmin, lmax, nsteps = 2, 4, 5, 1
    elif shape == '2d-34':
        dim, lmin, lmax, nsteps, margin = 2, 3, 4, 4, 0.25
    elif shape == '1d-small':
        dim, lmin, lmax, nsteps = 1, rng.choice([2, 3]), rng.choice([3, 4, 5]), rng.choice([3, 5])
    elif shape == '2d-13':
        dim, lmin, lmax, nsteps = 2, 1, rng.choice([2, 3]), rng.choice([3, 4, 5])
    elif shape == '2d-23s':
        dim, lmin, lmax, nsteps = 2, 2, 3, rng.choice([2, 3])
    elif shape == '2d-24s':
        dim, lmin, lmax, nsteps = 2, 2, 4, rng.choice([2, 3, 4])
    else:
        dim, lmin, lmax, nsteps = 3, 1, 2, rng.choice([2, 3, 4])
    large = shape in LARGE_SHAPES
    M = rng.choice([20, 40, 60])
    skew = rng.random() < 0.5
    data = []
    for _ in range(M):
        x = [rng.randrange(0, 129) / 128 for _ in range(dim)]
        if skew:
            x[0] = round((x[0] ** 2) * 128) / 128
        data.append(x)
    data[0] = [0.0] * dim
    data[1] = [1.0] * dim
    lab = rng.random() < 0.4
    if lab and rng.random() < (0.25 if large else 0.5):
        est = 'misclassification'
        nsteps = min(nsteps, 2 if (large or shape == '2d-24s') else 3)      # the misclassification estimator refines many intervals per step
    else:
        est = ['scripted', rng.randrange(1 << 30), rng.choice([0.0, 0.15, 0.4])]
    pts = [list(x) for x in data[2:5]] + [[rng.randrange(0, 65) / 64 for _ in range(dim)] for _ in range(7)]
    stops = []
    for s in range(nsteps + 1):
        stops.append(dict(interp=rng.random() < (0.9 if large else 0.7), reeval=rng.random() < (0.1 if large else 0.2),
                          again=rng.random() < 0.25, post_again=rng.random() < 0.25,
                          points2=[[rng.randrange(0, 129) / 128 for _ in range(dim)] for _ in range(3)] if rng.random() < 0.4 else None))
    stops[-1]['interp'] = True
    stops[-2]['interp'] = True
    return dict(kind='adaptive-steps', shape=shape, dim=dim, lmin=lmin, lmax=lmax, data=data,
                classes=[rng.choice([-1, 1]) for _ in range(M)] if lab else None, estimator=est,
                lam=rng.choice([0.02, 0.0625, 0.01]), margin=margin, rebalancing=rng.random() < 0.7,
                boundary=(not large) and rng.random() < 0.15, debug=(not large) and rng.random() < 0.2,
                ml=rng.random() < (0.05 if large else 0.15),
                second_run=(not large) and est != 'misclassification' and rng.random() < 0.3,
                args=dict(share=rng.random() < 0.6, layout=rng.choice(['C', 'C', 'F', 'view']),
                          points_as=rng.choice(['tuples', 'ndarray']), sentinel=rng.random() < 0.5),
                observers=rng.random() < 0.4, points=pts, stops=stops)


def gen_std(rng):
    dim = rng.choice([1, 2, 2])
    if dim == 1:
        runs = [[rng.choice([1, 2]), rng.choice([3, 5, 6])], [rng.choice([1, 3]), rng.choice([4, 6, 7])]]
    else:
        runs = [[1, rng.choice([2, 3, 4])], [rng.choice([1, 2]), rng.choice([3, 4])]]
    M = rng.choice([10, 30])
    st = [[i / 8 for i in range(9)] for _ in range(dim)]
    lab = rng.random() < 0.4
    return dict(kind='std-history', dim=dim, runs=runs, data=_de.gen_data(rng, dim, M, st),
                classes=[rng.choice([-1, 1]) for _ in range(M)] if lab else None, lam=rng.choice([0.0, 0.01, 0.125]),
                ml=rng.random() < 0.2, points=_de.eval_points(rng, dim, st, 6))


# ================================================================================================ implementation
def _surpluses(seed, N):
    r = _random.Random(seed)
    return [r.randrange(-16, 17) / 8 for _ in range(N)]


def _logging_de():
    from sparseSpACE.GridOperation import DensityEstimation

    class LoggingDE(DensityEstimation):
        """records the right-hand side of every component-grid evaluation and the old right-hand side that was chosen"""
        def calculate_B_dimension_wise(self, data, stripes, levels):
            b = super().calculate_B_dimension_wise(data, stripes, levels)
            self.b_log.append(([[float(v) for v in s] for s in stripes], _de.tolist(b)))
            return b

        def find_closest_old_B(self, stripes):
            k = super().find_closest_old_B(stripes)
            self.key_log.append(k)
            return k

        def solve_density_estimation_dimension_wise(self, stripes, levels, cg):
            a = super().solve_density_estimation_dimension_wise(stripes, levels, cg)
            self.solve_log.append(([int(x) for x in cg.levelvector], [[float(v) for v in s] for s in stripes], _de.tolist(a)))
            return a
    return LoggingDE


def _mk_op(cls, dim, data, classes, lam, reuse, boundary=False, ml=False, debug=False, pre_scaled=False, raw=False):
    """raw: data / classes are handed over as the objects they are (argument-object axes); else fresh float arrays"""
    import numpy as np
    from sparseSpACE.Grid import GlobalTrapezoidalGrid
    from sparseSpACE.Utils import print_levels, log_levels
    grid = GlobalTrapezoidalGrid(a=np.zeros(dim), b=np.ones(dim), modified_basis=False, boundary=boundary)
    op = cls(data if raw else np.array(data, dtype=float), dim, grid=grid, lambd=lam,
             classes=(classes if raw else np.array(classes)) if classes is not None else None,
             reuse_old_values=reuse, masslumping=ml, debug=debug, pre_scaled_data=pre_scaled, print_level=print_levels.ERROR,
             log_level=log_levels.ERROR)
    op.b_log, op.key_log, op.solve_log = [], [], []
    return op


SENTINEL = 12345.678


def _snap(o):
    import copy
    import numpy as np
    if isinstance(o, np.ndarray):
        return (o.copy(), o.dtype, o.shape)
    return copy.deepcopy(o)


def _same(o, s):
    import numpy as np
    if isinstance(o, np.ndarray):
        return o.dtype == s[1] and o.shape == s[2] and bool(np.array_equal(o, s[0]))
    return o == s


class _Args:
    """argument objects handed to the library, with the snapshot taken at hand-over (axis a: argument immutability)"""
    def __init__(self):
        self.items = []

    def add(self, name, obj):
        self.items.append((name, obj, _snap(obj)))
        return obj

    def mutated(self):
        return [name for name, obj, snap in self.items if not _same(obj, snap)]


def _array_as(values, layout):
    """a float64 array with the given memory layout: C, F, or a strided view into a larger parent array (axis b)"""
    import numpy as np
    a = np.array(values, dtype=float)
    if a.ndim == 1:
        if layout == 'view':
            parent = np.full(2 * len(a) + 1, -7.0)
            parent[1::2] = a
            return parent[1::2]
        return a
    if layout == 'F':
        return np.asfortranarray(a)
    if layout == 'view':
        parent = np.full((a.shape[0] + 2, 2 * a.shape[1] + 1), -7.0)
        parent[1:-1, 1::2] = a
        return parent[1:-1, 1::2]
    return a


def _contains_sentinel(op):
    """internal state that must never contain a value the caller wrote into a RETURNED object (axis c)"""
    import numpy as np
    hits = []
    for nm in ('old_B', 'new_B', 'surpluses', 'old_R'):
        d = getattr(op, nm, {})
        for k, v in d.items():
            if np.any(np.asarray(v, dtype=float) == SENTINEL):
                hits.append(nm)
                break
    return hits


def _fingerprint(op):
    return repr((sorted((k, [float(x) for x in v]) for k, v in op.old_B.items()),
                 sorted((k, [float(x) for x in v]) for k, v in op.new_B.items()),
                 sorted((str(k), [float(x) for x in v]) for k, v in op.surpluses.items()),
                 sorted(op.old_grid_coord.keys()), len(op.old_R), [sorted(b.items()) for b in op.data_bins],
                 float(op.lambd), [int(x) for x in op.grid.numPoints]))


def impl_ophist(case):
    import numpy as np
    from sparseSpACE.ComponentGridInfo import ComponentGridInfo
    from sparseSpACE.GridOperation import DensityEstimation
    cls = _logging_de()
    dim = case['dim']
    ar = case.get('args') or {}
    args = _Args()
    objs = {}
    order = ['off', 'on']
    if case.get('decoy'):
        order = ['decoy', 'on', 'off']
    layout = ar.get('layout', 'C')
    shared_data = args.add('data', _array_as(case['data'], layout))
    shared_classes = args.add('classes', _array_as(case['classes'], layout)) if case['classes'] is not None else None

    def mk(reuse, lam):
        # axis b: ONE data / label array object for every operation object of the case, or equal arrays of the same layout
        d = shared_data if ar.get('share') else args.add('data-copy', _array_as(case['data'], layout))
        c = None
        if case['classes'] is not None:
            c = shared_classes if ar.get('share') else args.add('classes-copy', _array_as(case['classes'], layout))
        op = _mk_op(cls, dim, d, c, lam, reuse, debug=bool(case.get('debug')), ml=bool(case.get('ml')),
                    pre_scaled=bool(case.get('pre_scaled')), raw=True)
        op.init_dimension_wise(op.grid, None, _de._RC(), [1] * dim, [6] * dim, np.zeros(dim), np.ones(dim))
        op.initialize_evaluation_dimension_wise(_de._RC())
        return op
    for name in order:
        if name == 'decoy':
            r = _random.Random(len(case['data']))
            data = [[r.randrange(0, 65) / 64 for _ in range(dim)] for _ in range(len(case['data']) + 3)]
            data[0] = [0.0] * dim; data[1] = [1.0] * dim
            op = _mk_op(cls, dim, data, None, 0.5, True)
            op.init_dimension_wise(op.grid, None, _de._RC(), [1] * dim, [6] * dim, np.zeros(dim), np.ones(dim))
            op.initialize_evaluation_dimension_wise(_de._RC())
        else:
            op = mk(name == 'on', case['lam'])
        objs[name] = op
    out = {n: [] for n in objs}
    out['data'] = _de.tolist(objs['on'].data)
    # evaluation points: one object for every call of the history (list of tuples or ndarray)
    if ar.get('points_as') == 'ndarray':
        P = args.add('points', _array_as(case['points'], layout))
    else:
        P = args.add('points', [tuple(p) for p in case['points']])
    ctx = dict(args=args, mk=mk, P=P)
    for sn, step in enumerate(case['steps']):
        for name in order:                       # the objects are driven in turn, step by step, in one process
            op = objs[name]
            try:
                _ophist_step(case, step, name, op, order, out, ctx)
            except Exception as e:
                import traceback
                tb = traceback.extract_tb(e.__traceback__)
                fn = [f.name for f in tb if 'sparseSpACE' in f.filename]
                out[name] = dict(status='exc', exc=type(e).__name__, msg=str(e)[:200], fn=fn[-1] if fn else None,
                                 step=len(out[name]) if isinstance(out[name], list) else None)
                out.pop('decoy', None)
                return out
        bad = args.mutated()
        if bad and 'mutated' not in out:
            out['mutated'] = dict(step=sn, what=bad)
    on = objs['on']
    bins = []
    for d in range(dim):
        bins.append([(eval(k), [int(v[0]), int(v[1])]) for k, v in on.data_bins[d].items()])
    out['bins'] = bins
    out['sorted'] = [[int(i) for i in on.sorted_data[d]] for d in range(dim)]
    out['cache_R'] = len(on.old_R)
    out.pop('decoy', None)
    return out


def _ophist_step(case, step, name, op, order, out, ctx):
    import numpy as np
    from sparseSpACE.ComponentGridInfo import ComponentGridInfo
    from sparseSpACE.GridOperation import DensityEstimation
    ar = case.get('args') or {}
    args, P = ctx['args'], ctx['P']
    scale = 2.0 ** case.get('ascale', 0)
    if step.get('lam') is not None and name != 'decoy':
        op.lambd = step['lam']                   # axis f: the regularisation parameter changes between the steps of one object
    lam_now = float(op.lambd)
    rec = dict(grids=[], interp=[], interp2=[], interp_again=[], lam=lam_now)

    def scribble(lst):
        # the caller re-uses its own argument lists after the call: the library must have taken copies
        for row in lst:
            for i in range(len(row)):
                row[i] = -SENTINEL if isinstance(row[i], float) else 77

    def overwrite(res):
        # the caller writes into what a call returned (axis c)
        if ar.get('sentinel') and isinstance(res, np.ndarray) and res.flags.writeable:
            res[...] = SENTINEL
    for g in step['grids']:
        stripes = [list(s) for s in g['stripes']]
        levels = [list(l) for l in g['levels']]
        s_stripes, s_levels = _snap(stripes), _snap(levels)
        lv = tuple(g['lv'])
        op.grid.set_grid(stripes, levels)
        N = int(op.grid.get_num_points())
        gr = dict(N=N)
        nb = len(op.b_log)
        if g['solve'] and name != 'decoy':
            alphas = op.solve_density_estimation_dimension_wise(stripes, levels, ComponentGridInfo(lv, 1))
            gr['alphas'] = _de.tolist(alphas)
            gr['b'] = op.b_log[nb][1] if len(op.b_log) > nb else None      # None: the solve did not compute a right-hand side
            if name == 'off':
                # history-free reference: the same solve on a brand-new object
                fresh = ctx['mk'](False, lam_now)
                fresh.grid.set_grid([list(s) for s in g['stripes']], [list(l) for l in g['levels']])
                gr['alphas_fresh'] = _de.tolist(fresh.solve_density_estimation_dimension_wise(
                    [list(s) for s in g['stripes']], [list(l) for l in g['levels']], ComponentGridInfo(lv, 1)))
            op.surpluses[lv] = np.array(alphas)
            overwrite(alphas)
        else:
            b = op.calculate_B_dimension_wise(op.data, stripes, levels)
            gr['b'] = _de.tolist(b)
            overwrite(b)
            op.surpluses[lv] = np.array(_surpluses(g['seed'], N)) * scale
        if not (_same(stripes, s_stripes) and _same(levels, s_levels)) and 'mutated' not in out:
            out['mutated'] = dict(step=len(out[name]), what=['stripes/levels'], obj=name)
        if ar.get('scribble'):
            scribble(stripes); scribble(levels)
        rec['grids'].append(gr)
    rec['numpts'] = int(op.grid.get_num_points())

    def interp(points):
        res = []
        for g in step['grids']:
            mesh = [list(s) for s in g['stripes']]
            s_mesh = _snap(mesh)
            v = op.interpolate_points_component_grid(ComponentGridInfo(tuple(g['lv']), 1), mesh, points)
            res.append(_de.tolist(np.asarray(v).reshape(-1)))
            overwrite(v)
            if not _same(mesh, s_mesh) and 'mutated' not in out:
                out['mutated'] = dict(step=len(out[name]), what=['mesh_points_grid'], obj=name)
            if ar.get('scribble'):
                scribble(mesh)
        return res
    if step['order'] == 'interp-first':
        rec['interp'] = interp(P)
        op.post_processing()
    else:
        op.post_processing()
        rec['interp'] = interp(P)
    if step.get('points2'):
        rec['interp2'] = interp([tuple(p) for p in step['points2']])
    if step.get('twice'):
        rec['interp_again'] = interp(P)
    if case.get('observers') and name != 'decoy':
        # axis e: public calls on the live object between the steps; the pure ones must leave the state untouched
        fp = _fingerprint(op)
        g = step['grids'][-1]
        op.get_result()
        op.grid.get_num_points()
        op.grid.get_points_and_weights()
        op.get_hat_domain_for_every_grid_point_vectorized([list(s) for s in g['stripes']])
        op.get_neighbors_optimized(tuple(0.5 for _ in g['stripes']), [list(s) for s in g['stripes']])
        DensityEstimation.find_closest_old_B(op, [list(s) for s in g['stripes']])
        op.get_hat_domain(tuple(s[1] for s in g['stripes']), [list(s) for s in g['stripes']])
        op.interpolate_points_component_grid(ComponentGridInfo(tuple(g['lv']), 1), [list(s) for s in g['stripes']], [P[0]] if len(P) else [])
        if _fingerprint(op) != fp and 'observer_changed_state' not in out:
            out['observer_changed_state'] = dict(step=len(out[name]), obj=name)
        if step.get('post_again'):
            op.post_processing()                 # public as well; empties old_B (no re-use in the next step): later results as without
    if ar.get('sentinel') and name != 'decoy':
        hits = _contains_sentinel(op)
        if hits and 'aliased' not in out:
            out['aliased'] = dict(step=len(out[name]), where=hits, obj=name)
    if name == 'on':
        rec['old_keys'] = sorted(op.old_B.keys())
        rec['chosen'] = list(op.key_log)
        op.key_log = []
    out[name].append(rec)


def _scripted(seed, pzero):
    from sparseSpACE.ErrorCalculator import ErrorCalculator

    class Scripted(ErrorCalculator):
        """deterministic errors that depend only on the geometry of the refinement object: both settings follow one history"""
        def calc_error(self, ro, norm, volume_weights=None):
            key = (float(ro.start), float(ro.end), int(getattr(ro, 'this_dim', -1)))
            r = _random.Random('%s/%r' % (seed, key))
            if r.random() < pzero:
                return 0.0
            return r.choice([0.125, 0.25, 0.5, 0.5, 1.0, 1.0, 2.0, 4.0])
    return Scripted()


def impl_steps(case):
    import numpy as np
    from sparseSpACE.Utils import print_levels, log_levels
    from sparseSpACE.ErrorCalculator import ErrorCalculatorSingleDimMisclassificationGlobal
    from sparseSpACE.spatiallyAdaptiveSingleDimension2 import SpatiallyAdaptiveSingleDimensions2
    cls = _logging_de()
    dim = case['dim']
    ar = case.get('args') or {}
    layout = ar.get('layout', 'C')
    args = _Args()
    out = {}
    shared_data = args.add('data', _array_as(case['data'], layout))
    shared_classes = args.add('classes', _array_as(case['classes'], layout)) if case['classes'] is not None else None
    if ar.get('points_as') == 'ndarray':
        P = args.add('points', _array_as(case['points'], layout))
    else:
        P = args.add('points', [tuple(p) for p in case['points']])
    a = args.add('a', np.zeros(dim)); b = args.add('b', np.ones(dim))
    for reuse in (False, True):
        d = shared_data if ar.get('share') else args.add('data-copy', _array_as(case['data'], layout))
        c = None
        if case['classes'] is not None:
            c = shared_classes if ar.get('share') else args.add('classes-copy', _array_as(case['classes'], layout))
        op = _mk_op(cls, dim, d, c, case['lam'], reuse, boundary=bool(case.get('boundary')),
                    ml=bool(case.get('ml')), debug=bool(case.get('debug')), raw=True)
        stops = []
        res = dict(status='ok', stops=stops)
        try:
            runs = [(case['lmin'], case['lmax'], case['stops'])]
            if case.get('second_run'):
                runs.append((case['lmin'], case['lmax'] + 1, case['stops'][:3]))
            for rn, (lmin, lmax, plan) in enumerate(runs):
                S = SpatiallyAdaptiveSingleDimensions2(a, b, operation=op, margin=case['margin'], rebalancing=case['rebalancing'],
                                                       rebalancing_safety_factor=0.2, log_level=log_levels.ERROR,
                                                       print_level=print_levels.ERROR)
                est = case['estimator']
                ec = ErrorCalculatorSingleDimMisclassificationGlobal() if est == 'misclassification' else _scripted(est[1] + rn, est[2])
                for k, plan_k in enumerate(plan):
                    if k == 0:
                        S.performSpatiallyAdaptiv(lmin, lmax, ec, -1, max_evaluations=1, print_output=False)
                    else:
                        S.refine()
                        S.continue_adaptive_refinement(tol=-1, max_evaluations=1)
                    if plan_k.get('reeval'):
                        S.continue_adaptive_refinement(tol=-1, max_evaluations=1)      # stop / continue without refinement
                    st = dict(run=rn, numpts=int(op.grid.get_num_points()))
                    st['scheme'] = [([int(x) for x in g.levelvector], float(g.coefficient)) for g in S.scheme]
                    st['grids'] = []
                    for g in S.scheme:
                        sp = S.get_point_coord_for_each_dim(g.levelvector)[0]
                        st['grids'].append(dict(stripes=[[float(v) for v in s] for s in sp],
                                                surpluses=_de.tolist(op.surpluses[tuple(g.levelvector)])))
                    st['b_log'] = op.b_log
                    op.b_log = []
                    st['chosen'] = op.key_log
                    op.key_log = []

                    def density(points):
                        v = S(points)
                        r_ = _de.tolist(np.asarray(v).reshape(-1))
                        if ar.get('sentinel') and isinstance(v, np.ndarray) and v.flags.writeable:
                            v[...] = SENTINEL            # the caller writes into the returned array
                        return r_
                    if plan_k.get('interp'):
                        st['density'] = density(P)
                        if plan_k.get('points2'):
                            st['density2'] = density([tuple(p) for p in plan_k['points2']])
                        if plan_k.get('again'):
                            st['density_again'] = density(P)
                    if case.get('observers'):
                        # public calls on the live objects between the refinement steps (axis e)
                        fp = _fingerprint(op)
                        op.get_result(); S.get_total_num_points(); op.grid.get_points_and_weights()
                        S.get_point_coord_for_each_dim(S.scheme[0].levelvector)
                        if _fingerprint(op) != fp and 'observer_changed_state' not in out:
                            out['observer_changed_state'] = dict(step=len(stops), obj='on' if reuse else 'off')
                        if plan_k.get('post_again'):
                            op.post_processing()
                    if ar.get('sentinel'):
                        hits = _contains_sentinel(op)
                        if hits and 'aliased' not in out:
                            out['aliased'] = dict(step=len(stops), where=hits, obj='on' if reuse else 'off')
                    bad = args.mutated()
                    if bad and 'mutated' not in out:
                        out['mutated'] = dict(step=len(stops), what=bad, obj='on' if reuse else 'off')
                    stops.append(st)
            res['cache_R'] = len(op.old_R)
        except Exception as e:
            import traceback
            tb = traceback.extract_tb(e.__traceback__)
            res.update(status='exc', exc=type(e).__name__, msg=str(e)[:200],
                       where=['%s:%d' % (f.filename.split('/')[-1], f.lineno) for f in tb[-3:]])
        out['on' if reuse else 'off'] = res
    return out


def impl_std(case):
    import numpy as np
    from sparseSpACE.StandardCombi import StandardCombi
    from sparseSpACE.GridOperation import DensityEstimation
    from sparseSpACE.Utils import print_levels, log_levels
    dim = case['dim']
    out = {}
    P = [tuple(p) for p in case['points']]
    for reuse in (False, True):
        op = DensityEstimation(np.array(case['data'], dtype=float), dim, lambd=case['lam'], masslumping=bool(case.get('ml')),
                               classes=np.array(case['classes']) if case['classes'] is not None else None, reuse_old_values=reuse,
                               print_level=print_levels.ERROR, log_level=log_levels.ERROR)
        runs = []
        for lmin, lmax in case['runs']:
            combi = StandardCombi(np.zeros(dim), np.ones(dim), operation=op, print_level=print_levels.ERROR, log_level=log_levels.ERROR)
            combi.perform_operation(lmin, lmax)
            runs.append(dict(scheme=[([int(x) for x in g.levelvector], float(g.coefficient)) for g in combi.scheme],
                             surpluses=[_de.tolist(op.surpluses[tuple(g.levelvector)]) for g in combi.scheme],
                             density=_de.tolist(np.asarray(combi(P)).reshape(-1))))
        out['on' if reuse else 'off'] = runs
    return out


# ================================================================================================ comparison
def _amp_tol(stripes_list, lam, base=1e-8):
    """tolerance for quantities behind the LAPACK solve (cancellation-aware, see c17.ASSUMPTIONS)"""
    amp = max([_de.cancellation_amp(st) for st in stripes_list] + [1.0])
    return base + 64 * _de.EPS * amp / max(lam, 1e-3)


def _N(stripes):
    n = 1
    for s in stripes:
        n *= len(s) - 2
    return n


def model_calls_ophist(case, r):
    """(tag, sub, value) model calls of one op-history case (driver of C16: 10 = right-hand side, 8 = interpolant)"""
    calls = []
    signs = case['classes'] if case['classes'] is not None else []
    data = fr(r['data'])                     # the data the object holds after initialize() (min-max scaled when outside the cube)
    P = fr(case['points'])
    for s, step in enumerate(case['steps']):
        for gi, g in enumerate(step['grids']):
            st = fr(g['stripes'])
            calls.append(((s, gi, 'b'), 10, [st, data, signs]))
            N = _N(g['stripes'])
            for name in ('on', 'off'):
                rec = r[name][s]['grids'][gi]
                al = fr(rec['alphas']) if 'alphas' in rec else fr([v * 2.0 ** case.get('ascale', 0) for v in _surpluses(g['seed'], N)])
                if name == 'off' and 'alphas' not in rec:
                    continue                     # seeded surpluses: one model call serves both settings
                calls.append(((s, gi, 'interp', name), 8, [st, al, P]))
                if step.get('points2'):
                    calls.append(((s, gi, 'interp2', name), 8, [st, al, fr(step['points2'])]))
    return calls


def check_ophist(chk, c, r, m):
    """m: dict tag -> model result.  Returns True when everything agrees."""
    lam = c['lam']
    for name in ('on', 'off'):
        if isinstance(r.get(name), dict) and r[name].get('status') == 'exc':
            e = r[name]
            chk.violation('oracle:size_paths_agree', 'op-history-exception',
                          dict(path='op-history', exc=e['exc'], fn=e.get('fn'), debug=bool(c.get('debug'))), dict(c, steps=c['steps'][:(e.get('step') or 0) + 1]), dict(e, reuse=name))
            return False
    for key_, kind_, check_ in (('mutated', 'argument-mutated', 'oracle:arguments_unchanged'),
                                ('aliased', 'result-aliases-internal-state', 'oracle:results_not_aliased'),
                                ('observer_changed_state', 'observer-changed-state', 'oracle:observers_pure')):
        if key_ in r:
            e = r[key_]
            chk.violation(check_, kind_, dict(path='op-history', what=','.join(sorted(set(w_.replace('-copy', '') for w_ in (e.get('what') or e.get('where') or ['state']))))),
                          dict(c, steps=c['steps'][:(e.get('step') or 0) + 1]), e)
            return False
    if not c.get('rescale') and fr(r['data']) != fr(c['data']):
        chk.violation('corr:C17/data', 'data-rescaled', dict(path='op-history'), c, 'initialize() changed data inside the unit cube')
        return False
    for s, step in enumerate(c['steps']):
        on, off = r['on'][s], r['off'][s]
        lam = on.get('lam', c['lam'])
        hist = dict(c, steps=c['steps'][:s + 1])
        big = on['numpts'] >= THR
        chk.count('op-step-interp-path=' + ('large' if big else 'small'))
        for gi, g in enumerate(step['grids']):
            N = on['grids'][gi]['N']
            chk.count('op-grid-N' + ('>=200' if N >= THR else '<200'))
            if (N >= THR) != big:
                chk.count('op-grid-interpolated-on-the-path-of-another-grid-size')
            if N in (199, 200, 201):
                chk.count('op-grid-N=%d' % N)
            bm = qvec(m[(s, gi, 'b')])
            if on['grids'][gi]['b'] is None or off['grids'][gi]['b'] is None:
                chk.count('op-solve-without-rhs')
                b_on = b_off = bm
            else:
                b_on, b_off = fr(on['grids'][gi]['b']), fr(off['grids'][gi]['b'])
            if not vec_close(b_on, b_off, REL, 1e-15):
                chk.violation('oracle:reuse_on_equals_off', 'rhs-reuse-differs',
                              dict(path='op-history', step=min(s, 1), N_ge_threshold=N >= THR, ops=','.join(sorted(set(step['ops'])))), hist,
                              dict(step=s, grid=gi, lv=g['lv'], chosen=on.get('chosen'),
                                   max_abs_diff=float(max(abs(a - b) for a, b in zip(b_on, b_off)))))
                return False
            for name, b in (('off', b_off), ('on', b_on)):
                if not vec_close(b, bm, 1e-11):
                    chk.violation('corr:C17/b', 'rhs-path-differs-from-model' if N >= THR else 'rhs-differs-from-model',
                                  dict(path='op-history', reuse=name, N_ge_threshold=N >= THR), hist,
                                  dict(step=s, grid=gi, impl=str(on['grids'][gi]['b'])[:300], model=str([float(x) for x in bm])[:300]),
                                  failing_input=N >= THR)
                    return False
            solved = 'alphas' in on['grids'][gi]
            if solved:
                tol = _amp_tol([g['stripes']], lam)
                if not vec_close(fr(on['grids'][gi]['alphas']), fr(off['grids'][gi]['alphas']), tol, 1e-12):
                    chk.violation('oracle:reuse_on_equals_off', 'surpluses-reuse-differ', dict(path='op-history', N_ge_threshold=N >= THR), hist,
                                  dict(step=s, grid=gi, on=on['grids'][gi]['alphas'][:6], off=off['grids'][gi]['alphas'][:6]))
                    return False
                chk.count('op-solve-vs-fresh-object')
                if not vec_close(fr(off['grids'][gi]['alphas']), fr(off['grids'][gi]['alphas_fresh']), tol, 1e-12):
                    chk.violation('oracle:history_free', 'surpluses-depend-on-history', dict(path='op-history', N_ge_threshold=N >= THR), hist,
                                  dict(step=s, grid=gi, history=off['grids'][gi]['alphas'][:6], fresh=off['grids'][gi]['alphas_fresh'][:6]))
                    return False
            for obs, pts in (('interp', c['points']), ('interp2', step.get('points2')), ('interp_again', c['points'])):
                if not on[obs]:
                    continue
                v_on, v_off = fr(on[obs][gi]), fr(off[obs][gi])
                tol = _amp_tol([g['stripes']], lam) if solved else REL
                sig = dict(path='op-history', obs='interp', interp_path='large' if big else 'small', step=min(s, 1))
                if not vec_close(v_on, v_off, tol, 1e-12 if solved else 1e-15):
                    chk.violation('oracle:reuse_on_equals_off', 'interpolation-reuse-differs', sig, hist,
                                  dict(step=s, grid=gi, lv=g['lv'], which=obs, on=on[obs][gi], off=off[obs][gi], points=pts))
                    return False
                for name, v in (('on', v_on), ('off', v_off)):
                    tag = (s, gi, 'interp' if obs != 'interp2' else 'interp2', name if solved else 'on')
                    vm = qvec(m[tag])
                    if not vec_close(v, vm, 1e-11):
                        chk.violation('oracle:interpolant_of_own_surpluses', 'interpolation-differs-from-interpolant',
                                      dict(sig, reuse=name), hist,
                                      dict(step=s, grid=gi, lv=g['lv'], which=obs, impl=[float(x) for x in v],
                                           interpolant=[float(x) for x in vm], points=pts))
                        return False
        if on['interp_again'] and on['interp_again'] != on['interp']:
            if not all(vec_close(fr(a), fr(b), REL, 1e-15) for a, b in zip(on['interp_again'], on['interp'])):
                chk.violation('oracle:repeated_call', 'repeated-interpolation-differs', dict(path='op-history'), hist, dict(step=s))
                return False
    return True


def model_calls_steps(case, r):
    calls = []
    if case.get('boundary'):
        return calls
    signs = case['classes'] if case['classes'] is not None else []
    data = fr(case['data'])
    for name in ('on', 'off'):
        res = r[name]
        if res['status'] != 'ok':
            continue
        for s, st in enumerate(res['stops']):
            for gi, g in enumerate(st['grids']):
                sf = fr(g['stripes'])
                al = fr(g['surpluses'])
                if 'density' in st:
                    calls.append(((name, s, gi, 'd'), 8, [sf, al, fr(case['points'])]))
                if 'density2' in st:
                    calls.append(((name, s, gi, 'd2'), 8, [sf, al, fr(_plan_of(case, s)['points2'] or [])]))
            if name == 'off':
                # right-hand sides of the solves: all grids beyond the threshold, and the first smaller one
                small_done = False
                for bi, (sp, b) in enumerate(st['b_log']):
                    n = _N(sp)
                    if n >= THR or not small_done:
                        calls.append((('b', s, bi), 10, [fr(sp), data, signs]))
                        small_done = small_done or n < THR
    return calls


def _plan_of(case, s):
    """plan entry of stop number s (second runs re-use the first entries of the plan)"""
    n = len(case['stops'])
    return case['stops'][s] if s < n else case['stops'][s - n]


def check_steps(chk, c, r, m):
    on, off = r['on'], r['off']
    if on['status'] != 'ok' or off['status'] != 'ok':
        if on['status'] == off['status'] and on.get('exc') == off.get('exc') and on.get('where') == off.get('where'):
            chk.count('steps-both-raise-%s%s' % (on.get('exc'), '(debug)' if c.get('debug') else ''))
            if c.get('debug') or c.get('boundary'):
                return True
            chk.violation('corr:C17/adaptive-steps', 'steps-exception', dict(path='adaptive-steps', exc=on.get('exc')), c, dict(on=on))
        else:
            chk.violation('oracle:reuse_on_equals_off', 'adaptive-exception-differs',
                          dict(path='adaptive-steps', on=on.get('exc', 'ok'), off=off.get('exc', 'ok')), c,
                          dict(on={k: on.get(k) for k in ('exc', 'msg', 'where')}, off={k: off.get(k) for k in ('exc', 'msg', 'where')}))
        return False
    for key_, kind_, check_ in (('mutated', 'argument-mutated', 'oracle:arguments_unchanged'),
                                ('aliased', 'result-aliases-internal-state', 'oracle:results_not_aliased'),
                                ('observer_changed_state', 'observer-changed-state', 'oracle:observers_pure')):
        if key_ in r:
            e = r[key_]
            chk.violation(check_, kind_, dict(path='adaptive-steps', what=','.join(sorted(set(w_.replace('-copy', '') for w_ in (e.get('what') or e.get('where') or ['state']))))),
                          dict(c, stops=c['stops'][:(e.get('step') or 0) + 1]) if (e.get('step') or 0) < len(c['stops']) else c, e)
            return False
    lam = c['lam']
    scripted = c['estimator'] != 'misclassification'
    ok = True
    for s, (so, sf) in enumerate(zip(on['stops'], off['stops'])):
        hist = dict(c, stops=c['stops'][:s + 1]) if s < len(c['stops']) else c
        big = so['numpts'] >= THR
        chk.count('steps-stop-interp-path=' + ('large' if big else 'small'))
        if big and s > 0 and on['stops'][s - 1]['numpts'] >= THR and 'density' in so and 'density' in on['stops'][s - 1] \
                and so['run'] == on['stops'][s - 1]['run']:
            chk.count('steps-consecutive-large-path-interpolations')
        if c.get('boundary') and max((len(g['surpluses']) for g in so['grids']), default=0) >= THR:
            # excluded configuration: with boundary points the large-grid right-hand-side loop divides by zero at the boundary hats
            # (ZeroDivisionError with Python floats, inf/nan with numpy floats) whether or not old values are re-used
            chk.count('steps-boundary-grid>=200-excluded')
            break
        same_grids = so['scheme'] == sf['scheme'] and [g['stripes'] for g in so['grids']] == [g['stripes'] for g in sf['grids']]
        if not same_grids:
            if not scripted:
                chk.count('ambiguous-misclassification-tie')
                break
            chk.violation('oracle:reuse_on_equals_off', 'adaptive-steps-differ', dict(path='adaptive-steps', obs='scheme-or-grids'), hist,
                          dict(stop=s, on=so['scheme'], off=sf['scheme']))
            return False
        stl = [g['stripes'] for g in so['grids']]
        tol = _amp_tol(stl, lam)
        for gi, (go, gf) in enumerate(zip(so['grids'], sf['grids'])):
            if not vec_close(fr(go['surpluses']), fr(gf['surpluses']), tol, 1e-12):
                chk.violation('oracle:reuse_on_equals_off', 'adaptive-steps-differ',
                              dict(path='adaptive-steps', obs='surpluses', maxN_ge_threshold=len(go['surpluses']) >= THR), hist,
                              dict(stop=s, levelvector=so['scheme'][gi][0], on=go['surpluses'][:6], off=gf['surpluses'][:6]))
                return False
        # right-hand sides of all solves since the last stop
        for bi, ((sp, b1), (sp0, b0)) in enumerate(zip(so['b_log'], sf['b_log'])):
            n = _N(sp)
            if n >= THR:
                chk.count('steps-rhs>=200')
            if sp != sp0:
                continue
            if not vec_close(fr(b1), fr(b0), REL, 1e-15):
                chk.violation('oracle:reuse_on_equals_off', 'rhs-reuse-differs',
                              dict(path='adaptive-steps', step=min(s, 1), N_ge_threshold=n >= THR, ops='run'), hist,
                              dict(stop=s, solve=bi, stripes=sp, max_abs_diff=float(max(abs(F(x) - F(y)) for x, y in zip(fr(b1), fr(b0))))))
                return False
            if ('b', s, bi) in m and not vec_close(fr(b0), qvec(m[('b', s, bi)]), 1e-11):
                chk.violation('corr:C17/b', 'rhs-path-differs-from-model' if n >= THR else 'rhs-differs-from-model',
                              dict(path='adaptive-steps', reuse='off', N_ge_threshold=n >= THR), hist, dict(stop=s, solve=bi, stripes=sp),
                              failing_input=n >= THR)
                return False
        for obs in ('density', 'density2', 'density_again'):
            if obs not in so:
                continue
            sig = dict(path='adaptive-steps', obs='density', interp_path='large' if big else 'small', step=min(s, 1))
            if not vec_close(fr(so[obs]), fr(sf[obs]), tol, 1e-12):
                chk.violation('oracle:reuse_on_equals_off', 'interpolation-reuse-differs', sig, hist,
                              dict(stop=s, which=obs, on=so[obs], off=sf[obs], points=c['points']))
                return False
            if c.get('boundary'):
                continue
            tag = 'd2' if obs == 'density2' else 'd'
            for name, st in (('on', so), ('off', sf)):
                tot = None
                for gi, (lv, coeff) in enumerate(st['scheme']):
                    vm = qvec(m[(name, s, gi, tag)])
                    tot = [F(0)] * len(vm) if tot is None else tot
                    tot = [t + sx.rat(coeff) * v for t, v in zip(tot, vm)]
                if not vec_close(fr(st[obs]), tot, 1e-9, 1e-12):
                    chk.violation('oracle:interpolant_of_own_surpluses', 'interpolation-differs-from-interpolant', dict(sig, reuse=name), hist,
                                  dict(stop=s, which=obs, impl=st[obs], interpolant=[float(x) for x in tot], points=c['points'],
                                       scheme=st['scheme']))
                    return False
        if 'density_again' in so and not vec_close(fr(so['density_again']), fr(so['density']), REL, 1e-15):
            chk.violation('oracle:repeated_call', 'repeated-interpolation-differs', dict(path='adaptive-steps'), hist, dict(stop=s))
            return False
    return ok


def check_std(chk, c, r):
    for k, (a, b) in enumerate(zip(r['on'], r['off'])):
        if a['scheme'] != b['scheme'] or not all(vec_close(fr(x), fr(y), 1e-9, 1e-12) for x, y in zip(a['surpluses'], b['surpluses'])) \
                or not vec_close(fr(a['density']), fr(b['density']), 1e-9, 1e-12):
            chk.violation('oracle:reuse_on_equals_off', 'standard-combi-differs', dict(path='std-history', run=k), c,
                          dict(run=k, on=a['density'], off=b['density']))
            return False
    return True


def model17_calls_ophist(case, r):
    """calls of the C17 driver: 1 = right-hand-side re-use machine over the whole history, 2 = verified checker of the
    implementation's data bins, 3 = large-grid interpolation path (for steps whose grid object holds >= 200 points)"""
    calls = []
    signs = case['classes'] if case['classes'] is not None else []
    data = fr(r['data'])
    evs = []
    for step in case['steps']:
        for g in step['grids']:
            evs.append([[max(l) for l in g['levels']], fr(g['stripes'])])
        evs.append([])
    # the extracted model keeps nat in unary representation: sample-index arithmetic is quadratic in the number of samples,
    # so the re-use machine and the bins checker are run for data sets of up to 100 samples and grids up to 520 points
    # (larger cases are compared with the model right-hand side rhs, which the re-use machine is PROVED to equal)
    if len(case['data']) <= 100 and max((g_['N'] for s_ in r['on'] for g_ in s_['grids']), default=0) <= 520:
        calls.append(('reuse', 1, [THR, data, signs, r['sorted'], evs]))
        bins = [[[sx.rat(k[0]), sx.rat(k[1]), v[0], v[1]] for k, v in bm] for bm in r['bins']]
        calls.append(('bins', 2, [data, r['sorted'], bins]))
    P = fr(case['points'])
    for s, step in enumerate(case['steps']):
        if r['on'][s]['numpts'] < THR:
            continue
        for gi, g in enumerate(step['grids']):
            rec = r['on'][s]['grids'][gi]
            al = fr(rec['alphas']) if 'alphas' in rec else fr([v * 2.0 ** case.get('ascale', 0) for v in _surpluses(g['seed'], _N(g['stripes']))])
            calls.append(((s, gi, 'large'), 3, [fr(g['stripes']), al, P]))
    return calls


def check_ophist17(chk, c, r, m):
    """m: results of model17_calls_ophist"""
    ok = True
    if 'reuse' not in m:
        chk.count('reuse-machine-skipped(size)')
    out, mbins, mold = m.get('reuse', ([], [], []))
    n = 0
    for s, step in enumerate(c['steps'] if 'reuse' in m else []):
        chosen_impl = list(r['on'][s].get('chosen', []))
        for gi, g in enumerate(step['grids']):
            bm = qvec(out[n][0])
            ch = out[n][1]
            n += 1
            N = r['on'][s]['grids'][gi]['N']
            hist = dict(c, steps=c['steps'][:s + 1])
            if r['on'][s]['grids'][gi]['b'] is not None and not vec_close(fr(r['on'][s]['grids'][gi]['b']), bm, 1e-11):
                chk.violation('corr:C17/b-reuse-machine', 'rhs-reuse-differs-from-model', dict(path='op-history', N_ge_threshold=N >= THR), hist,
                              dict(step=s, grid=gi), failing_input=False)
                return False
            if N >= THR:
                ci = chosen_impl.pop(0) if chosen_impl else 'missing'
                cm = str([int(x) for x in ch[0]]) if ch else None
                # which old right-hand side is taken does not matter (theorem: every stored one is right): information only
                chk.count('closest-old-rhs-identical-to-model' if ci == cm else 'closest-old-rhs-differs-from-model(info)')
    if 'bins' in m:
        bok, pok = m['bins']
        chk.count('bins-checked', sum(len(b) for b in r['bins']))
        if not (bok and pok):
            chk.violation('checker:check_bins', 'data-bins-do-not-cover', dict(path='op-history', perms_ok=bool(pok)), c,
                          dict(bins=str(r['bins'])[:600]), failing_input=False)
            ok = False
        mb = [sorted(((sx.q(e[0]), sx.q(e[1])), (e[2], e[3])) for e in bm) for bm in mbins]
        ib = [sorted(((sx.rat(k[0]), sx.rat(k[1])), (v[0], v[1])) for k, v in bm) for bm in r['bins']]
        chk.count('bins-identical-to-model' if mb == ib else 'bins-differ-from-model(info)')
    for tag, v in m.items():
        if isinstance(tag, tuple) and tag[2] == 'large':
            s, gi, _ = tag
            chk.count('interp-large-path-vs-model')
            solved = 'alphas' in r['on'][s]['grids'][gi]          # the model call used the surpluses of the object with re-use
            if not vec_close(fr(r['on'][s]['interp'][gi]), qvec(v), 1e-11) or (
                    not solved and not vec_close(fr(r['off'][s]['interp'][gi]), qvec(v), 1e-11)):
                chk.violation('corr:C17/interp-large', 'large-interpolation-differs-from-model', dict(path='op-history'),
                              dict(c, steps=c['steps'][:s + 1]), dict(step=s, grid=gi, impl=r['on'][s]['interp'][gi],
                                                                      model=[float(x) for x in qvec(v)]), failing_input=False)
                return False
    return ok
