"""C07: extend-split areas tile the domain and each carries a valid local combination.

Correspondence: the real SpatiallyAdaptiveExtendScheme, driven step-wise with a scripted ErrorCalculator, against the
extracted Gallina model (coq/Model/ExtendSplit.v, coq/Model/ESInterp.v).  Oracle: the property's own predicate on the
implementation alone.

Envelope (axes of the property's quantifier and how the generator covers them; the histogram of every axis value goes
into the evidence through chk.count):
  dimension            1 (versions 1,2 run; version 0 raises IndexError in coarsen_grid: known finding C07-v0-dim1), 2, 3, 4 in
                       histories; 2..5 in the exhaustive coarsen_grid sweep
  start levels         lmin 1..3, lmax - lmin 0..3 in histories (the scheme grows with every extend of a coarsening-0 area);
                       lmin 0..3, lmax - lmin 0..6 in the sweep
  coarsening version   0, 1, 2 and the undocumented 3 (Model/ESV3.v; its assert fails for lmin = 0: excluded there)
  number_of_refinements_before_extend 0..3 and 6 (never extends)
  automatic_extend_split / split_single_dim  on / off (all four combinations)
  refinement decisions scripted benefits k/8 per (seed, step, box) incl. zeros and ties; `uniform` histories (all benefits
                       equal: every area is refined in every round, up to 256 areas)
  histories on ONE strategy object: 2..5 events, each a refine()+evaluate step, a restart
                       performSpatiallyAdaptiv(refinement_container=self.refinement) (every area is evaluated again), or a
                       re-run performSpatiallyAdaptiv(lmin', lmax') with other start levels; between the events the harness
                       calls coarsen_grid for every (area, component grid) (fills levelvec_dict), the point assignment and the
                       interpolation __call__
  evaluation points    dyadic points of the domain, points on faces / corners / midpoints of leaves, points outside the
                       domain, the empty list, lists of > 1000 points
  argument objects     the points argument of get_points_assignement_to_areas / interpolate_points / __call__: fresh lists, or ONE
                       list / tuple object per history that is the only points argument ever passed ('only') or is passed next
                       to fresh lists first and last in an observation ('mixed': the answers for the object and for an equal
                       fresh copy must coincide); the object is used at a random subset of the observations, so that uses lie
                       before and after restarts / re-runs at equal and at unequal values of the refinement counter (histogram
                       same-points-object-across-restart:*); the argument must not be modified; the returned assignment lists are
                       emptied and the question asked again. ndarray arguments (and lists of lists / of arrays) are excluded:
                       the unchanged code raises TypeError (unhashable) in get_points_in_areas_recursive
  excluded (raise on the unchanged tree, not part of the documented options): no_initial_splitting=True (assert False in
                       initialize_refinement), dim_adaptive=True (TypeError in combiScheme)
"""
import itertools
import random
import zlib
from fractions import Fraction
from .. import sx
from ..impl import run_impl
from ..model import run_model
from . import _c07_gen

ASSUMPTIONS = [
    _c07_gen.ASSUMPTION,
    'boxes over exact rationals (Qc); all generated domains/points are dyadic, so the float midpoints of the code are exact',
    'automatic_extend_split: the extend/split decision bit of every refined area is an INPUT of the model step, read off '
    'the implementation trace (it is decided by float error estimates of the real integrand); likewise the list of split '
    'dimensions for split_single_dim (decided by float twin errors); the theorems hold for every value of these inputs',
    'scripted ErrorCalculator: benefit of an area = k/8 (k in 0..8, function of seed, step and box), so the selection '
    'benefit >= benefit_max*0.9 is decided identically in binary64 and in exact arithmetic (margin modelled as 9/10)',
    'twin bookkeeping and the error-estimate arithmetic of automatic_extend_split are not modelled (only their calls of '
    'coarsen_grid on dead parent areas, which do not touch the leaves)',
    'coarsening version 3 (undocumented, outside the property text) is modelled in Model/ESV3.v and compared like the others',
    'interpolation: the model interpolates in exact rational arithmetic; implementation values are compared with the '
    'tolerance 1e-9 * (1 + |value|) (polynomial test function with dyadic coefficients, dyadic points)',
    'restart performSpatiallyAdaptiv(refinement_container=...) is modelled as an evaluation of all areas (Model/ESInterp.v restart = '
    'mark_all_new + evaluate; theorems C07_*_with_restarts); a re-run with other start levels is a fresh model history',
]

# the error-estimate arithmetic of automatic_extend_split (not modelled): functions of SpatiallyAdaptiveExtendScheme
AUTO_ESTIMATOR = {'compute_benefits_for_operations', 'get_parent_extend_operation', 'get_parent_split_operation',
                  'get_parent_split_operation2', 'get_reference_operation', 'set_extend_benefit', 'set_split_benefit',
                  'set_extend_error_correction', 'evaluate_operation_area_complete_flexibel', 'calc_error',
                  'get_sum_sibling_value', 'get_best_fit', 'get_previous_value_from_split_parent', 'initialize_error_estimates'}

DOMAINS = [(0, 1), (0, 1), (-1, 1), (0, 2), (Fraction(1, 2), Fraction(3, 2)), (-2, 1), (Fraction(-1, 4), Fraction(3, 4)), (1, 4)]
TOL = 1e-9


# ------------------------------------------------------------------------------------------------ generator
def gen_events(rng, steps, lmin, span, dim, auto=False, p_restart=0.09):
    ev = []
    for k in range(steps):
        r = rng.random()
        if r < p_restart and k > 0:
            ev.append('restart')
        elif r < p_restart + 0.08 and k > 0 and dim <= 3:
            l2 = rng.choice([1, 2, 3] if dim == 2 else [1, 2])
            # automatic_extend_split cannot refine with lmin = lmax (known finding C07-auto-lmin-eq-lmax-raises)
            ev.append(['rerun', l2, l2 + rng.choice(([0, 1, 1, 2] if not auto else [1, 1, 2]) if dim == 2 and l2 < 3
                                                    else ([0, 1] if not auto else [1]))])
        else:
            ev.append('step')
    return ev


def gen_case(rng, tier, i):
    dim = rng.choice([2, 2, 2, 2, 3, 3, 3, 4, 1])
    version = rng.choice([0, 1, 2, 0, 1, 2, 3])
    if dim == 1 and rng.random() < 0.6:
        version = rng.choice([1, 2])
    nrbe = rng.choice([0, 1, 2, 3, 0, 1, 2, 6])
    auto = rng.random() < 0.4
    single = rng.random() < 0.4
    lmin = rng.choice([1, 1, 1, 2, 2, 3])
    span = rng.choice([0, 1, 1, 2, 3] if dim <= 2 else [0, 1, 1, 2])
    if dim == 3 and lmin >= 2:
        span = min(span, 1)
    if dim == 4:
        lmin = rng.choice([1, 1, 2]); span = rng.choice([0, 1]) if lmin == 1 else 0
    if dim <= 2 and lmin == 3:
        span = min(span, 2)
    auto_scripted = auto and rng.random() < 0.5
    if auto and not auto_scripted and span == 0 and rng.random() < 0.9:
        span = 1        # lmin = lmax with the real error estimator of automatic_extend_split raises at the first refine(): low frequency
    steps = rng.randrange(2, 6 if dim <= 2 else (5 if dim == 3 else 3))
    dom = [rng.choice(DOMAINS) for _ in range(dim)]
    fn = rng.choice([0, 1, 2, 3, 3])
    c = dict(dim=dim, version=version, nrbe=nrbe, auto=auto, single=single, lmin=lmin, lmax=lmin + span,
             steps=steps, a=[str(Fraction(d[0])) for d in dom], b=[str(Fraction(d[1])) for d in dom],
             fn=fn, seed=rng.randrange(1 << 30), npts=rng.choice([6, 12, 12, 0]))
    # argument re-use: ONE points object per history; 'only' = no other points argument is ever handed to the strategy,
    # 'mixed' = next to fresh lists (answers for the object and for an equal fresh copy must coincide); `use` = at which
    # observations the object is used at all (so that calls lie before/after restarts at equal and unequal refinement counts)
    r = rng.random()
    if r < 0.55 and dim >= 2 and fn != 3 and rng.random() < 0.7:
        fn = 3          # histories that re-use the points object mostly carry the polynomial: interpolation values are compared with the model
        c['fn'] = 3
        c['poly'] = [[str(Fraction(rng.randrange(-4, 5), 2)) for _ in range(dim)],
                     [str(Fraction(rng.choice([-3, -1, 1, 2, 3, 5, 6]), 2)) for _ in range(dim)]]
    if r < 0.35 and dim >= 2:
        c['reuse'] = dict(mode='only', use=[1] + [int(rng.random() < 0.55) for _ in range(6)], alias=rng.random() < 0.4,
                          container=rng.choice(['list', 'list', 'tuple']))
    elif r < 0.55 and dim >= 2:
        c['reuse'] = dict(mode='mixed', use=[1] + [int(rng.random() < 0.6) for _ in range(6)], container='list')
    if rng.random() < (0.6 if c.get('reuse') else 0.25):
        c['spread'] = True
    if auto_scripted:
        # the benefit numbers compared by RefinementObjectExtendSplit.refine are scripted (k/8, ties included) instead of coming
        # out of the float error estimator; in both modes the model COMPUTES the extend/split bit from the numbers
        c['auto_scripted'] = True
    c['events'] = gen_events(rng, steps, lmin, span, dim, auto and not auto_scripted, p_restart=(0.3 if c.get('reuse') else 0.09))
    if fn == 3:
        c['poly'] = [[str(Fraction(rng.randrange(-4, 5), 2)) for _ in range(dim)],
                     [str(Fraction(rng.choice([-3, -1, 1, 2, 3, 5, 6]), 2)) for _ in range(dim)]]
    if rng.random() < 0.06 and dim <= 3 and not auto:
        c['nbig'] = rng.choice([250, 1100])
    if rng.random() < 0.05 and dim == 2 and not auto:
        c.update(uniform=True, nrbe=rng.choice([2, 6]), steps=rng.choice([2, 3]), events=None)
    return c


def events_of(c):
    ev = c.get('events')
    if ev is None:
        ev = ['step'] * c['steps']
    return list(ev[:c['steps']])


def case_key(c):
    return (c['dim'], c['version'], c['nrbe'], c['auto'], c['single'], c['lmin'], c['lmax'], c['steps'], tuple(c['a']),
            tuple(c['b']), c['fn'], c['seed'], str(c.get('events')))


# ------------------------------------------------------------------------------------------------ implementation
def _fr(x):
    return sx.rat(x)


def _box(o):
    return (tuple(_fr(x) for x in o.start), tuple(_fr(x) for x in o.end))


def scripted_benefit(seed, step, box):
    """k/8, k in 0..8, as a function of (seed, step, box) only - independent of container order."""
    h = zlib.crc32(repr((seed, step, [str(x) for x in box[0]], [str(x) for x in box[1]])).encode())
    return (h >> 3) % 9


def _make_function(case):
    from sparseSpACE import Function as F
    dim = case['dim']
    a = [float(Fraction(x)) for x in case['a']]
    b = [float(Fraction(x)) for x in case['b']]
    mid = [(x + y) / 2 for x, y in zip(a, b)]
    k = case['fn']
    if k == 3:
        al = [float(Fraction(x)) for x in case['poly'][0]]
        be = [float(Fraction(x)) for x in case['poly'][1]]

        class Poly(F.Function):
            """sum_d al_d x_d^2 + prod_d (be_d + x_d)  (= Model/StdCombi.v fun_poly)"""
            def eval(self, x):
                s, p = 0.0, 1.0
                for a_, b_, xi in zip(al, be, x):
                    s += a_ * xi * xi
                    p *= (b_ + xi)
                return s + p
        return Poly()
    if k == 0:
        return F.GenzGaussian(tuple(m + 0.21 * (y - x) for m, x, y in zip(mid, a, b)), tuple([4.0] * dim))
    if k == 1:
        return F.GenzC0([2.0 + d for d in range(dim)], [m + 0.13 * (y - x) for m, x, y in zip(mid, a, b)])
    return F.GenzProductPeak([3.0] * dim, [m - 0.3 * (y - x) for m, x, y in zip(mid, a, b)])


def _tree_paths(root):
    """id(obj) -> path in the refinement tree hanging off root_cell"""
    paths = {}
    stack = [(root, ())]
    while stack:
        node, p = stack.pop()
        paths[id(node)] = p
        for i, ch in enumerate(node.children):
            stack.append((ch, p + (i,)))
    return paths


def _tree_leaves(root):
    out = []
    stack = [root]
    while stack:
        node = stack.pop()
        if node.children:
            stack.extend(node.children)
        else:
            out.append(node)
    return out


def gen_points(rng, a, b, leaves, n):
    """random dyadic points of the domain + points on leaf faces/corners/midpoints + a few points outside"""
    dim = len(a)
    pts = []
    for _ in range(n):
        r = rng.random()
        if r < 0.45 or not leaves:
            p = tuple(a[d] + (b[d] - a[d]) * Fraction(rng.randrange(0, 65), 64) for d in range(dim))
        elif r < 0.9:
            s, e = rng.choice(leaves)
            p = tuple(rng.choice([s[d], e[d], (s[d] + e[d]) / 2, s[d] + (e[d] - s[d]) * Fraction(rng.randrange(0, 9), 8)])
                      for d in range(dim))
        else:
            p = list(a[d] + (b[d] - a[d]) * Fraction(rng.randrange(0, 9), 8) for d in range(dim))
            d = rng.randrange(dim)
            p[d] = rng.choice([a[d] - Fraction(1, 4), b[d] + Fraction(1, 8)])
            p = tuple(p)
        pts.append(p)
    return sorted(set(pts))


def impl_run(case):
    """Drives the real strategy.  Returns the per-event observables and everything the model needs as input."""
    import numpy as np
    import io
    import contextlib
    from sparseSpACE.spatiallyAdaptiveExtendSplit import SpatiallyAdaptiveExtendScheme
    from sparseSpACE.GridOperation import Integration
    from sparseSpACE.Grid import TrapezoidalGrid
    from sparseSpACE.ErrorCalculator import ErrorCalculator

    dim = case['dim']
    aq = [Fraction(x) for x in case['a']]
    bq = [Fraction(x) for x in case['b']]
    a = np.array([float(x) for x in aq])
    b = np.array([float(x) for x in bq])
    seed = case['seed']
    uniform = bool(case.get('uniform'))
    spread = bool(case.get('spread'))
    reuse = case.get('reuse')
    rng = random.Random(seed)
    tr = dict(step=0, phase='', compute=[], refined=[], bens=[], nums={}, twin=[])

    class Scripted(ErrorCalculator):
        def calc_error(self, f, norm, volume_weights=None):
            box = _box(f)
            k = 8 if uniform else scripted_benefit(seed, tr['step'], box)
            if spread:      # widely spread benefits 2^j / 8: (almost always) exactly one area is refined per round
                k = 2 ** (zlib.crc32(repr((seed, tr['step'], [str(x) for x in box[0]], [str(x) for x in box[1]], 's')).encode()) % 24)
            tr['bens'].append((box, k))
            ev = f.evaluations
            return (k / 8.0) * ev if ev != 0 else k / 8.0

    class Observed(SpatiallyAdaptiveExtendScheme):
        def compute_solutions(self, areas, evaluation_array):
            tr['phase'] = 'compute'
            try:
                return super().compute_solutions(areas, evaluation_array)
            finally:
                tr['phase'] = ''

        def coarsen_grid(self, levelvector, area):
            res = super().coarsen_grid(levelvector, area)
            if tr['phase'] == 'compute':
                tr['compute'].append((_box(area), [int(x) for x in levelvector], [int(x) for x in res[0]], bool(res[1])))
            return res

        def compute_benefits_for_operations(self, area):
            if not case.get('auto_scripted'):
                return super().compute_benefits_for_operations(area)
            # scripted benefit numbers k/8 (ties included) instead of the float error estimator
            h = zlib.crc32(repr((seed, tr['step'], [str(x) for x in _box(area)[0]], [str(x) for x in _box(area)[1]], 'auto')).encode())
            area.parent_info.benefit_extend = ((h >> 4) % 5) / 8.0
            area.parent_info.benefit_split = ((h >> 9) % 5) / 8.0
            area.parent_info.extend_error_correction = 0.0

        def do_refinement(self, area, position):
            n0 = len(self.refinement.get_objects())
            res = super().do_refinement(area, position)
            new = self.refinement.get_objects()[n0:]
            pb = _box(area)
            if self.automatic_extend_split:
                # the numbers RefinementObjectExtendSplit.refine compared
                tr['nums'][pb] = (_fr(area.parent_info.benefit_extend), _fr(area.parent_info.benefit_split))
            if len(new) == 1:
                tr['refined'].append((pb, 1, []))
            else:
                dims = [d for d in range(self.dim) if any(_box(o)[0][d] != pb[0][d] or _box(o)[1][d] != pb[1][d] for o in new)]
                tr['refined'].append((pb, 0, dims))
            return res

    from sparseSpACE.RefinementObject import RefinementObjectExtendSplit as ROES
    orig_set, orig_refine = ROES.set_twin_error, ROES.refine

    def set_twin_error_logged(self, d, twinError):
        res = orig_set(self, d, twinError)
        tr['twin'].append([0, list(_box(self)[0]), list(_box(self)[1]), int(d), _fr(self.twinErrors[d])])
        return res

    def refine_logged(self):
        res = orig_refine(self)
        new = res[0]
        tr['twin'].append([1, list(_box(self)[0]), list(_box(self)[1]), int(len(new) == 1 and _box(new[0]) == _box(self))])
        return res

    f = _make_function(case)
    grid = TrapezoidalGrid(a=a, b=b, boundary=True)
    op = Integration(f=f, grid=grid, dim=dim, reference_solution=None)
    s = Observed(a, b, number_of_refinements_before_extend=case['nrbe'], version=case['version'],
                 automatic_extend_split=case['auto'], split_single_dim=case['single'], operation=op)
    ec = Scripted()

    def inside(p):
        return all(aq[d] <= p[d] <= bq[d] for d in range(dim))

    def snapshot(res):
        return sorted((tuple(float(x) for x in p), _box(area)) for area, cont in res for p in cont)

    def observe(pts, obj=None, alias=False, silent=False):
        """obj: the persistent list/tuple object of this history holding exactly the points pts (as float tuples); when given,
        it is the ONLY points argument handed to the strategy in this observation"""
        objs = s.refinement.get_objects()
        paths = _tree_paths(s.root_cell)
        leaves = [[list(_box(o)[0]), list(_box(o)[1]), int(o.coarseningValue), int(o.needExtendScheme),
                   list(paths.get(id(o), (-1,)))] for o in objs]
        scheme = [([int(x) for x in cg.levelvector], _fr(cg.coefficient)) for cg in s.scheme]
        coarse = []
        for o in objs:
            for cg in s.scheme:
                lc, dc = s.coarsen_grid(cg.levelvector, o)
                coarse.append([list(_box(o)[0]), list(_box(o)[1]), [int(x) for x in cg.levelvector], [int(x) for x in lc], int(bool(dc))])
        fpts = [tuple(float(x) for x in p) for p in pts]
        back = dict(zip(fpts, pts))
        assign = []
        alias_bad = None
        # silent: no points argument at all is handed to the strategy in this observation
        res = [] if silent else s.get_points_assignement_to_areas(obj if obj is not None else list(fpts))
        not_leaf = None
        for area, cont in res:
            for p in cont:
                assign.append([list(back[tuple(p)]), list(_box(area)[0]), list(_box(area)[1])])
            if len(cont) and not_leaf is None and all(area is not o for o in objs):
                not_leaf = [list(_box(area)[0]), list(_box(area)[1]), list(back[tuple(next(iter(cont)))])]
        if obj is not None and alias:
            # returned-object aliasing: empty the returned lists, ask again with the same argument object
            snap1 = snapshot(res)
            for area, cont in res:
                if isinstance(cont, list):
                    del cont[:]
            snap2 = snapshot(s.get_points_assignement_to_areas(obj))
            if snap1 != snap2:
                alias_bad = 'after emptying the lists returned by get_points_assignement_to_areas the next call with the same ' \
                            'argument returns %d instead of %d assigned points' % (len(snap2), len(snap1))
        tl = sorted([list(_box(o)[0]), list(_box(o)[1])] for o in _tree_leaves(s.root_cell))
        # the interpolation call of the strategy at the evaluation points inside the domain
        interp = []
        if obj is not None:
            vals = s(obj)
            interp = [[list(p), _fr(float(np.asarray(v).reshape(-1)[0]))] for p, v in zip(pts, vals)]
        else:
            ipts = [p for p in pts if inside(p)][:40] if case['fn'] == 3 else []
            if ipts:
                vals = s([tuple(float(x) for x in p) for p in ipts])
                interp = [[list(p), _fr(float(np.asarray(v).reshape(-1)[0]))] for p, v in zip(ipts, vals)]
        return dict(lmax=[int(x) for x in s.lmax], lmin=[int(x) for x in s.lmin], leaves=leaves, scheme=scheme, coarse=coarse,
                    assign=sorted(assign), tree_leaves=tl, pts=[list(p) for p in pts], interp=interp, alias_bad=alias_bad,
                    assign_not_leaf=not_leaf)

    def pts_now():
        leaves = [_box(o) for o in s.refinement.get_objects()]
        pts = gen_points(rng, aq, bq, leaves, case['npts'])
        nb = case.get('nbig', 0)
        if nb:
            pts = sorted(set(pts) | set(tuple(aq[d] + (bq[d] - aq[d]) * Fraction(rng.randrange(0, 257), 256) for d in range(dim))
                                        for _ in range(nb)))
        return pts

    def point_sums(nodal=True):
        """per leaf: coefficient sum of the computed component grids at every actual grid point (implementation grid);
        nodal exactness of the strategy's interpolation at area grid points (assigned to the area whose grid they are on)"""
        bad = []
        npts = 0
        per_leaf = {}
        for o in s.refinement.get_objects():
            acc = {}
            for cg in s.scheme:
                lc, dc = s.coarsen_grid(cg.levelvector, o)
                if not dc:
                    continue
                s.grid.setCurrentArea(o.start, o.end, lc)
                for p in s.grid.getPoints():
                    key = tuple(float(x) for x in p)
                    acc[key] = acc.get(key, 0) + _fr(cg.coefficient)
            npts += len(acc)
            per_leaf[_box(o)] = acc
            for key, v in acc.items():
                if v != 1:
                    bad.append([list(_box(o)[0]), list(_box(o)[1]), [_fr(x) for x in key], v])
                    break
        cand = sorted(set(p for acc in per_leaf.values() for p in acc))
        if len(cand) > 120:
            cand = random.Random(seed ^ tr['step']).sample(cand, 120)
        nodal_bad, nodal_n = [], 0
        if cand and nodal:
            sel = []
            for area, cont in s.get_points_assignement_to_areas(list(cand)):
                acc = per_leaf.get(_box(area), {})
                sel.extend((tuple(p), _box(area)) for p in cont if tuple(p) in acc)
            if sel:
                vals = s([p for p, _ in sel])
                for (p, bx), v in zip(sel, vals):
                    got = float(np.asarray(v).reshape(-1)[0])
                    want = float(np.asarray(f.eval(p)).reshape(-1)[0])
                    nodal_n += 1
                    if not abs(got - want) <= TOL * (1 + abs(want)):
                        nodal_bad.append([list(bx[0]), list(bx[1]), [_fr(x) for x in p], got, want])
        return dict(npoints=npts, bad=bad[:3], nodal_n=nodal_n, nodal_bad=nodal_bad[:3], per_leaf=per_leaf)

    states, inputs = [], []
    abort = None

    # ONE persistent points object per history (argument re-use): dyadic points of the domain incl. corners and the centre
    PQ, PF, PF_saved = [], None, None
    if reuse:
        prng = random.Random(seed ^ 0x5bd1)
        cand = set()
        cand.add(tuple(aq)); cand.add(tuple(bq)); cand.add(tuple((x + y) / 2 for x, y in zip(aq, bq)))
        # the lattice k/8 (d <= 2) resp. k/4 (d = 3) resp. k/2: grid points of the first levels of every area
        m = {1: 16, 2: 8, 3: 4}.get(dim, 2)
        for ks in itertools.product(range(m + 1), repeat=dim):
            cand.add(tuple(aq[d] + (bq[d] - aq[d]) * Fraction(ks[d], m) for d in range(dim)))
        n_extra = len(cand) + (60 if dim <= 2 else 40)
        while len(cand) < n_extra:
            cand.add(tuple(aq[d] + (bq[d] - aq[d]) * Fraction(prng.randrange(0, 33), 32) for d in range(dim)))
        PQ = sorted(cand)
        PF = [tuple(float(x) for x in p) for p in PQ]
        if reuse.get('container') == 'tuple':
            PF = tuple(PF)
        PF_saved = list(PF)

    def used_now():
        u = reuse.get('use') or [1]
        return bool(u[len(states) % len(u)])

    def record(kind, lmin, lmax):
        only = bool(reuse) and reuse['mode'] == 'only'
        mixed = bool(reuse) and reuse['mode'] == 'mixed' and used_now()
        if only:
            use = used_now()
            pts = PQ if use else []
            st = observe(pts, obj=(PF if use else None), alias=bool(reuse.get('alias')), silent=not use)
            st['reused'] = int(use)
        else:
            first = snapshot(s.get_points_assignement_to_areas(PF)) if mixed else None
            pts = pts_now()
            st = observe(pts)
        st['compute'] = sorted(tr['compute'])
        st['refined'] = sorted(tr['refined']) if kind == 'step' else []
        ps = point_sums(nodal=not only) if (len(st['leaves']) <= 40) else None
        per_leaf = ps.pop('per_leaf') if ps else None
        st['ptsum'] = ps
        if only and per_leaf is not None and st['interp']:
            # nodal exactness at the re-used points: p lies on a computed grid of the leaf it is assigned to
            val = {tuple(p): v for p, v in st['interp']}
            bad, n = [], 0
            for p, bs, be in st['assign']:
                acc = per_leaf.get((tuple(bs), tuple(be)))
                fp = tuple(float(x) for x in p)
                if acc and fp in acc and tuple(p) in val:
                    n += 1
                    want = float(np.asarray(f.eval(fp)).reshape(-1)[0])
                    got = float(val[tuple(p)])
                    if not abs(got - want) <= TOL * (1 + abs(want)):
                        bad.append([bs, be, list(p), got, want])
            ps['nodal_n'] += n
            ps['nodal_bad'] = (ps['nodal_bad'] + bad)[:3]
        if mixed:
            # the persistent object first (above) and last, against an equal fresh copy: identical answers
            last = snapshot(s.get_points_assignement_to_areas(PF))
            v_obj = [float(np.asarray(v).reshape(-1)[0]) for v in s(PF)]
            fresh = snapshot(s.get_points_assignement_to_areas(list(PF_saved)))
            v_fresh = [float(np.asarray(v).reshape(-1)[0]) for v in s(list(PF_saved))]
            if not (first == fresh == last):
                st['reuse_bad'] = 'get_points_assignement_to_areas answers differently for the re-used points object and an equal fresh copy'
            elif any(not abs(x - y) <= TOL * (1 + abs(y)) for x, y in zip(v_obj, v_fresh)):
                st['reuse_bad'] = '__call__ answers differently for the re-used points object and an equal fresh copy'
            st['reused'] = 1
        if reuse and list(PF) != PF_saved:
            st['arg_mutated'] = 'the points argument was modified by the strategy'
        st['kind'] = kind
        st['nref'] = int(s.refinements)
        states.append(st)
        if case['single']:
            st['twin_errors'] = sorted([list(_box(o)[0]), list(_box(o)[1]), [(None if t is None else _fr(t)) for t in o.twinErrors]]
                                       for o in s.refinement.get_objects())
        inputs.append(dict(kind=kind, lmin=lmin, lmax=lmax, bens=list(tr['bens']),
                           decs=[tuple(x) + tuple(tr['nums'].get(x[0], ())) for x in tr['refined']] if kind == 'step' else [],
                           pts=[list(p) for p in pts], twin=list(tr['twin'])))
        tr['twin'] = []
        tr['nums'] = {}

    ROES.set_twin_error, ROES.refine = set_twin_error_logged, refine_logged
    try:
        with contextlib.redirect_stdout(io.StringIO()):
            tr['step'] = 0
            s.performSpatiallyAdaptiv(case['lmin'], case['lmax'], ec, tol=-1, max_evaluations=1, do_plot=False, print_output=False)
            record('init', case['lmin'], case['lmax'])
            for k, ev in enumerate(events_of(case), start=1):
                tr.update(step=k, compute=[], refined=[], bens=[])
                if ev == 'step':
                    s.refine()
                    s.continue_adaptive_refinement(tol=-1, max_evaluations=1)
                    record('step', None, None)
                elif ev == 'restart':
                    s.performSpatiallyAdaptiv(case['lmin'], case['lmax'], ec, tol=-1, max_evaluations=1, do_plot=False,
                                              print_output=False, refinement_container=s.refinement)
                    record('restart', None, None)
                else:
                    s.performSpatiallyAdaptiv(ev[1], ev[2], ec, tol=-1, max_evaluations=1, do_plot=False, print_output=False)
                    record('init', ev[1], ev[2])
    except Exception as e:  # the states reached so far are still compared
        import os
        import traceback
        where, func = '', ''
        frames = traceback.extract_tb(e.__traceback__)
        for fr in reversed(frames):
            if 'sparseSpACE' in fr.filename:
                where = '%s:%d' % (os.path.basename(fr.filename), fr.lineno)
                func = fr.name
                break
        in_est = any(fr.name in AUTO_ESTIMATOR and 'sparseSpACE' in fr.filename for fr in frames)
        abort = (type(e).__name__, where, str(e)[:200], tr['step'], func, in_est)
    finally:
        ROES.set_twin_error, ROES.refine = orig_set, orig_refine
    return dict(states=states, inputs=inputs, abort=abort)


def sweep_run(case):
    """coarsen_grid on fresh areas: ONE strategy object per (dim, version), re-initialised for a sequence of start levels
    (lmin, lmax); per start level an area object for every coarsening value 0..lmax-lmin; two passes over the scheme on
    the same area (the second pass sees the dictionary the first one left behind)."""
    import numpy as np
    import io
    import contextlib
    from sparseSpACE.spatiallyAdaptiveExtendSplit import SpatiallyAdaptiveExtendScheme
    from sparseSpACE.RefinementObject import RefinementObjectExtendSplit
    from sparseSpACE.GridOperation import Integration
    from sparseSpACE.Grid import TrapezoidalGrid
    from sparseSpACE.ErrorCalculator import ErrorCalculator
    from sparseSpACE import Function as F
    dim = case['dim']
    a = np.zeros(dim)
    b = np.ones(dim)

    class NoRun(SpatiallyAdaptiveExtendScheme):
        def continue_adaptive_refinement(self, *args, **kw):   # initialisation only: no evaluation
            return None

    class Zero(ErrorCalculator):
        def calc_error(self, f, norm, volume_weights=None):
            return 0.0

    grid = TrapezoidalGrid(a=a, b=b, boundary=True)
    op = Integration(f=F.ConstantValue(1.0), grid=grid, dim=dim, reference_solution=None)
    s = NoRun(a, b, number_of_refinements_before_extend=1, version=case['version'], operation=op)
    out = []
    for lmin, lmax in case['configs']:
        with contextlib.redirect_stdout(io.StringIO()):
            s.performSpatiallyAdaptiv(lmin, lmax, Zero(), tol=-1, max_evaluations=1, do_plot=False, print_output=False)
        scheme = [([int(x) for x in cg.levelvector], _fr(cg.coefficient)) for cg in s.scheme]
        for c in range(0, lmax - lmin + 1):
            area = RefinementObjectExtendSplit(start=a, end=b, grid=s.grid, number_of_refinements_before_extend=1,
                                               coarseningValue=c)
            passes = []
            for _ in range(2):
                rows = []
                for cg in s.scheme:
                    lc, dc = s.coarsen_grid(cg.levelvector, area)
                    rows.append([[int(x) for x in cg.levelvector], [int(x) for x in lc], int(bool(dc))])
                passes.append(rows)
            out.append(dict(lmin=lmin, lmax=lmax, c=c, scheme=scheme, passes=passes))
    return out


# ------------------------------------------------------------------------------------------------ canonical forms
def _q(v):
    return sx.q(v)


def _ql(v):
    return [sx.q(x) for x in v]


def canon_impl(st):
    return dict(
        lmax=st['lmax'][0],
        leaves=sorted([s, e, c, n, p] for s, e, c, n, p in st['leaves']),
        scheme=sorted([l, c] for l, c in st['scheme']),
        coarse=sorted(st['coarse']),
        assign=sorted(st['assign']),
        tree_leaves=sorted(st['tree_leaves']),
        compute=sorted([list(b[0]), list(b[1]), l, lc, int(dc)] for b, l, lc, dc in st['compute']),
        refined=sorted([list(b[0]), list(b[1]), ext, dims] for b, ext, dims in st['refined']),
        interp={tuple(p): v for p, v in st.get('interp', [])})


def canon_model(o):
    lmax, leaves, scheme, coarse, assign, tl, compute, log, assert_ok = o[:9]
    res = lambda rows: sorted([_ql(s), _ql(e), l, lc, dc] for s, e, l, lc, dc in rows)
    return dict(
        lmax=lmax,
        leaves=sorted([_ql(s), _ql(e), c, n, p] for s, e, c, n, p in leaves),
        scheme=sorted([l, Fraction(c)] for l, c in scheme),
        coarse=res(coarse),
        assign=sorted([_ql(p), _ql(s), _ql(e)] for p, s, e in assign),
        tree_leaves=sorted([_ql(s), _ql(e)] for s, e in tl),
        compute=res(compute),
        refined=sorted([_ql(s), _ql(e), ext, dims] for s, e, ext, dims in log),
        assert_ok=assert_ok,
        interp=({tuple(_ql(p)): _q(v) for p, v in o[9]} if len(o) > 9 else None))


OBS = ['lmax', 'leaves', 'scheme', 'coarse', 'assign', 'tree_leaves', 'compute', 'refined']


def segments(r):
    """[(first state index, last+1)] : a new segment starts at every (re-)initialisation"""
    starts = [i for i, inp in enumerate(r['inputs']) if inp['kind'] == 'init']
    return list(zip(starts, starts[1:] + [len(r['inputs'])]))


def model_inputs(case, r, variant=0):
    """one model run (entry sub 3) per segment.
    variant 0: coarsen_grid versions 1,2 as in the pinned code (minimum level 1 hard-coded in the diagonal arithmetic);
    variant 1: the repair fixes/C07-coarsen-lmin.patch (uses lmin).  Identical for lmin = 1."""
    enc_bens = lambda bens: [[list(b[0]), list(b[1]), k] for b, k in bens]
    poly = [[Fraction(x) for x in case['poly'][0]], [Fraction(x) for x in case['poly'][1]]] if case['fn'] == 3 else [[], []]
    out = []
    for lo, hi in segments(r):
        i0 = r['inputs'][lo]
        cfg = [case['dim'], case['version'], case['nrbe'], int(case['auto']), int(case['single']), i0['lmin'], i0['lmax'],
               [Fraction(x) for x in case['a']], [Fraction(x) for x in case['b']], variant]
        steps = [[[([list(x[0][0]), list(x[0][1]), x[1], x[2]] + list(x[3:5])) for x in i['decs']], enc_bens(i['bens']), i['pts'],
                  1 if i['kind'] == 'restart' else 0] for i in r['inputs'][lo + 1:hi]]
        out.append([cfg, poly, enc_bens(i0['bens']), i0['pts'], steps])
    return out


def model_ok(m):
    return m is not None and not sx.is_err(m) and not isinstance(m, tuple)


# ------------------------------------------------------------------------------------------------ oracle
def _inside(p, s, e, strict=False):
    if strict:
        return all(s[d] < p[d] < e[d] for d in range(len(p)))
    return all(s[d] <= p[d] <= e[d] for d in range(len(p)))


def combi_defect(dim, grids):
    """grids: [(coarse level vector, coefficient)] of the computed component grids of one area.  Returns None or a
    level vector k >= 0 below some computed grid whose dominating coefficient sum is not 1 (= an area grid point
    where the coefficients do not sum to 1)."""
    if not grids:
        return ('no component grid is computed on the area', None)
    for g, c in grids:
        if len(g) != dim or min(g) < 0:
            return ('negative or wrong-length coarsened level vector', g)
    hi = [max(g[d] for g, c in grids) for d in range(dim)]
    for k in itertools.product(*[range(h + 1) for h in hi]):
        dom = [c for g, c in grids if all(g[d] >= k[d] for d in range(dim))]
        if dom and sum(dom) != 1:
            return ('coefficients of the computed grids containing the points of level %s sum to %s' % (list(k), sum(dom)), list(k))
    return None


def area_grids(rows):
    """rows [(s, e, levelvec, coarse, do_compute)] + scheme coefficients -> {box: [(coarse, coeff)]}"""
    out = {}
    for s, e, l, lc, dc, c in rows:
        out.setdefault((tuple(s), tuple(e)), [])
        if dc:
            out[(tuple(s), tuple(e))].append((tuple(lc), c))
    return out


def oracle_state(case, st):
    """The property's own predicate on one implementation state. Returns None or (kind, description)."""
    dim = case['dim']
    a = [Fraction(x) for x in case['a']]
    b = [Fraction(x) for x in case['b']]
    leaves = st['leaves']
    vol = Fraction(0)
    for s, e, c, n, p in leaves:
        if len(s) != dim or len(e) != dim or any(s[d] >= e[d] for d in range(dim)):
            return ('box', 'leaf %s..%s is not a non-degenerate box' % (s, e))
        if any(s[d] < a[d] or e[d] > b[d] for d in range(dim)):
            return ('outside', 'leaf %s..%s sticks out of the domain' % (s, e))
        if c < 0:
            return ('coarsening-negative', 'leaf %s..%s has coarsening value %d' % (s, e, c))
        v = Fraction(1)
        for d in range(dim):
            v *= e[d] - s[d]
        vol += v
    if len(leaves) <= 300:
        for i in range(len(leaves)):
            for j in range(i + 1, len(leaves)):
                s1, e1, s2, e2 = leaves[i][0], leaves[i][1], leaves[j][0], leaves[j][1]
                if all(max(s1[d], s2[d]) < min(e1[d], e2[d]) for d in range(dim)):
                    return ('overlap', 'leaves %s..%s and %s..%s overlap' % (s1, e1, s2, e2))
    dv = Fraction(1)
    for d in range(dim):
        dv *= b[d] - a[d]
    if vol != dv:
        return ('volume', 'leaf volumes sum to %s, domain volume is %s (a part of the domain is not covered)' % (vol, dv))
    if sorted([s, e] for s, e, c, n, p in leaves) != st['tree_leaves']:
        return ('tree-container', 'the leaves of the refinement tree differ from the areas in the container')
    # point assignment
    got = {}
    for p, s, e in st['assign']:
        got.setdefault(tuple(p), []).append((s, e))
    boxes = set((tuple(s), tuple(e)) for s, e, c, n, p in leaves)
    for p in st['pts']:
        p = tuple(p)
        if _inside(p, a, b):
            if len(got.get(p, [])) != 1:
                return ('assignment', 'evaluation point %s is assigned to %d leaves' % (list(p), len(got.get(p, []))))
            s, e = got[p][0]
            if not _inside(p, s, e) or (tuple(s), tuple(e)) not in boxes:
                return ('assignment', 'evaluation point %s is assigned to %s..%s which does not contain it / is no leaf' % (list(p), s, e))
    # local combination
    coeff = {tuple(l): c for l, c in st['scheme']}
    for name in ('coarse', 'compute'):
        rows = st[name] if name == 'coarse' else [[list(bx[0]), list(bx[1]), l, lc, dc] for bx, l, lc, dc in st['compute']]
        try:
            rows = [(s, e, l, lc, dc, coeff[tuple(l)]) for s, e, l, lc, dc in rows]
        except KeyError:
            continue   # compute trace of a step with an lmax change refers to the scheme at that time; checked via coarse
        for bx, grids in area_grids(rows).items():
            d = combi_defect(dim, grids)
            if d:
                return ('local-combination', 'area %s..%s (%s): %s' % (list(bx[0]), list(bx[1]), name, d[0]))
    if st.get('assign_not_leaf'):
        s, e, p = st['assign_not_leaf']
        return ('assignment', 'evaluation point %s is assigned to the area object %s..%s which is not (any more) an area of the container'
                % ([str(x) for x in p], s, e))
    for key in ('alias_bad', 'reuse_bad', 'arg_mutated'):
        if st.get(key):
            return ('argument-reuse', st[key])
    if st.get('ptsum') and st['ptsum']['bad']:
        s, e, p, v = st['ptsum']['bad'][0]
        return ('local-combination', 'area %s..%s: coefficients of the computed grids sum to %s at grid point %s' % (s, e, v, p))
    if st.get('ptsum') and st['ptsum'].get('nodal_bad'):
        s, e, p, got_, want = st['ptsum']['nodal_bad'][0]
        return ('nodal-exactness', 'area %s..%s: the interpolant of the strategy is %r at the area grid point %s, the function value is %r'
                % (s, e, got_, [str(x) for x in p], want))
    return None


def first_oracle_failure(case, r):
    for k, st in enumerate(r['states']):
        why = oracle_state(case, st)
        if why:
            return k, why
    return None, None


# ------------------------------------------------------------------------------------------------ run
CORPUS = [
    # exemplar of the finding C07-coarsen-v12-lmin (fixed in /repo: versions 1,2 hard-coded minimum level 1)
    dict(dim=2, version=1, nrbe=0, auto=False, single=False, lmin=2, lmax=3, steps=1, a=['0', '0'], b=['1', '1'], fn=0, seed=3, npts=6),
    dict(dim=2, version=2, nrbe=0, auto=False, single=False, lmin=2, lmax=3, steps=1, a=['0', '0'], b=['1', '1'], fn=0, seed=3, npts=6),
    dict(dim=2, version=0, nrbe=1, auto=False, single=False, lmin=1, lmax=2, steps=4, a=['0', '0'], b=['1', '1'], fn=0, seed=11, npts=12),
    dict(dim=2, version=1, nrbe=0, auto=False, single=True, lmin=1, lmax=3, steps=4, a=['-1', '0'], b=['1', '2'], fn=2, seed=12, npts=12),
    dict(dim=3, version=2, nrbe=1, auto=False, single=False, lmin=1, lmax=2, steps=3, a=['0', '0', '0'], b=['1', '1', '1'], fn=0, seed=13, npts=6),
    dict(dim=2, version=0, nrbe=2, auto=True, single=False, lmin=1, lmax=3, steps=4, a=['0', '0'], b=['1', '1'], fn=0, seed=14, npts=12),
    dict(dim=3, version=0, nrbe=0, auto=False, single=True, lmin=1, lmax=3, steps=3, a=['0', '-1', '0'], b=['1', '1', '2'], fn=2, seed=15, npts=6),
    dict(dim=2, version=2, nrbe=3, auto=True, single=True, lmin=1, lmax=2, steps=5, a=['0', '0'], b=['2', '1'], fn=1, seed=16, npts=12),
    # exemplar of the known finding C07-v0-dim1 (version 0 in one dimension: IndexError in coarsen_grid)
    dict(dim=1, version=0, nrbe=1, auto=False, single=False, lmin=1, lmax=2, steps=1, a=['0'], b=['1'], fn=0, seed=17, npts=6),
    dict(dim=1, version=1, nrbe=1, auto=False, single=False, lmin=1, lmax=2, steps=3, a=['0'], b=['2'], fn=3, seed=18, npts=6,
         poly=[['1'], ['1/2']]),
    # exemplar of the known finding C07-single-dim1-print-indexerror (split_single_dim in one dimension)
    dict(dim=1, version=2, nrbe=3, auto=False, single=True, lmin=1, lmax=2, steps=1, a=['0'], b=['1'], fn=1, seed=27, npts=6),
    # exemplar of the known finding C07-auto-lmin-eq-lmax-raises (automatic_extend_split with lmin = lmax)
    dict(dim=2, version=0, nrbe=3, auto=True, single=True, lmin=2, lmax=2, steps=1, a=['0', '0'], b=['1', '1'], fn=1, seed=28, npts=6),
    # histories on one object: restart and re-run with other start levels, interpolation of a polynomial
    dict(dim=2, version=0, nrbe=1, auto=False, single=False, lmin=1, lmax=2, steps=5, a=['0', '0'], b=['1', '1'], fn=3, seed=19, npts=12,
         poly=[['1', '-3/2'], ['1/2', '3']], events=['step', 'step', 'restart', 'step', ['rerun', 2, 4]]),
    dict(dim=2, version=1, nrbe=0, auto=False, single=False, lmin=2, lmax=3, steps=5, a=['0', '-1'], b=['1', '1'], fn=3, seed=20, npts=12,
         poly=[['2', '1/2'], ['-1/2', '1']], events=['step', ['rerun', 1, 3], 'step', 'step', 'restart']),
    dict(dim=3, version=2, nrbe=0, auto=False, single=True, lmin=1, lmax=2, steps=4, a=['0', '0', '0'], b=['1', '1', '1'], fn=3, seed=21,
         npts=6, poly=[['1', '0', '-1'], ['1', '2', '1/2']], events=['step', 'restart', ['rerun', 1, 1], 'step']),
    # many areas (uniform refinement: 4, 16, 64, 256, 1024 areas) and > 1000 evaluation points
    dict(dim=2, version=0, nrbe=6, auto=False, single=False, lmin=1, lmax=2, steps=4, a=['0', '0'], b=['1', '1'], fn=3, seed=22, npts=12,
         poly=[['1', '1'], ['1', '1']], uniform=True, nbig=1100),
    dict(dim=2, version=1, nrbe=1, auto=False, single=False, lmin=1, lmax=2, steps=3, a=['0', '0'], b=['1', '2'], fn=0, seed=23, npts=12,
         uniform=True),
    dict(dim=4, version=0, nrbe=0, auto=False, single=False, lmin=1, lmax=2, steps=2, a=['0'] * 4, b=['1'] * 4, fn=3, seed=24, npts=6,
         poly=[['1', '0', '1/2', '-1'], ['1', '2', '1/2', '3']]),
    dict(dim=2, version=2, nrbe=0, auto=False, single=False, lmin=3, lmax=5, steps=4, a=['0', '0'], b=['1', '1'], fn=3, seed=25, npts=12,
         poly=[['1', '2'], ['1/2', '3']]),
    dict(dim=2, version=0, nrbe=0, auto=False, single=False, lmin=1, lmax=1, steps=5, a=['0', '0'], b=['1', '1'], fn=1, seed=26, npts=0),
    # ONE points object per history, used before and after restarts / re-runs at equal and unequal refinement counts
    dict(dim=2, version=0, nrbe=1, auto=False, single=False, lmin=1, lmax=3, steps=5, a=['0', '0'], b=['1', '1'], fn=3, seed=30, npts=6,
         poly=[['2', '-1'], ['1/2', '3/2']], spread=True, events=['step', 'restart', 'step', 'restart', 'step'], reuse=dict(mode='only', use=[1, 1, 0, 1, 0, 1], container='list')),
    dict(dim=2, version=1, nrbe=0, auto=False, single=False, lmin=1, lmax=2, steps=5, a=['0', '-1'], b=['1', '1'], fn=3, seed=31, npts=6,
         poly=[['1', '-3/2'], ['1/2', '3']], spread=True, events=['step', ['rerun', 1, 3], 'step', 'step', 'restart'],
         reuse=dict(mode='only', use=[1, 1, 0, 1, 1, 1], alias=True, container='tuple')),
    dict(dim=3, version=0, nrbe=1, auto=False, single=True, lmin=1, lmax=2, steps=4, a=['0', '0', '0'], b=['1', '1', '1'], fn=3, seed=32, npts=6,
         poly=[['1', '0', '-1'], ['1', '2', '1/2']], spread=True, events=['step', 'step', 'restart', 'step'],
         reuse=dict(mode='mixed', use=[1, 0, 1, 1, 1], container='list')),
    dict(dim=2, version=2, nrbe=2, auto=False, single=False, lmin=2, lmax=3, steps=4, a=['0', '0'], b=['2', '1'], fn=2, seed=33, npts=6,
         spread=True, events=['restart', ['rerun', 1, 2], 'step', 'restart'], reuse=dict(mode='only', use=[1, 0, 1, 0, 1], container='list')),
]


def compare(c, r, mr):
    """first state at which model and implementation differ: (index, [observables], canon_model, canon_impl) or None.
    mr: flat list of model observations aligned with r['states']."""
    for k, (mo, is_) in enumerate(zip(mr, r['states'])):
        cm, ci = canon_model(mo), canon_impl(is_)
        diff = [o for o in OBS if cm[o] != ci[o]]
        if not cm['assert_ok']:
            diff.append('assert num_sub_diagonal < dim')
        if cm['interp'] is not None:
            bad = [p for p, v in ci['interp'].items()
                   if p not in cm['interp'] or not abs(float(v) - float(cm['interp'][p])) <= TOL * (1 + abs(float(cm['interp'][p])))]
            if bad:
                diff.append('interp')
                cm['interp_bad'] = [([str(x) for x in p], float(ci['interp'][p]), (float(cm['interp'][p]) if p in cm['interp'] else None))
                                    for p in bad[:3]]
        if diff:
            return k, diff, cm, ci
    if len(mr) != len(r['states']):
        return min(len(mr), len(r['states'])), ['number of states'], {}, {}
    return None


def sig_of(c, **kw):
    return dict(version=c['version'], auto=c['auto'], single=c['single'], lmin_gt1=c['lmin'] > 1, dim1=c['dim'] == 1, **kw)


def span0_at(c, step):
    """lmin == lmax for the start levels in force at event number `step`"""
    lmin, lmax = c['lmin'], c['lmax']
    for e in events_of(c)[:max(0, step)]:
        if isinstance(e, list):
            lmin, lmax = e[1], e[2]
    return lmin == lmax


def twin_jobs(case, r):
    """one twin-bookkeeping model run (entry sub 6) per segment: (job, observed split dims in order, final twin errors)"""
    out = []
    for lo, hi in segments(r):
        evs = [ev for i in r['inputs'][lo:hi] for ev in i.get('twin', [])]
        seen = [[list(x[0][0]), list(x[0][1]), list(x[2])] for i in r['inputs'][lo:hi] for x in i['decs'] if not x[1]]
        job = (6, [case['dim'], [Fraction(x) for x in case['a']], [Fraction(x) for x in case['b']], evs])
        out.append((job, seen, r['states'][hi - 1].get('twin_errors'), hi - 1))
    return out


def check_twins(chk, cases, impl, idx):
    """split_single_dim: the split dimensions as a FUNCTION of the twin errors (Model/ESAuto.v) and the twin-error table"""
    jobs, meta = [], []
    for i in idx:
        if cases[i]['single'] and cases[i]['dim'] >= 2:
            for job, seen, table, last in twin_jobs(cases[i], impl[i][1]):
                jobs.append(job)
                meta.append((i, seen, table, last))
    res = run_model(7, jobs)
    for (i, seen, table, last), m in zip(meta, res):
        c = cases[i]
        chk.count('twin-bookkeeping:segments')
        if not model_ok(m):
            chk.violation('corr:C07/twins', 'model-rejects', sig_of(c), c, dict(model=str(m)[:300]), failing_input=False)
            continue
        mlog = [[_ql(s_), _ql(e_), list(d_)] for s_, e_, d_ in m[0]]
        mtab = sorted([_ql(s_), _ql(e_), [(None if t == [] else _q(t[0])) for t in te]] for s_, e_, te in m[1])
        chk.count('twin-bookkeeping:splits', len(seen))
        if mlog != seen:
            k = next((j for j, (x, y) in enumerate(zip(mlog, seen)) if x != y), min(len(mlog), len(seen)))
            chk.violation('corr:C07/split-dims', 'history-differs', sig_of(c, observable='split-dims'), dict(c, steps=last),
                          dict(split_number=k, model=str(mlog[k:k + 1]), impl=str(seen[k:k + 1]),
                               note='get_split_dims: dimensions with twinErrors[d] >= 0.9 * max(twinErrors)'), failing_input=False)
        elif table is not None and mtab != table:
            bad = [(x, y) for x, y in zip(mtab, table) if x != y][:2]
            chk.violation('corr:C07/twin-errors', 'history-differs', sig_of(c, observable='twin-errors'), dict(c, steps=last),
                          dict(model_vs_impl=str(bad)[:600], sizes=(len(mtab), len(table))), failing_input=False)


def run_models(cases, impl, idx, variant):
    """model runs for the cases idx; returns {i: flat list of observations | error}"""
    jobs, owner = [], []
    for i in idx:
        for seg in model_inputs(cases[i], impl[i][1], variant):
            jobs.append((3, seg))
            owner.append(i)
    res = run_model(7, jobs)
    out = {}
    for i, m in zip(owner, res):
        if i in out and not isinstance(out[i], list):
            continue
        if not model_ok(m):
            out[i] = ('model-error', str(m)[:300])
        else:
            out.setdefault(i, []).extend(m)
    return out


def uses_repaired_levels(c):
    lm = [c['lmin']] + [e[1] for e in events_of(c) if isinstance(e, list)]
    return c['version'] in (1, 2) and any(x != 1 for x in lm)


def check_cases(chk, cases):
    impl = run_impl(impl_run, cases, limit=240)
    midx = [i for i, (st, r) in enumerate(impl) if st == 'ok' and r['states']]
    mres = run_models(cases, impl, midx, 0)
    # cases on which the pinned-code variant differs are re-run against the repaired variant (only differs for lmin != 1)
    check_twins(chk, cases, impl, midx)
    retry = [i for i in midx if uses_repaired_levels(cases[i]) and isinstance(mres[i], list) and compare(cases[i], impl[i][1], mres[i])]
    mres1 = run_models(cases, impl, retry, 1)
    keys, samples = [], []
    checker_in = {}
    for i, c in enumerate(cases):
        st, r = impl[i]
        chk.count('dim=%d' % c['dim']); chk.count('version=%d' % c['version']); chk.count('nrbe=%d' % c['nrbe'])
        chk.count('auto=%s' % c['auto']); chk.count('single=%s' % c['single']); chk.count('lmin=%d' % c['lmin'])
        chk.count('span=%d' % (c['lmax'] - c['lmin'])); chk.count('fn=%d' % c['fn'])
        chk.count('auto/single=%s/%s' % (c['auto'], c['single']))
        if c['auto']:
            chk.count('automatic decision numbers=%s' % ('scripted' if c.get('auto_scripted') else 'real error estimator'))
        for e in events_of(c):
            chk.count('event=%s' % (e if isinstance(e, str) else 'rerun'))
        if c.get('uniform'):
            chk.count('uniform-refinement')
        chk.count('points-argument=%s' % ((c['reuse']['mode'] + '/' + c['reuse'].get('container', 'list')) if c.get('reuse') else 'fresh lists'))
        if c.get('reuse', {}).get('alias'):
            chk.count('returned-lists-emptied-and-asked-again')
        if c.get('spread'):
            chk.count('spread-benefits(one refinement per round)')
        if c.get('nbig'):
            chk.count('points>=%d' % c['nbig'])
        if c['npts'] == 0 and not c.get('nbig'):
            chk.count('points=empty-list')
        if st != 'ok':
            chk.violation('corr:C07/history', 'impl-exception', sig_of(c, exc=(r[0] if r else st)), c,
                          dict(impl=str(r)), failing_input=True)
            continue
        if r['abort']:
            ab = r['abort']
            if c['auto'] and ab[0] == 'AssertionError' and ab[5] and not span0_at(c, ab[3]):
                chk.count('aborted-by-assert-in-automatic-error-estimator')     # not a C07 observable
            else:
                chk.count('exception:%s in %s' % (ab[0], ab[4]))
                chk.violation('corr:C07/history', 'impl-exception',
                              sig_of(c, exc=ab[0], func=ab[4], in_auto_estimator=bool(ab[5]), span0=span0_at(c, ab[3])),
                              dict(c, steps=min(c['steps'], ab[3])), dict(impl=str(ab)), failing_input=True)
            if not r['states']:
                continue
        chk.traces += 1
        chk.count('events-run=%d' % (len(r['states']) - 1))
        chk.count('max-leaves<=%d' % next(b for b in (8, 16, 32, 64, 128, 256, 1024, 10 ** 9) if max(len(s_['leaves']) for s_ in r['states']) <= b))
        chk.count('lmax-increases=%d' % sum(1 for a_, b_ in zip(r['states'], r['states'][1:])
                                           if b_['kind'] == 'step' and b_['lmax'][0] > a_['lmax'][0]))
        chk.count('max-coarsening=%d' % max(l[2] for s_ in r['states'] for l in s_['leaves']))
        chk.count('interp-values', sum(len(s_.get('interp', [])) for s_ in r['states']))
        used = [k for k, s_ in enumerate(r['states']) if s_.get('reused')]
        for i_, j_ in zip(used, used[1:]):
            if any(r['states'][m_]['kind'] in ('restart', 'init') for m_ in range(i_ + 1, j_ + 1)):
                same_tree = r['states'][i_]['tree_leaves'] == r['states'][j_]['tree_leaves']
                chk.count('same-points-object-across-restart:%s-refinement-count,%s' % (
                    'equal' if r['states'][i_].get('nref') == r['states'][j_].get('nref') else 'unequal',
                    'same leaves' if same_tree else 'other leaves'))
        chk.count('nodal-points-checked', sum((s_['ptsum'] or {}).get('nodal_n', 0) for s_ in r['states']))
        mr = mres.get(i)
        ok = True
        if not isinstance(mr, list):
            chk.violation('corr:C07/history', 'model-rejects', sig_of(c), c, dict(model=str(mr)[:300]), failing_input=False)
            ok = False
        else:
            d = compare(c, r, mr)
            if d and isinstance(mres1.get(i), list) and not compare(c, r, mres1[i]):
                chk.count('implementation-follows-repaired-coarsen_grid')
                d = None
            if d:
                k, diff, cm, ci = d
                fk, why = first_oracle_failure(c, r)
                fc = dict(c, steps=(fk if why else k))
                o = diff[0]
                det = dict(step=k, differs=diff, property_predicate=why and why[1])
                if o == 'interp':
                    det.update(points_impl_model=str(cm.get('interp_bad')))
                elif o in cm and isinstance(cm[o], list):
                    det.update(model_only=str([x for x in cm[o] if x not in ci[o]][:4])[:900],
                               impl_only=str([x for x in ci[o] if x not in cm[o]][:4])[:900])
                elif o in cm:
                    det.update(model=str(cm[o]), impl=str(ci[o]))
                # a differing interpolant at points of the domain is itself a concrete failing input when the point is an area grid point
                chk.violation('corr:C07/' + o, 'history-differs', sig_of(c, observable=o), fc, det, failing_input=bool(why))
                ok = False
        # the oracle runs on every implementation state, independent of the model
        fk, why = first_oracle_failure(c, r)
        if why and ok:
            chk.violation('oracle:' + why[0], 'property-predicate', sig_of(c, predicate=why[0]), dict(c, steps=fk),
                          dict(step=fk, why=why[1]), failing_input=True)
        # verified checker input: every explored (area, scheme) pair of the implementation
        for k, is_ in enumerate(r['states']):
            coeff = {tuple(l): cf for l, cf in is_['scheme']}
            rows = [(s, e, l, lc, dc, coeff[tuple(l)]) for s, e, l, lc, dc in is_['coarse']]
            for bx, grids in area_grids(rows).items():
                key = (c['dim'], tuple(sorted((g, int(cf)) for g, cf in grids)))
                if key not in checker_in or (k, c['steps']) < checker_in[key][3]:
                    checker_in[key] = (dict(c, steps=k), bx, is_['lmax'], (k, c['steps']))
                chk.count('checker:area-scheme-pairs')
        nref = sum(len(s_['refined']) for s_ in r['states'])
        next_ = sum(1 for s_ in r['states'] for x in s_['refined'] if x[1])
        if nref >= 2 and 0 < next_ < nref:
            keys.append(case_key(c))
            if len(samples) < 3:
                samples.append(dict(case=c, refinements=nref, extends=next_, final_lmax=r['states'][-1]['lmax'][0],
                                    final_leaves=len(r['states'][-1]['leaves'])))
    # verified checker valid_local_combi (extracted) on the distinct local combinations seen on the implementation
    ck = list(checker_in.items())
    cres = run_model(7, [(1, [k[0], [[list(g), cf] for g, cf in k[1]]]) for k, _ in ck])
    for (k, (c, bx, lmax, _)), res in zip(ck, cres):
        chk.count('checker:distinct-local-combinations')
        if res != 1:
            d = combi_defect(k[0], [(g, cf) for g, cf in k[1]])
            chk.violation('checker:valid_local_combi', 'property-predicate', sig_of(c, predicate='local-combination'), c,
                          dict(area=str(bx), lmax=lmax, grids=str(k[1])[:600], checker=str(res), python_predicate=str(d)),
                          failing_input=bool(d))
    return keys, samples


# ------------------------------------------------------------------------------------------------ sweep of coarsen_grid
def gen_sweeps(rng):
    """all (dim, version) in 2..5 x 0..2; per object a shuffled sequence of start levels"""
    out = []
    for dim in (2, 3, 4, 5):
        spans = {2: range(0, 7), 3: range(0, 7), 4: range(0, 5), 5: range(0, 4)}[dim]
        for version in (0, 1, 2, 3):
            # version 3: its assert hard-codes minimum level 1 and fails for lmin = 0 (AssertionError on the unchanged tree): excluded
            cfgs = [(lmin, lmin + sp) for lmin in (0, 1, 2, 3) for sp in spans if not ((dim >= 4 or version == 3) and lmin == 0)]
            rng.shuffle(cfgs)
            for part in (cfgs[0::2], cfgs[1::2]):
                out.append(dict(kind='sweep', dim=dim, version=version, configs=[list(x) for x in part]))
    return out


def check_sweeps(chk, sweeps):
    impl = run_impl(sweep_run, sweeps, limit=240)
    jobs, owner = [], []
    for si, (c, (st, r)) in enumerate(zip(sweeps, impl)):
        if st != 'ok':
            chk.violation('corr:C07/sweep', 'impl-exception', dict(version=c['version'], dim1=False, exc=(r[0] if r else st)), c,
                          dict(impl=str(r)), failing_input=True)
            continue
        for ri, row in enumerate(r):
            if c['version'] == 3:
                jobs.append((5, [c['dim'], row['lmin'], row['lmax'], row['c']]))
                owner.append((si, ri, 0))
                continue
            for variant in ((0, 1) if (c['version'] in (1, 2) and row['lmin'] != 1) else (0,)):
                jobs.append((4, [c['dim'], c['version'], row['lmin'], row['lmax'], row['c'], variant]))
                owner.append((si, ri, variant))
    res = run_model(7, jobs)
    # version 3 (entry sub 5): (rows, valid_local_combi, assert ok) -> same shape as sub 4 (the dictionary is not used: both passes equal)
    res = [([m[0], m[0], (1 if (m[1] == 1 and m[2] == 1) else 0)] if (j[0] == 5 and model_ok(m)) else m) for j, m in zip(jobs, res)]
    byrow = {}
    for (si, ri, variant), m in zip(owner, res):
        byrow.setdefault((si, ri), {})[variant] = m
    n = 0
    keys = []
    for (si, ri), ms in sorted(byrow.items()):
        c, row = sweeps[si], impl[si][1][ri]
        one = dict(kind='sweep', dim=c['dim'], version=c['version'], configs=[[row['lmin'], row['lmax']]], only_c=row['c'])
        n += 1
        chk.count('sweep:dim=%d' % c['dim']); chk.count('sweep:version=%d' % c['version'])
        chk.count('sweep:lmin=%d' % row['lmin']); chk.count('sweep:span=%d' % (row['lmax'] - row['lmin'])); chk.count('sweep:c=%d' % row['c'])
        if row['c'] >= 1 and row['lmax'] - row['lmin'] >= 2:
            keys.append(('sweep', c['dim'], c['version'], row['lmin'], row['lmax'], row['c']))
        ip = [sorted(p) for p in row['passes']]
        agree = False
        detail = None
        for variant, m in sorted(ms.items(), reverse=True):
            if not model_ok(m):
                detail = dict(model=str(m)[:300])
                continue
            if sorted(m[0]) == ip[0] and sorted(m[1]) == ip[1] and m[2] == 1:
                agree = True
                if variant == 1:
                    chk.count('sweep:implementation-follows-repaired-coarsen_grid')
                break
            which = 0 if sorted(m[0]) != ip[0] else 1
            detail = dict(lmin=row['lmin'], lmax=row['lmax'], coarsening=row['c'], pass_=which + 1, model_assert_ok=m[2],
                          model_only=str([x for x in sorted(m[which]) if x not in ip[which]][:4]),
                          impl_only=str([x for x in ip[which] if x not in sorted(m[which])][:4]))
        # the oracle on the implementation alone: both passes give a valid local combination
        coeff = {tuple(l): cf for l, cf in row['scheme']}
        why = None
        for pi, p in enumerate(row['passes']):
            d = combi_defect(c['dim'], [(tuple(lc), coeff[tuple(l)]) for l, lc, dc in p if dc])
            if d:
                why = 'lmin=%d lmax=%d coarsening=%d pass %d: %s' % (row['lmin'], row['lmax'], row['c'], pi + 1, d[0])
                break
        if not why and row['passes'][0] != row['passes'][1]:
            why = 'lmin=%d lmax=%d coarsening=%d: the second pass of coarsen_grid over the scheme on the same area answers differently' % (
                row['lmin'], row['lmax'], row['c'])
        sg = dict(version=c['version'], auto=False, single=False, lmin_gt1=row['lmin'] > 1, dim1=False)
        if not agree:
            chk.violation('corr:C07/sweep-coarsen_grid', 'sweep-differs', dict(sg, observable='coarsen_grid'), one,
                          dict(detail or {}, property_predicate=why), failing_input=bool(why))
        elif why:
            chk.violation('oracle:local-combination', 'property-predicate', dict(sg, predicate='local-combination'), one,
                          dict(why=why), failing_input=True)
    return n, keys


def run(chk):
    gen_info = _c07_gen.regenerate(chk)
    chk.coq_obligations(extra_props=_c07_gen.EXTRA_PROPS)
    gen_problem = _c07_gen.diagnose(chk, gen_info)
    n = chk.n(250, 4000)
    cases = CORPUS + [gen_case(chk.rng, chk.tier, i) for i in range(n)]
    keys, samples = check_cases(chk, cases)
    chk.record_cases(len(cases), keys,
                     'random extend-split histories on ONE real SpatiallyAdaptiveExtendScheme object (d 1..4, versions 0..3, '
                     'number_of_refinements_before_extend 0..3 and 6, automatic_extend_split on/off, split_single_dim on/off, '
                     'lmin 1..3, lmax-lmin 0..3, 2..5 events: refine() rounds, restarts with the old refinement container, '
                     're-runs with other start levels; scripted benefits; coarsen_grid, point assignment and interpolation '
                     'between the events); non-trivial = at least two areas refined and both an extend and a split occurred; '
                     'distinct by configuration+seed', samples)
    sweeps = gen_sweeps(chk.rng)
    ns, skeys = check_sweeps(chk, sweeps)
    chk.record_cases(ns, skeys,
                     'exhaustive sweep of coarsen_grid on fresh areas: d 2..5, versions 0..3 (3: lmin 1..3), lmin 0..3, lmax-lmin 0..6 (d<=3), '
                     '0..4 (d=4), 0..3 (d=5), every coarsening value 0..lmax-lmin, two passes per area; one strategy object per '
                     '(d, version, half of the start levels) re-initialised for every start level; non-trivial = coarsening >= 1 '
                     'and lmax-lmin >= 2', [dict(sweep=s_) for s_ in sweeps[:1]])
    _c07_gen.finish(chk, gen_info, gen_problem)


def replay(chk, rep):
    c = rep['case']
    if c.get('kind') == 'sweep':
        st, r = run_impl(sweep_run, [c])[0]
        if st != 'ok':
            print('impl:', st, r)
            return 1
        rc = 0
        for row in r:
            if 'only_c' in c and row['c'] != c['only_c']:
                continue
            coeff = {tuple(l): cf for l, cf in row['scheme']}
            if c['version'] == 3:
                ms = [([m[0], m[0], m[2]] if model_ok(m) else m) for m in run_model(7, [(5, [c['dim'], row['lmin'], row['lmax'], row['c']])])]
            else:
                ms = run_model(7, [(4, [c['dim'], c['version'], row['lmin'], row['lmax'], row['c'], v]) for v in (1, 0)])
            ip = [sorted(p) for p in row['passes']]
            agree = any(model_ok(m) and sorted(m[0]) == ip[0] and sorted(m[1]) == ip[1] for m in ms)
            d = None
            for p in row['passes']:
                d = d or combi_defect(c['dim'], [(tuple(lc), coeff[tuple(l)]) for l, lc, dc in p if dc])
            print('lmin=%d lmax=%d coarsening=%d: %s | property predicate: %s' % (
                row['lmin'], row['lmax'], row['c'], 'model agrees' if agree else 'MODEL DIFFERS', d[0] if d else 'holds'))
            print('  computed grids (impl):', [(lc, str(coeff[tuple(l)])) for l, lc, dc in row['passes'][0] if dc])
            if d or not agree:
                rc = 1
        return rc
    st, r = run_impl(impl_run, [c])[0]
    if st != 'ok':
        print('impl:', st, r)
        return 1
    print('impl: %d states, abort=%s' % (len(r['states']), r['abort']))
    if not r['states']:
        return 1
    mr = run_models([c], [(st, r)], [0], 0)[0]
    if uses_repaired_levels(c) and isinstance(mr, list) and compare(c, r, mr):
        m1 = run_models([c], [(st, r)], [0], 1)[0]
        if isinstance(m1, list) and not compare(c, r, m1):
            print('implementation follows the repaired coarsen_grid (fixes/C07-coarsen-lmin.patch)')
            mr = m1
    rc = 0
    for k, is_ in enumerate(r['states']):
        ci = canon_impl(is_)
        line = 'state %d (%s): lmax=%s leaves=%d refined=%s' % (k, is_['kind'], ci['lmax'], len(ci['leaves']), ci['refined'])
        if isinstance(mr, list) and k < len(mr):
            d = compare(c, dict(states=[is_]), [mr[k]])
            line += ' | model agrees' if not d else ' | MODEL DIFFERS in %s' % d[1]
            if d:
                rc = 1
        why = oracle_state(c, is_)
        line += ' | property predicate: ' + (why[1] if why else 'holds')
        print(line)
        if why:
            rc = 1
    if r['abort'] and not (c['auto'] and r['abort'][0] == 'AssertionError' and r['abort'][5] and not span0_at(c, r['abort'][3])):
        print('implementation raised:', r['abort'])
        rc = 1
    return rc
