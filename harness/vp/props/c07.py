"""C07: extend-split areas tile the domain and each carries a valid local combination.

Correspondence: the real SpatiallyAdaptiveExtendScheme, driven step-wise with a scripted ErrorCalculator, against the
extracted Gallina model (coq/Model/ExtendSplit.v).  Oracle: the property's own predicate on the implementation alone."""
import itertools
import random
import zlib
from fractions import Fraction
from .. import sx
from ..impl import run_impl
from ..model import run_model

ASSUMPTIONS = [
    'boxes over exact rationals (Qc); all generated domains/points are dyadic, so the float midpoints of the code are exact',
    'automatic_extend_split: the extend/split decision bit of every refined area is an INPUT of the model step, read off '
    'the implementation trace (it is decided by float error estimates of the real integrand); likewise the list of split '
    'dimensions for split_single_dim (decided by float twin errors); the theorems hold for every value of these inputs',
    'scripted ErrorCalculator: benefit of an area = k/8 (k in 0..8, function of seed, step and box), so the selection '
    'benefit >= benefit_max*0.9 is decided identically in binary64 and in exact arithmetic (margin modelled as 9/10)',
    'twin bookkeeping and the error-estimate arithmetic of automatic_extend_split are not modelled (only their calls of '
    'coarsen_grid on dead parent areas, which do not touch the leaves)',
    'coarsening version 3 (undocumented) is outside the property and not modelled',
]

DOMAINS = [(0, 1), (0, 1), (-1, 1), (0, 2), (Fraction(1, 2), Fraction(3, 2)), (-2, 1), (Fraction(-1, 4), Fraction(3, 4)), (1, 4)]


# ------------------------------------------------------------------------------------------------ generator
def gen_case(rng, tier, i):
    dim = rng.choice([2, 2, 3])
    version = rng.choice([0, 1, 2])
    nrbe = rng.choice([0, 1, 2, 3])
    auto = rng.random() < 0.4
    single = rng.random() < 0.4
    lmin = rng.choice([1, 1, 2])
    span = rng.choice([1, 1, 2]) if dim == 2 else rng.choice([1, 1, 2])
    if dim == 3 and lmin == 2:
        span = 1
    steps = rng.randrange(2, 6 if dim == 2 else 5)
    dom = [rng.choice(DOMAINS) for _ in range(dim)]
    return dict(dim=dim, version=version, nrbe=nrbe, auto=auto, single=single, lmin=lmin, lmax=lmin + span,
                steps=steps, a=[str(Fraction(d[0])) for d in dom], b=[str(Fraction(d[1])) for d in dom],
                fn=rng.randrange(3), seed=rng.randrange(1 << 30), npts=rng.choice([6, 12]))


def case_key(c):
    return (c['dim'], c['version'], c['nrbe'], c['auto'], c['single'], c['lmin'], c['lmax'], c['steps'], tuple(c['a']),
            tuple(c['b']), c['fn'], c['seed'])


# ------------------------------------------------------------------------------------------------ implementation
def _fr(x):
    return sx.rat(x)


def _box(o):
    return (tuple(_fr(x) for x in o.start), tuple(_fr(x) for x in o.end))


def scripted_benefit(seed, step, box):
    """k/8, k in 0..8, as a function of (seed, step, box) only - independent of container order."""
    h = zlib.crc32(repr((seed, step, [str(x) for x in box[0]], [str(x) for x in box[1]])).encode())
    return (h >> 3) % 9


def _make_function(case):
    from sparseSpACE import Function as F
    dim = case['dim']
    a = [float(Fraction(x)) for x in case['a']]
    b = [float(Fraction(x)) for x in case['b']]
    mid = [(x + y) / 2 for x, y in zip(a, b)]
    k = case['fn']
    if k == 0:
        return F.GenzGaussian(tuple(m + 0.21 * (y - x) for m, x, y in zip(mid, a, b)), tuple([4.0] * dim))
    if k == 1:
        return F.GenzC0([2.0 + d for d in range(dim)], [m + 0.13 * (y - x) for m, x, y in zip(mid, a, b)])
    return F.GenzProductPeak([3.0] * dim, [m - 0.3 * (y - x) for m, x, y in zip(mid, a, b)])


def _tree_paths(root):
    """id(obj) -> path in the refinement tree hanging off root_cell"""
    paths = {}
    stack = [(root, ())]
    while stack:
        node, p = stack.pop()
        paths[id(node)] = p
        for i, ch in enumerate(node.children):
            stack.append((ch, p + (i,)))
    return paths


def _tree_leaves(root):
    out = []
    stack = [root]
    while stack:
        node = stack.pop()
        if node.children:
            stack.extend(node.children)
        else:
            out.append(node)
    return out


def gen_points(rng, a, b, leaves, n):
    """random dyadic points of the domain + points on leaf faces/corners/midpoints + a few points outside"""
    dim = len(a)
    pts = []
    for _ in range(n):
        r = rng.random()
        if r < 0.45 or not leaves:
            p = tuple(a[d] + (b[d] - a[d]) * Fraction(rng.randrange(0, 65), 64) for d in range(dim))
        elif r < 0.9:
            s, e = rng.choice(leaves)
            p = tuple(rng.choice([s[d], e[d], (s[d] + e[d]) / 2, s[d] + (e[d] - s[d]) * Fraction(rng.randrange(0, 9), 8)])
                      for d in range(dim))
        else:
            p = list(a[d] + (b[d] - a[d]) * Fraction(rng.randrange(0, 9), 8) for d in range(dim))
            d = rng.randrange(dim)
            p[d] = rng.choice([a[d] - Fraction(1, 4), b[d] + Fraction(1, 8)])
            p = tuple(p)
        pts.append(p)
    return sorted(set(pts))


def impl_run(case):
    """Drives the real strategy.  Returns the per-step observables and everything the model needs as input."""
    import numpy as np
    from sparseSpACE.spatiallyAdaptiveExtendSplit import SpatiallyAdaptiveExtendScheme
    from sparseSpACE.GridOperation import Integration
    from sparseSpACE.Grid import TrapezoidalGrid
    from sparseSpACE.ErrorCalculator import ErrorCalculator

    dim = case['dim']
    aq = [Fraction(x) for x in case['a']]
    bq = [Fraction(x) for x in case['b']]
    a = np.array([float(x) for x in aq])
    b = np.array([float(x) for x in bq])
    seed = case['seed']
    rng = random.Random(seed)
    tr = dict(step=0, phase='', compute=[], refined=[], bens=[])

    class Scripted(ErrorCalculator):
        def calc_error(self, f, norm, volume_weights=None):
            box = _box(f)
            k = scripted_benefit(seed, tr['step'], box)
            tr['bens'].append((box, k))
            ev = f.evaluations
            return (k / 8.0) * ev if ev != 0 else k / 8.0

    class Observed(SpatiallyAdaptiveExtendScheme):
        def compute_solutions(self, areas, evaluation_array):
            tr['phase'] = 'compute'
            try:
                return super().compute_solutions(areas, evaluation_array)
            finally:
                tr['phase'] = ''

        def coarsen_grid(self, levelvector, area):
            res = super().coarsen_grid(levelvector, area)
            if tr['phase'] == 'compute':
                tr['compute'].append((_box(area), [int(x) for x in levelvector], [int(x) for x in res[0]], bool(res[1])))
            return res

        def do_refinement(self, area, position):
            n0 = len(self.refinement.get_objects())
            lm0 = self.lmax[0]
            res = super().do_refinement(area, position)
            new = self.refinement.get_objects()[n0:]
            pb = _box(area)
            if len(new) == 1:
                tr['refined'].append((pb, 1, []))
            else:
                dims = [d for d in range(self.dim) if any(_box(o)[0][d] != pb[0][d] or _box(o)[1][d] != pb[1][d] for o in new)]
                tr['refined'].append((pb, 0, dims))
            return res

    f = _make_function(case)
    grid = TrapezoidalGrid(a=a, b=b, boundary=True)
    op = Integration(f=f, grid=grid, dim=dim, reference_solution=None)
    s = Observed(a, b, number_of_refinements_before_extend=case['nrbe'], version=case['version'],
                 automatic_extend_split=case['auto'], split_single_dim=case['single'], operation=op)
    ec = Scripted()

    def observe(pts):
        objs = s.refinement.get_objects()
        paths = _tree_paths(s.root_cell)
        leaves = [[list(_box(o)[0]), list(_box(o)[1]), int(o.coarseningValue), int(o.needExtendScheme),
                   list(paths.get(id(o), (-1,)))] for o in objs]
        scheme = [([int(x) for x in cg.levelvector], _fr(cg.coefficient)) for cg in s.scheme]
        coarse = []
        for o in objs:
            for cg in s.scheme:
                lc, dc = s.coarsen_grid(cg.levelvector, o)
                coarse.append([list(_box(o)[0]), list(_box(o)[1]), [int(x) for x in cg.levelvector], [int(x) for x in lc], int(bool(dc))])
        fpts = [tuple(float(x) for x in p) for p in pts]
        back = dict(zip(fpts, pts))
        assign = []
        for area, cont in s.get_points_assignement_to_areas(list(fpts)):
            for p in cont:
                assign.append([list(back[tuple(p)]), list(_box(area)[0]), list(_box(area)[1])])
        tl = sorted([list(_box(o)[0]), list(_box(o)[1])] for o in _tree_leaves(s.root_cell))
        return dict(lmax=[int(x) for x in s.lmax], lmin=[int(x) for x in s.lmin], leaves=leaves, scheme=scheme, coarse=coarse,
                    assign=sorted(assign), tree_leaves=tl, pts=[list(p) for p in pts])

    def pts_now():
        leaves = [_box(o) for o in s.refinement.get_objects()]
        return gen_points(rng, aq, bq, leaves, case['npts'])

    def point_sums():
        """per leaf: coefficient sum of the computed component grids at every actual grid point (implementation grid)"""
        bad = []
        npts = 0
        for o in s.refinement.get_objects():
            acc = {}
            for cg in s.scheme:
                lc, dc = s.coarsen_grid(cg.levelvector, o)
                if not dc:
                    continue
                s.grid.setCurrentArea(o.start, o.end, lc)
                for p in s.grid.getPoints():
                    key = tuple(float(x) for x in p)
                    acc[key] = acc.get(key, 0) + _fr(cg.coefficient)
            npts += len(acc)
            for key, v in acc.items():
                if v != 1:
                    bad.append([list(_box(o)[0]), list(_box(o)[1]), [_fr(x) for x in key], v])
                    break
        return dict(npoints=npts, bad=bad[:3])

    states, inputs = [], []
    abort = None
    tr['step'] = 0
    try:
        s.performSpatiallyAdaptiv(case['lmin'], case['lmax'], ec, tol=-1, max_evaluations=1, do_plot=False, print_output=False)
        pts = pts_now()
        st = observe(pts)
        st['compute'] = sorted(tr['compute']); st['refined'] = []
        st['ptsum'] = point_sums()
        states.append(st)
        inputs.append(dict(bens=list(tr['bens']), decs=[], pts=[list(p) for p in pts]))
        for k in range(1, case['steps'] + 1):
            tr.update(step=k, compute=[], refined=[], bens=[])
            s.refine()
            s.continue_adaptive_refinement(tol=-1, max_evaluations=1)
            pts = pts_now()
            st = observe(pts)
            st['compute'] = sorted(tr['compute'])
            st['refined'] = sorted(tr['refined'])
            st['ptsum'] = point_sums() if (len(st['leaves']) <= 40) else None
            states.append(st)
            inputs.append(dict(bens=list(tr['bens']), decs=list(tr['refined']), pts=[list(p) for p in pts]))
    except Exception as e:  # the states reached so far are still compared
        import os
        import traceback
        where = ''
        for fr in reversed(traceback.extract_tb(e.__traceback__)):
            if 'sparseSpACE' in fr.filename:
                where = '%s:%d' % (os.path.basename(fr.filename), fr.lineno)
                break
        abort = (type(e).__name__, where, str(e)[:200], tr['step'])
    return dict(states=states, inputs=inputs, abort=abort)


# ------------------------------------------------------------------------------------------------ canonical forms
def _q(v):
    return sx.q(v)


def _ql(v):
    return [sx.q(x) for x in v]


def canon_impl(st):
    return dict(
        lmax=st['lmax'][0],
        leaves=sorted([s, e, c, n, p] for s, e, c, n, p in st['leaves']),
        scheme=sorted([l, c] for l, c in st['scheme']),
        coarse=sorted(st['coarse']),
        assign=sorted(st['assign']),
        tree_leaves=sorted(st['tree_leaves']),
        compute=sorted([list(b[0]), list(b[1]), l, lc, int(dc)] for b, l, lc, dc in st['compute']),
        refined=sorted([list(b[0]), list(b[1]), ext, dims] for b, ext, dims in st['refined']))


def canon_model(o):
    lmax, leaves, scheme, coarse, assign, tl, compute, log, assert_ok = o
    res = lambda rows: sorted([_ql(s), _ql(e), l, lc, dc] for s, e, l, lc, dc in rows)
    return dict(
        lmax=lmax,
        leaves=sorted([_ql(s), _ql(e), c, n, p] for s, e, c, n, p in leaves),
        scheme=sorted([l, Fraction(c)] for l, c in scheme),
        coarse=res(coarse),
        assign=sorted([_ql(p), _ql(s), _ql(e)] for p, s, e in assign),
        tree_leaves=sorted([_ql(s), _ql(e)] for s, e in tl),
        compute=res(compute),
        refined=sorted([_ql(s), _ql(e), ext, dims] for s, e, ext, dims in log),
        assert_ok=assert_ok)


OBS = ['lmax', 'leaves', 'scheme', 'coarse', 'assign', 'tree_leaves', 'compute', 'refined']


def model_input(case, r, variant=0):
    """variant 0: coarsen_grid versions 1,2 as in the pinned code (minimum level 1 hard-coded in the diagonal arithmetic);
    variant 1: the proposed repair fixes/C07-coarsen-lmin.patch (uses lmin).  Identical for lmin = 1."""
    cfg = [case['dim'], case['version'], case['nrbe'], int(case['auto']), int(case['single']), case['lmin'], case['lmax'],
           [Fraction(x) for x in case['a']], [Fraction(x) for x in case['b']], variant]
    enc_bens = lambda bens: [[list(b[0]), list(b[1]), k] for b, k in bens]
    i0 = r['inputs'][0]
    steps = [[[[list(b[0]), list(b[1]), ext, dims] for b, ext, dims in i['decs']], enc_bens(i['bens']), i['pts']]
             for i in r['inputs'][1:]]
    return [cfg, enc_bens(i0['bens']), i0['pts'], steps]


# ------------------------------------------------------------------------------------------------ oracle
def _inside(p, s, e, strict=False):
    if strict:
        return all(s[d] < p[d] < e[d] for d in range(len(p)))
    return all(s[d] <= p[d] <= e[d] for d in range(len(p)))


def combi_defect(dim, grids):
    """grids: [(coarse level vector, coefficient)] of the computed component grids of one area.  Returns None or a
    level vector k >= 0 below some computed grid whose dominating coefficient sum is not 1 (= an area grid point
    where the coefficients do not sum to 1)."""
    if not grids:
        return ('no component grid is computed on the area', None)
    for g, c in grids:
        if len(g) != dim or min(g) < 0:
            return ('negative or wrong-length coarsened level vector', g)
    hi = [max(g[d] for g, c in grids) for d in range(dim)]
    for k in itertools.product(*[range(h + 1) for h in hi]):
        dom = [c for g, c in grids if all(g[d] >= k[d] for d in range(dim))]
        if dom and sum(dom) != 1:
            return ('coefficients of the computed grids containing the points of level %s sum to %s' % (list(k), sum(dom)), list(k))
    return None


def area_grids(rows):
    """rows [(s, e, levelvec, coarse, do_compute)] + scheme coefficients -> {box: [(coarse, coeff)]}"""
    out = {}
    for s, e, l, lc, dc, c in rows:
        out.setdefault((tuple(s), tuple(e)), [])
        if dc:
            out[(tuple(s), tuple(e))].append((tuple(lc), c))
    return out


def oracle_state(case, st):
    """The property's own predicate on one implementation state. Returns None or (kind, description)."""
    dim = case['dim']
    a = [Fraction(x) for x in case['a']]
    b = [Fraction(x) for x in case['b']]
    leaves = st['leaves']
    vol = Fraction(0)
    for s, e, c, n, p in leaves:
        if len(s) != dim or len(e) != dim or any(s[d] >= e[d] for d in range(dim)):
            return ('box', 'leaf %s..%s is not a non-degenerate box' % (s, e))
        if any(s[d] < a[d] or e[d] > b[d] for d in range(dim)):
            return ('outside', 'leaf %s..%s sticks out of the domain' % (s, e))
        if c < 0:
            return ('coarsening-negative', 'leaf %s..%s has coarsening value %d' % (s, e, c))
        v = Fraction(1)
        for d in range(dim):
            v *= e[d] - s[d]
        vol += v
    for i in range(len(leaves)):
        for j in range(i + 1, len(leaves)):
            s1, e1, s2, e2 = leaves[i][0], leaves[i][1], leaves[j][0], leaves[j][1]
            if all(max(s1[d], s2[d]) < min(e1[d], e2[d]) for d in range(dim)):
                return ('overlap', 'leaves %s..%s and %s..%s overlap' % (s1, e1, s2, e2))
    dv = Fraction(1)
    for d in range(dim):
        dv *= b[d] - a[d]
    if vol != dv:
        return ('volume', 'leaf volumes sum to %s, domain volume is %s (a part of the domain is not covered)' % (vol, dv))
    if sorted([s, e] for s, e, c, n, p in leaves) != st['tree_leaves']:
        return ('tree-container', 'the leaves of the refinement tree differ from the areas in the container')
    # point assignment
    got = {}
    for p, s, e in st['assign']:
        got.setdefault(tuple(p), []).append((s, e))
    boxes = [(s, e) for s, e, c, n, p in leaves]
    for p in st['pts']:
        p = tuple(p)
        if _inside(p, a, b):
            if len(got.get(p, [])) != 1:
                return ('assignment', 'evaluation point %s is assigned to %d leaves' % (list(p), len(got.get(p, []))))
            s, e = got[p][0]
            if not _inside(p, s, e) or (s, e) not in boxes:
                return ('assignment', 'evaluation point %s is assigned to %s..%s which does not contain it / is no leaf' % (list(p), s, e))
    # local combination
    coeff = {tuple(l): c for l, c in st['scheme']}
    for name in ('coarse', 'compute'):
        rows = st[name] if name == 'coarse' else [[list(bx[0]), list(bx[1]), l, lc, dc] for bx, l, lc, dc in st['compute']]
        try:
            rows = [(s, e, l, lc, dc, coeff[tuple(l)]) for s, e, l, lc, dc in rows]
        except KeyError:
            continue   # compute trace of a step with an lmax change refers to the scheme at that time; checked via coarse
        for bx, grids in area_grids(rows).items():
            d = combi_defect(dim, grids)
            if d:
                return ('local-combination', 'area %s..%s (%s): %s' % (list(bx[0]), list(bx[1]), name, d[0]))
    if st.get('ptsum') and st['ptsum']['bad']:
        s, e, p, v = st['ptsum']['bad'][0]
        return ('local-combination', 'area %s..%s: coefficients of the computed grids sum to %s at grid point %s' % (s, e, v, p))
    return None


def first_oracle_failure(case, r):
    for k, st in enumerate(r['states']):
        why = oracle_state(case, st)
        if why:
            return k, why
    return None, None


# ------------------------------------------------------------------------------------------------ run
CORPUS = [
    # exemplar of the known finding C07-coarsen-v12-lmin (versions 1,2 hard-code minimum level 1)
    dict(dim=2, version=1, nrbe=0, auto=False, single=False, lmin=2, lmax=3, steps=1, a=['0', '0'], b=['1', '1'], fn=0, seed=3, npts=6),
    dict(dim=2, version=2, nrbe=0, auto=False, single=False, lmin=2, lmax=3, steps=1, a=['0', '0'], b=['1', '1'], fn=0, seed=3, npts=6),
    dict(dim=2, version=0, nrbe=1, auto=False, single=False, lmin=1, lmax=2, steps=4, a=['0', '0'], b=['1', '1'], fn=0, seed=11, npts=12),
    dict(dim=2, version=1, nrbe=0, auto=False, single=True, lmin=1, lmax=3, steps=4, a=['-1', '0'], b=['1', '2'], fn=2, seed=12, npts=12),
    dict(dim=3, version=2, nrbe=1, auto=False, single=False, lmin=1, lmax=2, steps=3, a=['0', '0', '0'], b=['1', '1', '1'], fn=0, seed=13, npts=6),
    dict(dim=2, version=0, nrbe=2, auto=True, single=False, lmin=1, lmax=3, steps=4, a=['0', '0'], b=['1', '1'], fn=0, seed=14, npts=12),
    dict(dim=3, version=0, nrbe=0, auto=False, single=True, lmin=1, lmax=3, steps=3, a=['0', '-1', '0'], b=['1', '1', '2'], fn=2, seed=15, npts=6),
    dict(dim=2, version=2, nrbe=3, auto=True, single=True, lmin=1, lmax=2, steps=5, a=['0', '0'], b=['2', '1'], fn=1, seed=16, npts=12),
]


def compare(c, r, mr):
    """first step at which model and implementation differ: (step, [observables], canon_model, canon_impl) or None"""
    for k, (mo, is_) in enumerate(zip(mr, r['states'])):
        cm, ci = canon_model(mo), canon_impl(is_)
        diff = [o for o in OBS if cm[o] != ci[o]]
        if not cm['assert_ok']:
            diff.append('assert num_sub_diagonal < dim')
        if diff:
            return k, diff, cm, ci
    if len(mr) != len(r['states']):
        return min(len(mr), len(r['states'])), ['number of states'], {}, {}
    return None


def sig_of(c, **kw):
    return dict(version=c['version'], auto=c['auto'], single=c['single'], lmin_gt1=c['lmin'] > 1, **kw)


def check_cases(chk, cases):
    impl = run_impl(impl_run, cases, limit=240)
    midx = [i for i, (st, r) in enumerate(impl) if st == 'ok' and r['states']]
    mres = dict(zip(midx, run_model(7, [(0, model_input(cases[i], impl[i][1], 0)) for i in midx])))
    # cases on which the pinned-code variant differs are re-run against the repaired variant (only differs for lmin > 1)
    retry = [i for i in midx if cases[i]['lmin'] > 1 and cases[i]['version'] in (1, 2) and not sx.is_err(mres[i])
             and not isinstance(mres[i], tuple) and compare(cases[i], impl[i][1], mres[i])]
    mres1 = dict(zip(retry, run_model(7, [(0, model_input(cases[i], impl[i][1], 1)) for i in retry])))
    keys, samples = [], []
    checker_in = {}
    for i, c in enumerate(cases):
        st, r = impl[i]
        chk.count('dim=%d' % c['dim']); chk.count('version=%d' % c['version']); chk.count('nrbe=%d' % c['nrbe'])
        chk.count('auto=%s' % c['auto']); chk.count('single=%s' % c['single']); chk.count('lmin=%d' % c['lmin'])
        if st != 'ok':
            chk.violation('corr:C07/history', 'impl-exception', sig_of(c, exc=(r[0] if r else st)), c,
                          dict(impl=str(r)), failing_input=True)
            continue
        if r['abort']:
            if c['auto'] and r['abort'][0] == 'AssertionError':
                chk.count('aborted-by-assert-in-automatic-error-estimator')     # not a C07 observable
            else:
                chk.violation('corr:C07/history', 'impl-exception', sig_of(c, exc=r['abort'][0], where=r['abort'][1]), c,
                              dict(impl=str(r['abort'])), failing_input=True)
            if not r['states']:
                continue
        chk.traces += 1
        chk.count('steps=%d' % (len(r['states']) - 1))
        mr = mres.get(i)
        ok = True
        if mr is None or sx.is_err(mr) or isinstance(mr, tuple):
            chk.violation('corr:C07/history', 'model-rejects', sig_of(c), c, dict(model=str(mr)[:300]), failing_input=False)
            ok = False
        else:
            d = compare(c, r, mr)
            if d and i in mres1 and not sx.is_err(mres1[i]) and not isinstance(mres1[i], tuple) and not compare(c, r, mres1[i]):
                chk.count('implementation-follows-repaired-coarsen_grid')
                d = None
            if d:
                k, diff, cm, ci = d
                fk, why = first_oracle_failure(c, r)
                fc = dict(c, steps=(fk if why else k))
                o = diff[0]
                det = dict(step=k, differs=diff, property_predicate=why and why[1])
                if o in cm and isinstance(cm[o], list):
                    det.update(model_only=str([x for x in cm[o] if x not in ci[o]][:4])[:900],
                               impl_only=str([x for x in ci[o] if x not in cm[o]][:4])[:900])
                elif o in cm:
                    det.update(model=str(cm[o]), impl=str(ci[o]))
                chk.violation('corr:C07/' + o, 'history-differs', sig_of(c, observable=o), fc, det, failing_input=bool(why))
                ok = False
        # the oracle runs on every implementation state, independent of the model
        fk, why = first_oracle_failure(c, r)
        if why and ok:
            chk.violation('oracle:' + why[0], 'property-predicate', sig_of(c, predicate=why[0]), dict(c, steps=fk),
                          dict(step=fk, why=why[1]), failing_input=True)
        # verified checker input: every explored (area, scheme) pair of the implementation
        for k, is_ in enumerate(r['states']):
            coeff = {tuple(l): cf for l, cf in is_['scheme']}
            rows = [(s, e, l, lc, dc, coeff[tuple(l)]) for s, e, l, lc, dc in is_['coarse']]
            for bx, grids in area_grids(rows).items():
                key = (c['dim'], tuple(sorted((g, int(cf)) for g, cf in grids)))
                if key not in checker_in or (k, c['steps']) < checker_in[key][3]:
                    checker_in[key] = (dict(c, steps=k), bx, is_['lmax'], (k, c['steps']))
                chk.count('checker:area-scheme-pairs')
        nref = sum(len(s_['refined']) for s_ in r['states'])
        next = sum(1 for s_ in r['states'] for x in s_['refined'] if x[1])
        if nref >= 2 and 0 < next < nref:
            keys.append(case_key(c))
            if len(samples) < 3:
                samples.append(dict(case=c, refinements=nref, extends=next, final_lmax=r['states'][-1]['lmax'][0],
                                    final_leaves=len(r['states'][-1]['leaves'])))
    # verified checker valid_local_combi (extracted) on the distinct local combinations seen on the implementation
    ck = list(checker_in.items())
    cres = run_model(7, [(1, [k[0], [[list(g), cf] for g, cf in k[1]]]) for k, _ in ck])
    for (k, (c, bx, lmax, _)), res in zip(ck, cres):
        chk.count('checker:distinct-local-combinations')
        if res != 1:
            d = combi_defect(k[0], [(g, cf) for g, cf in k[1]])
            chk.violation('checker:valid_local_combi', 'property-predicate', sig_of(c, predicate='local-combination'), c,
                          dict(area=str(bx), lmax=lmax, grids=str(k[1])[:600], checker=str(res), python_predicate=str(d)),
                          failing_input=bool(d))
    return keys, samples


def run(chk):
    chk.coq_obligations()
    n = chk.n(260, 4000)
    cases = CORPUS + [gen_case(chk.rng, chk.tier, i) for i in range(n)]
    keys, samples = check_cases(chk, cases)
    chk.record_cases(len(cases), keys,
                     'random extend-split histories on the real SpatiallyAdaptiveExtendScheme (d 2..3, versions 0..2, '
                     'number_of_refinements_before_extend 0..3, automatic_extend_split on/off, split_single_dim on/off, '
                     'lmin 1..2, lmax-lmin 1..2, 2..5 refine() rounds, scripted benefits); non-trivial = at least two '
                     'areas refined and both an extend and a split occurred; distinct by configuration+seed', samples)


def replay(chk, rep):
    c = rep['case']
    st, r = run_impl(impl_run, [c])[0]
    if st != 'ok':
        print('impl:', st, r)
        return 1
    print('impl: %d states, abort=%s' % (len(r['states']), r['abort']))
    mr = run_model(7, [(0, model_input(c, r, 0))])[0]
    if c['lmin'] > 1 and not sx.is_err(mr) and compare(c, r, mr):
        m1 = run_model(7, [(0, model_input(c, r, 1))])[0]
        if not sx.is_err(m1) and not compare(c, r, m1):
            print('implementation follows the repaired coarsen_grid (fixes/C07-coarsen-lmin.patch)')
            mr = m1
    rc = 0
    for k, is_ in enumerate(r['states']):
        ci = canon_impl(is_)
        line = 'step %d: lmax=%s leaves=%d refined=%s' % (k, ci['lmax'], len(ci['leaves']), ci['refined'])
        if not sx.is_err(mr) and k < len(mr):
            cm = canon_model(mr[k])
            diff = [o for o in OBS if cm[o] != ci[o]]
            line += ' | model agrees' if not diff else ' | MODEL DIFFERS in %s' % diff
            if diff:
                rc = 1
        why = oracle_state(c, is_)
        line += ' | property predicate: ' + (why[1] if why else 'holds')
        print(line)
        if why:
            rc = 1
    if r['abort'] and not (c['auto'] and r['abort'][0] == 'AssertionError'):
        rc = 1
    return rc
