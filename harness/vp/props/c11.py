"""C11: Romberg extrapolation grids give consistent, exact-to-order weights.
Correspondence model (coq/Model/Romberg.v) <-> sparseSpACE/Extrapolation.py (+ Grid.py wrappers), property oracle."""
import itertools
import os
import random
from fractions import Fraction as F
from .. import sx
from .. import gen
from ..impl import run_impl
from ..model import run_model

ASSUMPTIONS = [
    'exact-arithmetic model over Qc; implementation weights are floats: compared with |impl-model| <= 1e-9*(|a|+|b|+(b-a)) '
    '(grid points, levels, container sizes, support sequences are compared exactly)',
    'a failing Python assert is the observable AssertionError <-> model None',
    'Python dictionaries keyed by grid points modelled as key-sorted association lists',
    'Lagrange-interpolating containers and constant-subtraction slices are not modelled (outside the property)',
    gen.ASSUMPTION,
]

GEN_CHAIN = ['Base/PyNum.v', 'Gen/ExtrapolationGen.v', 'Proofs/PyNumFacts.v', 'Proofs/GenExtrapolationEq.v']

GROUPINGS = {1: 'UNIT', 2: 'GROUPED', 3: 'GROUPED_OPTIMIZED'}
SLICES = {1: 'ROMBERG_DEFAULT', 2: 'TRAPEZOID'}
CONTAINERS = {1: 'ROMBERG_DEFAULT', 4: 'SIMPSON_ROMBERG'}
ALL_VARIANTS = [(g, s, c, f) for g in (1, 2, 3) for s in (1, 2) for c in (1, 4) for f in (0, 1)]


# ----------------------------------------------------------------------------------------------------- generators
def rand_tree(rng, depth, p, full=False):
    """in-order list of (k, level): point k/2^depth of a random dyadic refinement tree (root = level 1)."""
    out = []

    def rec(lo, hi, lev):
        mid = (lo + hi) // 2
        if full:
            kids = lev < depth and rng.random() < p
            if kids:
                rec(lo, mid, lev + 1)
            out.append((mid, lev))
            if kids:
                rec(mid, hi, lev + 1)
            return
        left = lev < depth and rng.random() < p
        right = lev < depth and rng.random() < p
        if left:
            rec(lo, mid, lev + 1)
        out.append((mid, lev))
        if right:
            rec(mid, hi, lev + 1)
    rec(0, 2 ** depth, 1)
    return out


def interval(rng):
    a = rng.choice([F(0), F(0), F(0), F(-1), F(1, 2), F(2), F(-3, 4), F(5)])
    L = rng.choice([F(1), F(1), F(1), F(2), F(1, 2), F(3), F(1, 4), F(5, 2)])
    return a, L


def tree_case(rng, tier, kind=None, full=False):
    maxd = 6 if tier == 'quick' else 7
    depth = rng.choice([1, 2, 2, 3, 3, 4, 4, 5, 5, maxd])
    r = rng.random()
    if kind is None:
        kind = 'complete' if r < 0.12 else 'valid'
    p = 1.0 if kind == 'complete' else rng.choice([0.35, 0.5, 0.65, 0.8, 0.9])
    if kind == 'complete':
        depth = min(depth, 5 if tier == 'quick' else 6)
    t = rand_tree(rng, depth, p, full=full)
    a, L = interval(rng)
    grid = [a] + [a + L * k / 2 ** depth for k, _ in t] + [a + L]
    levels = [0] + [l for _, l in t] + [0]
    return dict(kind=kind, grid=[[x.numerator, x.denominator] for x in grid], levels=levels)


def malform(rng, c):
    """boundary / malformed stream: the implementation must reject (AssertionError) exactly when the model does."""
    c = dict(c, grid=[list(x) for x in c['grid']], levels=list(c['levels']))
    n = len(c['grid'])
    r = rng.random()
    if r < 0.35 and n > 2:
        i = rng.randrange(1, n - 1)
        c['levels'][i] = max(0, c['levels'][i] + rng.choice([-1, 1, 2]))
        c['kind'] = 'bad-level'
    elif r < 0.55 and n > 2:
        i = rng.randrange(1, n - 1)
        lo, hi = F(*c['grid'][i - 1]), F(*c['grid'][i + 1])
        x = lo + (hi - lo) * rng.choice([F(1, 4), F(3, 8), F(3, 4)])
        c['grid'][i] = [x.numerator, x.denominator]
        c['kind'] = 'non-dyadic'
    elif r < 0.7:
        c['levels'][rng.choice([0, -1])] = rng.choice([1, 2])
        c['kind'] = 'boundary-level'
    elif r < 0.85:
        c['grid'] = [c['grid'][0], c['grid'][-1]]
        c['levels'] = [0, 0]
        c['kind'] = 'two-points'
    else:
        if n > 3:
            i = rng.randrange(1, n - 1)
            del c['grid'][i]
            del c['levels'][i]
        c['kind'] = 'point-removed'
    return c


# ----------------------------------------------------------------------------------------------------- implementation
def _where(e):
    import traceback
    repo = os.environ.get('VERIF_REPO', '/repo')
    for fr in reversed(traceback.extract_tb(e.__traceback__)):
        if repo in fr.filename:
            return '%s:%d' % (os.path.relpath(fr.filename, repo), fr.lineno)
    return ''


def _guard(fn):
    try:
        return ['ok', fn()]
    except AssertionError as e:
        return ['assert', _where(e)]
    except Exception as e:  # first-class observable
        return ['exc', type(e).__name__, _where(e), str(e)[:200]]


def _fl(grid):
    out = []
    for n, d in grid:
        x = n / d
        assert F(x) == F(n, d)
        out.append(x)
    return out


def _enum(cls, v):
    return cls(v)


def impl_sliced(case):
    from sparseSpACE.Extrapolation import ExtrapolationGrid, SliceGrouping, SliceVersion, SliceContainerVersion
    from sparseSpACE.Grid import GlobalRombergGrid
    grid = _fl(case['grid'])
    levels = list(case['levels'])
    res = []
    for (g, s, c, f) in case['variants']:
        def one():
            eg = ExtrapolationGrid(slice_grouping=SliceGrouping(g), slice_version=SliceVersion(s),
                                   container_version=SliceContainerVersion(c), force_balanced_refinement_tree=bool(f))
            eg.set_grid(list(grid), list(levels))
            w = eg.get_weights()
            return dict(grid=[sx.rat(x) for x in eg.get_grid()], levels=[int(l) for l in eg.get_grid_levels()],
                        sizes=[len(ct.slices) for ct in eg.slice_containers], weights=[sx.rat(x) for x in w])
        res.append(_guard(one))
    # integrate() on a re-used object: set_grid must invalidate the cached weights
    def reuse():
        from sparseSpACE.Function import Polynomial1d
        f = Polynomial1d([3, 2])     # 3 + 2x
        out = []
        other = [grid[0] + (grid[-1] - x) for x in reversed(grid)]
        olev = list(reversed(levels))
        for k, (g, s, c, fb) in enumerate(case['variants']):
            if res[k][0] != 'ok':
                out.append(None)
                continue
            eg = ExtrapolationGrid(slice_grouping=SliceGrouping(g), slice_version=SliceVersion(s),
                                   container_version=SliceContainerVersion(c), force_balanced_refinement_tree=bool(fb))
            eg.set_grid(list(other), list(olev))
            v0 = eg.integrate(f)
            eg.set_grid(list(grid), list(levels))
            v1 = eg.integrate(f)
            out.append([sx.rat(float(v0)), sx.rat(float(v1)), sx.rat(float(eg.get_absolute_error()))])
        return out
    ru = _guard(reuse) if case.get('wrapper') else None
    # Grid.py wrapper with its weight cache: same grid twice, another grid in between
    def wrapper():
        out = []
        for (g, s, c, f) in case['variants']:
            if f:
                out.append(None)
                continue
            gg = GlobalRombergGrid([grid[0]], [grid[-1]], slice_grouping=SliceGrouping(g), slice_version=SliceVersion(s),
                                   container_version=SliceContainerVersion(c))
            gg.initialize_grid()
            w1 = gg.compute_1D_quad_weights(list(grid), grid[0], grid[-1], 0, grid_levels_1D=list(levels))
            # another grid with the same number of points in between: the mirror image
            other = [grid[0] + (grid[-1] - x) for x in reversed(grid)]
            olev = list(reversed(levels))
            w2 = gg.compute_1D_quad_weights(list(other), grid[0], grid[-1], 0, grid_levels_1D=list(olev))
            w3 = gg.compute_1D_quad_weights(list(grid), grid[0], grid[-1], 0, grid_levels_1D=list(levels))
            eg = ExtrapolationGrid(slice_grouping=SliceGrouping(g), slice_version=SliceVersion(s),
                                   container_version=SliceContainerVersion(c))
            eg.set_grid(list(other), list(olev))
            d2 = eg.get_weights()
            out.append([[sx.rat(x) for x in w1], [sx.rat(x) for x in w2], [sx.rat(x) for x in w3], [sx.rat(x) for x in d2]])
        return out
    wr = _guard(wrapper) if case.get('wrapper') else None
    return dict(res=res, wrapper=wr, reuse=ru)


def impl_support(case):
    from sparseSpACE.Extrapolation import ExtrapolationGrid
    grid = _fl(case['grid'])
    eg = ExtrapolationGrid()
    eg.grid = list(grid)
    eg.grid_levels = list(case['levels'])
    return [[[sx.rat(l), sx.rat(r)] for (l, r) in eg.compute_support_sequence(i, i + 1)] for i in range(len(grid) - 1)]


def impl_balanced(case):
    from sparseSpACE.Extrapolation import BalancedExtrapolationGrid
    from sparseSpACE.Grid import GlobalBalancedRombergGrid
    grid = _fl(case['grid'])
    levels = list(case['levels'])

    def one():
        bg = BalancedExtrapolationGrid()
        bg.set_grid(list(grid), list(levels))
        w = bg.get_weights()
        return dict(weights=[sx.rat(float(x)) for x in w], grid=[sx.rat(x) for x in bg.get_grid()],
                    levels=[int(l) for l in bg.get_grid_levels()])

    def wrap():
        gg = GlobalBalancedRombergGrid([grid[0]], [grid[-1]])
        w = gg.compute_1D_quad_weights(list(grid), grid[0], grid[-1], 0, grid_levels_1D=list(levels))
        return [sx.rat(float(x)) for x in w]
    return dict(direct=_guard(one), wrapper=_guard(wrap))


def _grid_of(tree, depth, iv):
    a, L = F(*iv[0]), F(*iv[1])
    return [a] + [a + L * k / 2 ** depth for k, _ in tree] + [a + L], [0] + [l for _, l in tree] + [0]


def impl_global(case):
    """History on ONE GlobalRombergGrid / GlobalBalancedRombergGrid object: set_grid with per-dimension grids
    (same trees, different intervals) step after step; observes the per-dimension coordinates and weights."""
    from sparseSpACE.Extrapolation import SliceGrouping, SliceVersion, SliceContainerVersion
    from sparseSpACE.Grid import GlobalRombergGrid, GlobalBalancedRombergGrid
    dim = case['dim']

    def fl(q):
        x = q.numerator / q.denominator
        assert F(x) == q
        return x

    def run():
        out = []
        gg = None
        for step in case['steps']:
            pts, lvs = [], []
            for d in range(dim):
                g, l = _grid_of(case['trees'][d], case['depths'][d], step[d])
                pts.append([fl(x) for x in g])
                lvs.append(list(l))
            a = [p[0] for p in pts]
            b = [p[-1] for p in pts]
            if gg is None:
                if case['wrapper'] == 'balanced':
                    gg = GlobalBalancedRombergGrid(a, b)
                else:
                    g_, s_, c_ = case['variant']
                    gg = GlobalRombergGrid(a, b, slice_grouping=SliceGrouping(g_), slice_version=SliceVersion(s_),
                                           container_version=SliceContainerVersion(c_))
            else:   # the same object re-used for another domain
                gg.a, gg.b = a, b
                import numpy as np
                gg.length = np.array(b) - np.array(a)
            if hasattr(gg, 'initialize_grid') and case['wrapper'] != 'balanced':
                gg.initialize_grid()
            gg.set_grid(pts, lvs)
            out.append([dict(coords=[sx.rat(float(x)) for x in gg.get_coordinates_dim(d)],
                             weights=[sx.rat(float(w)) for w in gg.weights[d]]) for d in range(dim)])
        return out
    return _guard(run)


def impl_tree(case):
    from sparseSpACE.Extrapolation import GridBinaryTree
    grid = _fl(case['grid'])
    levels = list(case['levels'])

    def one():
        t = GridBinaryTree()
        t.init_tree(list(grid), list(levels))
        g0 = [sx.rat(x) for x in t.get_grid()]
        l0 = [int(l) for l in t.get_grid_levels()]
        t.force_full_tree_invariant()
        g1 = [sx.rat(x) for x in t.get_grid()]
        l1 = [int(l) for l in t.get_grid_levels()]
        nodes = t.root_node.get_nodes_using_dfs_in_order()
        one_child = [sx.rat(nd.point) for nd in nodes if nd.has_only_one_child()]
        return dict(g0=g0, l0=l0, g1=g1, l1=l1, one_child=one_child)
    return _guard(one)


def impl_factory(case):
    from sparseSpACE.Extrapolation import RombergWeightFactory, ExtrapolationVersion
    a = case['a'][0] / case['a'][1]
    b = case['b'][0] / case['b'][1]
    fac = RombergWeightFactory.get(a, b, ExtrapolationVersion(case['version']))
    m = case['m']
    return dict(boundary=sx.rat(fac.get_boundary_point_weight(m)),
                inner=[sx.rat(fac.get_inner_point_weight(l, m)) for l in range(1, m + 1)],
                coeff=[sx.rat(fac.get_extrapolation_coefficient(m, j)) for j in range(m + 1)])


IMPL = {}


def impl_any(tagged):
    part, case = tagged
    return IMPL[part](case)


IMPL.update(sliced=impl_sliced, support=impl_support, balanced=impl_balanced, tree=impl_tree, factory=impl_factory,
            glob=impl_global)


def run_all_impl(parts):
    """one worker pool for all parts (importing the library dominates under load)"""
    tagged = [(name, c) for name, cases in parts for c in cases]
    res = run_impl(impl_any, tagged, limit=300)
    out, k = {}, 0
    for name, cases in parts:
        out[name] = res[k:k + len(cases)]
        k += len(cases)
    return out


# ----------------------------------------------------------------------------------------------------- oracle
def tol_of(grid):
    a, b = grid[0], grid[-1]
    return F(1, 10 ** 9) * (abs(a) + abs(b) + (b - a))


def is_complete(levels):
    """complete dyadic grid of depth m: returns m or None"""
    n = len(levels) - 1
    if n < 1 or n & (n - 1):
        return None
    m = n.bit_length() - 1
    want = [0] + [m - ((k & -k).bit_length() - 1) for k in range(1, n)] + [0]
    return m if list(levels) == want else None


def moments_why(grid, weights, maxdeg):
    """property predicate on implementation output: sum of weights, first moment, monomials up to maxdeg."""
    a, b = grid[0], grid[-1]
    if len(weights) != len(grid):
        return 'number of weights %d != number of grid points %d' % (len(weights), len(grid)), 'length'
    scale = max(abs(a), abs(b), 1)
    for k in range(0, maxdeg + 1):
        got = sum(w * x ** k for w, x in zip(weights, grid))
        want = (b ** (k + 1) - a ** (k + 1)) / (k + 1)
        if abs(got - want) > F(1, 10 ** 9) * (b - a) * scale ** k * (1 + abs(a) + abs(b)):
            what = 'sum' if k == 0 else ('first-moment' if k == 1 else 'degree')
            return ('sum_i w_i x_i^%d = %s (%.12g) but the integral of x^%d over [%s,%s] is %s (%.12g)'
                    % (k, got, float(got), k, a, b, want, float(want))), what
    return None, None


def sliced_degree(case_levels, variant):
    g, s, c, f = variant
    m = is_complete(case_levels)
    if m is None or c != 1:
        return 1
    if s == 1 or (g != 1 and m >= 1):
        return 2 * m + 1
    return 1


def variant_sig(v, sizes=None):
    g, s, c, f = v
    sig = dict(grouping=GROUPINGS[g], slice=SLICES[s], container=CONTAINERS[c], force=bool(f))
    if sizes is not None:
        sig['multi_slice_container'] = any(z >= 2 for z in sizes)
    return sig


def close(xs, ys, tol):
    return len(xs) == len(ys) and all(abs(x - y) <= tol for x, y in zip(xs, ys))


def qgrid(case):
    return [F(n, d) for n, d in case['grid']]


# ----------------------------------------------------------------------------------------------------- check parts
def check_sliced(chk, cases, impl=None):
    if impl is None:
        impl = run_impl(impl_sliced, cases, limit=300)
    mcases, idx = [], []
    for i, c in enumerate(cases):
        for j, v in enumerate(c['variants']):
            mcases.append((0, [v[0], v[1], v[2], v[3], qgrid(c), c['levels']]))
            idx.append((i, j))
    mres = run_model(11, mcases, nproc=16)
    keys, samples = [], []
    for (i, j), mr in zip(idx, mres):
        c = cases[i]
        v = tuple(c['variants'][j])
        st, r = impl[i]
        one = dict(kind=c['kind'], grid=c['grid'], levels=c['levels'], variants=[list(v)])
        chk.count('sliced:' + c['kind'])
        if st != 'ok':
            chk.violation('corr:C11/sliced', 'impl-worker-failed', {'status': st}, one, dict(impl=str(r)), failing_input=False)
            continue
        ir = r['res'][j]
        sig = variant_sig(v)
        if isinstance(mr, tuple):
            chk.violation('corr:C11/sliced', 'model-driver-error', {}, one, dict(model=str(mr)), failing_input=False)
            continue
        if ir[0] == 'exc':
            chk.violation('oracle:no_exception', 'impl-exception', dict(sig, exc=ir[1]), one, dict(impl=ir, model=str(mr)[:300]))
            continue
        if ir[0] == 'assert' or sx.is_err(mr):
            if ir[0] == 'assert' and sx.is_err(mr):
                chk.count('sliced:rejected-by-both')
            else:
                # the property's predicate: a valid dyadic tree must be accepted
                fi = c['kind'] in ('valid', 'complete') and ir[0] == 'assert'
                chk.violation('corr:C11/sliced', 'assert-disagreement', dict(sig, impl=ir[0]), one,
                              dict(impl=str(ir)[:300], model=str(mr)[:300]), failing_input=fi)
            continue
        chk.traces += 1
        o = ir[1]
        mgrid = [sx.q(x) for x in mr[0]]
        mw = [sx.q(x) for x in mr[3]]
        sig = variant_sig(v, o['sizes'])
        tol = tol_of(o['grid'])
        diff = []
        if mgrid != o['grid']:
            diff.append('grid')
        if mr[1] != o['levels']:
            diff.append('levels')
        if mr[2] != o['sizes']:
            diff.append('container sizes')
        if not close(mw, o['weights'], tol):
            diff.append('weights')
        # verified checker: the keys of the model's weight dictionary are exactly the grid points (weights aligned with the grid)
        chk.count('checker:dict_keys_equal_grid')
        if [sx.q(x) for x in mr[4]] != mgrid:
            chk.violation('checker:dict_keys_equal_grid', 'dict-keys-not-grid', dict(sig), one,
                          dict(keys=[str(sx.q(x)) for x in mr[4]][:40], grid=[str(x) for x in mgrid][:40]), failing_input=False)
        why, what = moments_why(o['grid'], o['weights'], sliced_degree(o['levels'], v) if c['kind'] in ('valid', 'complete') else 1)
        if c['kind'] in ('valid', 'complete') and not v[3] and o['grid'] != qgrid(c):
            why, what = 'grid changed without forced balancing', 'grid'
        if v[3] and c['kind'] in ('valid', 'complete'):
            given = qgrid(c)
            if not set(given) <= set(o['grid']) or o['grid'] != sorted(set(o['grid'])):
                why, what = 'forced balancing dropped or reordered points', 'grid'
        if why:
            chk.violation('oracle:weights_consistent', 'sliced-weights-inconsistent', dict(sig, what=what), one,
                          dict(why=why, weights=[str(w) for w in o['weights']][:40], model_weights=[str(w) for w in mw][:40]))
        if diff:
            chk.violation('corr:C11/sliced', 'sliced-differs', dict(sig, observable=','.join(diff)), one,
                          dict(differs=diff, property_predicate=why or 'holds on this case',
                               impl=dict(grid=[str(x) for x in o['grid']][:40], levels=o['levels'][:40], sizes=o['sizes'][:40],
                                         weights=[float(w) for w in o['weights']][:40]),
                               model=dict(grid=[str(x) for x in mgrid][:40], levels=mr[1][:40], sizes=mr[2][:40],
                                          weights=[float(w) for w in mw][:40])),
                          failing_input=bool(why))
        # Grid.py wrapper (weight cache) must return exactly what the extrapolation grid returns
        if r['wrapper'] is not None and not v[3]:
            if r['wrapper'][0] != 'ok':
                chk.violation('corr:C11/wrapper', 'wrapper-exception', dict(sig), one, dict(impl=str(r['wrapper'])[:400]))
            else:
                w1, w2, w3, d2 = r['wrapper'][1][j]
                if w1 != o['weights'] or w3 != o['weights'] or w2 != d2:
                    why2, _ = moments_why(o['grid'], w3, 1)
                    if not why2:
                        why2, _ = moments_why(o['grid'], w1, 1)
                    if not why2:   # the wrapper called on the mirror image of the grid
                        a_, b_ = o['grid'][0], o['grid'][-1]
                        why2, _ = moments_why([a_ + (b_ - x) for x in reversed(o['grid'])], w2, 1)
                        if why2:
                            why2 = 'GlobalRombergGrid.compute_1D_quad_weights on the mirrored grid (after a call on the grid): ' + why2
                    chk.violation('corr:C11/wrapper', 'wrapper-differs', dict(sig), one,
                                  dict(direct=[float(x) for x in o['weights']][:40], first=[float(x) for x in w1][:40],
                                       cached=[float(x) for x in w3][:40], mirrored_wrapper=[float(x) for x in w2][:40],
                                       mirrored_direct=[float(x) for x in d2][:40], property_predicate=why2), failing_input=bool(why2))
        # integrate(3 + 2x) on an object that was used for the mirrored grid before: must equal sum_i w_i f(x_i), and the integral
        if r.get('reuse') is not None:
            if r['reuse'][0] != 'ok':
                chk.violation('corr:C11/integrate', 'integrate-exception', dict(sig), one, dict(impl=str(r['reuse'])[:400]))
            else:
                v0, v1, err = r['reuse'][1][j]
                a_, b_ = o['grid'][0], o['grid'][-1]
                want = sum(w * (3 + 2 * x) for w, x in zip(o['weights'], o['grid']))
                exact = 3 * (b_ - a_) + (b_ * b_ - a_ * a_)
                consistent = sig['container'] == 'ROMBERG_DEFAULT' or not sig['multi_slice_container']
                bad_corr = abs(v1 - want) > 10 * tol
                bad_prop = consistent and (abs(v1 - exact) > 100 * tol or abs(v0 - exact) > 100 * tol or abs(err - abs(v1 - exact)) > 100 * tol)
                if bad_corr or bad_prop:
                    chk.violation('corr:C11/integrate' if not bad_prop else 'oracle:integrate_linear', 'integrate-differs', dict(sig), one,
                                  dict(integrate=float(v1), sum_w_f=float(want), exact=float(exact), first_call=float(v0), reported_error=float(err)),
                                  failing_input=bool(bad_prop))
        if len(o['grid']) >= 4:
            keys.append((str(c['grid']), str(c['levels']), v))
        if len(samples) < 3 and len(o['grid']) >= 6 and v[0] != 1:
            samples.append(dict(grid=[str(x) for x in qgrid(c)], levels=c['levels'], variant=variant_sig(v),
                                container_sizes=o['sizes'], weights_impl=[float(w) for w in o['weights']],
                                weights_model=[str(w) for w in mw]))
    chk.record_cases(len(mcases), keys,
                     'sliced Romberg: random dyadic refinement trees (depth<=7, 3..129 points, 8 intervals) x grouping x slice '
                     'version x container version x forced balancing, plus malformed inputs; non-trivial = accepted by both sides '
                     'with >= 4 grid points; distinct by (grid, levels, variant)', samples)


def check_support(chk, cases, impl=None):
    if impl is None:
        impl = run_impl(impl_support, cases, limit=120)
    mres = run_model(11, [(4, [qgrid(c), c['levels']]) for c in cases], nproc=8)
    keys = []
    for c, (st, r), mr in zip(cases, impl, mres):
        one = dict(kind=c['kind'], grid=c['grid'], levels=c['levels'])
        if st != 'ok':
            chk.violation('corr:C11/support', 'support-exception', {'exc': r[0] if r else st}, one, dict(impl=str(r)))
            continue
        ms = [[[sx.q(l), sx.q(rr)] for l, rr in seq] for seq in mr]
        if ms != r:
            g = qgrid(c)
            bad = [i for i in range(len(r)) if i >= len(ms) or ms[i] != r[i]]
            i = bad[0] if bad else 0
            # predicate: nested supports from the whole interval down to the slice itself
            seq = r[i] if i < len(r) else []
            nested = bool(seq) and seq[0] == [g[0], g[-1]] and seq[-1] == [g[i], g[i + 1]] and \
                all(seq[k][0] <= seq[k + 1][0] and seq[k + 1][1] <= seq[k][1] for k in range(len(seq) - 1))
            chk.violation('corr:C11/support', 'support-sequence-differs', {}, one,
                          dict(slice=i, impl=str(seq)[:400], model=str(ms[i] if i < len(ms) else None)[:400]),
                          failing_input=not nested)
        chk.traces += 1
        if len(c['grid']) >= 4:
            keys.append((str(c['grid']), str(c['levels'])))
    chk.record_cases(len(cases), keys, 'support sequences of all slices, compared exactly; non-trivial = >= 4 grid points', [])


def check_balanced(chk, cases, impl=None):
    if impl is None:
        impl = run_impl(impl_balanced, cases, limit=120)
    mres = run_model(11, [(1, [qgrid(c), c['levels']]) for c in cases], nproc=8)
    keys, samples = [], []
    for c, (st, r), mr in zip(cases, impl, mres):
        one = dict(kind=c['kind'], grid=c['grid'], levels=c['levels'])
        chk.count('balanced:' + c['kind'])
        if st != 'ok':
            chk.violation('corr:C11/balanced', 'impl-worker-failed', {'status': st}, one, dict(impl=str(r)), failing_input=False)
            continue
        d = r['direct']
        if d[0] == 'exc':
            chk.violation('oracle:no_exception', 'balanced-exception', {'exc': d[1]}, one, dict(impl=d))
            continue
        if d[0] == 'assert' or sx.is_err(mr):
            if not (d[0] == 'assert' and sx.is_err(mr)):
                chk.violation('corr:C11/balanced', 'balanced-assert-disagreement', {'impl': d[0]}, one,
                              dict(impl=str(d)[:300], model=str(mr)[:300]), failing_input=(c['kind'] in ('full', 'complete')))
            else:
                chk.count('balanced:rejected-by-both')
            continue
        chk.traces += 1
        g = qgrid(c)
        w = d[1]['weights']
        mw = [sx.q(x) for x in mr[0]]
        m = is_complete(c['levels'])
        dyadic = c['kind'] in ('full', 'complete', 'maybe-unbalanced')   # the property speaks about dyadic trees only
        why, what = moments_why(g, w, (2 * m - 1) if (m and m >= 1) else 1) if dyadic else (None, None)
        if dyadic and not why and d[1]['grid'] != g:
            why, what = 'tree grid differs from the given grid', 'grid'
        if why:
            chk.violation('oracle:balanced_consistent', 'balanced-weights-inconsistent', {'what': what}, one,
                          dict(why=why, weights=[float(x) for x in w][:40]))
        if dyadic:
            # verified checker (hypothesis of C11_balanced_weights_consistent) evaluated by the extracted model
            chk.count('checker:keys_in_grid')
            if mr[1] != 1:
                chk.violation('checker:keys_in_grid', 'balanced-keys-not-in-grid', {}, one, dict(model=str(mr)[:300]), failing_input=False)
        if not close(mw, w, tol_of(g)):
            chk.violation('corr:C11/balanced', 'balanced-differs', {}, one,
                          dict(impl=[float(x) for x in w][:40], model=[float(x) for x in mw][:40], property_predicate=why or 'holds'),
                          failing_input=bool(why))
        if r['wrapper'][0] != 'ok' or r['wrapper'][1] != w:
            chk.violation('corr:C11/wrapper', 'balanced-wrapper-differs', {}, one, dict(wrapper=str(r['wrapper'])[:400]),
                          failing_input=False)
        if len(g) >= 5:
            keys.append((str(c['grid']), str(c['levels'])))
        if len(samples) < 2 and len(g) >= 7:
            samples.append(dict(grid=[str(x) for x in g], levels=c['levels'], balanced_weights_impl=[float(x) for x in w],
                                balanced_weights_model=[str(x) for x in mw]))
    chk.record_cases(len(cases), keys, 'balanced extrapolation: random full binary trees (every inner point 0 or 2 children) and '
                     'unbalanced/malformed ones; non-trivial = accepted with >= 5 grid points', samples)


def check_tree(chk, cases, impl=None):
    if impl is None:
        impl = run_impl(impl_tree, cases, limit=120)
    mres = run_model(11, [(2, [qgrid(c), c['levels']]) for c in cases], nproc=8)
    keys = []
    for c, (st, r), mr in zip(cases, impl, mres):
        one = dict(kind=c['kind'], grid=c['grid'], levels=c['levels'])
        if st != 'ok':
            chk.violation('corr:C11/tree', 'impl-worker-failed', {'status': st}, one, dict(impl=str(r)), failing_input=False)
            continue
        if r[0] == 'exc':
            chk.violation('oracle:no_exception', 'tree-exception', {'exc': r[1]}, one, dict(impl=r))
            continue
        if r[0] == 'assert' or sx.is_err(mr):
            if not (r[0] == 'assert' and sx.is_err(mr)):
                chk.violation('corr:C11/tree', 'tree-assert-disagreement', {'impl': r[0]}, one, dict(impl=str(r)[:300], model=str(mr)[:300]),
                              failing_input=c['kind'] in ('valid', 'complete'))
            else:
                chk.count('tree:rejected-by-both')
            continue
        chk.traces += 1
        o = r[1]
        g = qgrid(c)
        why = None
        if c['kind'] in ('valid', 'complete', 'full'):
            if o['g0'] != g or o['l0'] != c['levels']:
                why = 'init_tree does not reproduce the given grid/levels'
        if not why:
            it = iter(o['g1'])
            if not all(any(x == y for y in it) for x in o['g0']):
                why = 'forcing the full tree dropped or reordered given points'
            elif o['one_child']:
                why = 'after force_full_tree_invariant the nodes %s have exactly one child' % [str(x) for x in o['one_child']][:4]
            elif o['g1'] != sorted(set(o['g1'])) and c['kind'] in ('valid', 'complete', 'full'):
                why = 'forced grid is not strictly increasing'
        if why:
            chk.violation('oracle:force_full_tree', 'full-tree-property', {}, one, dict(why=why, forced=[str(x) for x in o['g1']][:40]))
        m0 = [[sx.q(x) for x in mr[0][0]], mr[0][1]]
        m1 = [[sx.q(x) for x in mr[1][0]], mr[1][1]]
        if m0 != [o['g0'], o['l0']] or m1 != [o['g1'], o['l1']]:
            chk.violation('corr:C11/tree', 'tree-differs', {'stage': 'init' if m0 != [o['g0'], o['l0']] else 'force'}, one,
                          dict(impl=dict(g0=[str(x) for x in o['g0']], l0=o['l0'], g1=[str(x) for x in o['g1']], l1=o['l1']),
                               model=dict(g0=[str(x) for x in m0[0]], l0=m0[1], g1=[str(x) for x in m1[0]], l1=m1[1]),
                               property_predicate=why or 'holds'), failing_input=bool(why))
        if len(o['g1']) > len(o['g0']):
            keys.append((str(c['grid']), str(c['levels'])))
    chk.record_cases(len(cases), keys, 'GridBinaryTree.init_tree + force_full_tree_invariant; non-trivial = forcing added points', [])


def check_factory(chk, cases, impl=None):
    if impl is None:
        impl = run_impl(impl_factory, cases, limit=60)
    mres = run_model(11, [(3, [F(*c['a']), F(*c['b']), c['version'], c['m']]) for c in cases], nproc=8)
    keys = []
    for c, (st, r), mr in zip(cases, impl, mres):
        if st != 'ok':
            chk.violation('corr:C11/factory', 'factory-exception', {'exc': r[0] if r else st, 'version': c['version']}, c, dict(impl=str(r)))
            continue
        chk.traces += 1
        a, b = F(*c['a']), F(*c['b'])
        tol = F(1, 10 ** 10) * (abs(b - a))
        mb, mi, mc = sx.q(mr[0]), [sx.q(x) for x in mr[1]], [sx.q(x) for x in mr[2]]
        bad = []
        if abs(mb - r['boundary']) > tol:
            bad.append('boundary')
        if not close(mi, r['inner'], tol):
            bad.append('inner')
        if not close(mc, r['coeff'], F(1, 10 ** 10)):
            bad.append('coefficients')
        # property predicates on the factory: coefficients sum to one; trapezoidal weights of the full grid sum to b-a
        why = None
        if abs(sum(r['coeff']) - 1) > F(1, 10 ** 9):
            why = 'extrapolation coefficients c_{%d,j} sum to %.12g' % (c['m'], float(sum(r['coeff'])))
        elif c['version'] in (1, 2):
            tot = 2 * r['boundary'] + sum(2 ** (l - 1) * w for l, w in zip(range(1, c['m'] + 1), r['inner']))
            if abs(tot - (b - a)) > 100 * tol:
                why = 'weights of the full grid of depth %d sum to %.12g instead of %s' % (c['m'], float(tot), b - a)
        if why and c['version'] != 3:
            chk.violation('oracle:factory', 'factory-weights-inconsistent', {'version': c['version']}, c, dict(why=why))
        if bad:
            chk.violation('corr:C11/factory', 'factory-differs', {'version': c['version'], 'observable': ','.join(bad)}, c,
                          dict(impl=dict(boundary=float(r['boundary']), inner=[float(x) for x in r['inner']], coeff=[float(x) for x in r['coeff']]),
                               model=dict(boundary=float(mb), inner=[float(x) for x in mi], coeff=[float(x) for x in mc]),
                               property_predicate=why or 'holds'), failing_input=bool(why) and c['version'] != 3)
        if c['m'] >= 2:
            keys.append((str(c['a']), str(c['b']), c['version'], c['m']))
    chk.record_cases(len(cases), keys, 'RombergWeightFactory (DEFAULT, LINEAR, SIMPSON) boundary/inner weights and coefficients, '
                     'm<=9; non-trivial = m>=2', [])


def gen_global(rng, tier, wrapper=None):
    wrapper = wrapper or rng.choice(['romberg', 'romberg', 'balanced'])
    dim = rng.choice([1, 2, 2])
    depth = rng.choice([1, 2, 3, 3, 4, 5 if tier == 'quick' else 6])
    t0 = rand_tree(rng, depth, rng.choice([0.5, 0.7, 0.9, 1.0]), full=(wrapper == 'balanced'))
    same = rng.random() < 0.75           # identical level vectors in all dimensions
    trees, depths = [], []
    for d in range(dim):
        if d == 0 or same:
            trees.append(t0); depths.append(depth)
        else:
            dd = rng.choice([1, 2, 3, 4])
            trees.append(rand_tree(rng, dd, 0.8, full=(wrapper == 'balanced'))); depths.append(dd)
    lengths = [F(1), F(2), F(1, 2), F(3), F(1, 4), F(5, 2), F(4)]

    def ivs(scale_from=None):
        out = []
        ls = rng.sample(lengths, dim)     # different lengths in different dimensions
        for d in range(dim):
            a = rng.choice([F(0), F(0), F(1), F(-1), F(1, 2), F(2)])
            out.append([[a.numerator, a.denominator], [ls[d].numerator, ls[d].denominator]])
        return out
    s1 = ivs()
    s2 = []
    for d in range(dim):                   # scaled (and sometimes shifted) interval, never the same length
        L = F(*s1[d][1]) * rng.choice([2, F(1, 2), 3, 4, F(1, 4)])
        a = F(*s1[d][0]) + rng.choice([0, 0, 1, -1])
        s2.append([[a.numerator, a.denominator], [L.numerator, L.denominator]])
    steps = [s1, s2, s1] if rng.random() < 0.8 else [s1, s2, ivs(), s1]
    variant = list(rng.choice([(g, sv, c) for g in (1, 2, 3) for sv in (1, 2) for c in (1, 1, 4)]))
    return dict(kind='global', wrapper=wrapper, dim=dim, trees=[[list(x) for x in t] for t in trees], depths=depths,
                steps=steps, variant=variant)


def check_global(chk, cases, impl=None):
    if impl is None:
        impl = run_impl(impl_global, cases, limit=300)
    mcases, idx = [], []
    for i, c in enumerate(cases):
        for k, step in enumerate(c['steps']):
            for d in range(c['dim']):
                g, l = _grid_of(c['trees'][d], c['depths'][d], step[d])
                if c['wrapper'] == 'balanced':
                    mcases.append((1, [g, l]))
                else:
                    mcases.append((0, [c['variant'][0], c['variant'][1], c['variant'][2], 0, g, l]))
                idx.append((i, k, d, g))
    mres = run_model(11, mcases, nproc=8)
    by_case = {}
    for (i, k, d, g), mr in zip(idx, mres):
        by_case.setdefault(i, []).append((k, d, g, mr))
    keys, samples = [], []
    for i, c in enumerate(cases):
        st, r = impl[i]
        chk.count('global:%s:d=%d' % (c['wrapper'], c['dim']))
        sig = dict(wrapper=c['wrapper'], dim=c['dim'])
        if c['wrapper'] == 'romberg':
            sig.update(grouping=GROUPINGS[c['variant'][0]], slice=SLICES[c['variant'][1]], container=CONTAINERS[c['variant'][2]])
        if st != 'ok':
            chk.violation('corr:C11/global', 'impl-worker-failed', {'status': st}, c, dict(impl=str(r)), failing_input=False)
            continue
        if r[0] != 'ok':
            chk.violation('oracle:no_exception', 'global-grid-exception', dict(sig, exc=r[1] if r[0] == 'exc' else 'AssertionError'), c,
                          dict(impl=str(r)[:400]))
            continue
        chk.traces += 1
        bad = None
        for (k, d, g, mr) in by_case[i]:
            o = r[1][k][d]
            if isinstance(mr, tuple) or sx.is_err(mr):
                chk.violation('corr:C11/global', 'global-model-rejects', dict(sig), dict(c, steps=c['steps'][:k + 1]), dict(model=str(mr)[:300]),
                              failing_input=False)
                bad = 'model'
                break
            if c['wrapper'] == 'balanced':
                mw = [sx.q(x) for x in mr[0]][1:-1]
                pts = g[1:-1]
                consistent = True
            else:
                mw = [sx.q(x) for x in mr[3]]
                pts = g
                consistent = c['variant'][2] == 1 or not any(z >= 2 for z in mr[2])
            a_, b_ = g[0], g[-1]
            tol = tol_of(g)
            diff = []
            if o['coords'] != pts:
                diff.append('coordinates')
            if not close(mw, o['weights'], tol):
                diff.append('weights')
            why = None
            if consistent and len(o['weights']) == len(pts):
                s0 = sum(o['weights'])
                s1 = sum(w * x for w, x in zip(o['weights'], pts))
                if abs(s0 - (b_ - a_)) > 100 * tol:
                    why = ('step %d, dimension %d: the weights on [%s,%s] sum to %.12g instead of %s' % (k, d, a_, b_, float(s0), b_ - a_))
                elif abs(s1 - (b_ * b_ - a_ * a_) / 2) > 100 * tol * (1 + abs(a_) + abs(b_)):
                    why = ('step %d, dimension %d: first moment on [%s,%s] is %.12g instead of %s' % (k, d, a_, b_, float(s1), (b_ * b_ - a_ * a_) / 2))
            elif len(o['weights']) != len(pts):
                why = 'step %d, dimension %d: %d weights for %d points' % (k, d, len(o['weights']), len(pts))
            if diff or why:
                # the history up to and including the failing step is the failing input
                chk.violation('corr:C11/global' if diff else 'oracle:global_weights_consistent', 'global-grid-differs',
                              dict(sig, observable=','.join(diff) or 'property'), dict(c, steps=c['steps'][:k + 1]),
                              dict(step=k, dimension=d, interval=[str(a_), str(b_)], differs=diff, property_predicate=why or 'holds',
                                   impl_weights=[float(w) for w in o['weights']][:40], model_weights=[float(w) for w in mw][:40]),
                              failing_input=bool(why))
                bad = 'diff'
                break
        if bad is None:
            lens = set(tuple(st_[d][1]) for st_ in c['steps'] for d in range(c['dim']))
            if len(lens) >= 2:
                keys.append(json_key(c))
            if len(samples) < 2 and c['dim'] == 2:
                samples.append(dict(wrapper=c['wrapper'], steps=c['steps'], levels=[[0] + [l for _, l in t] + [0] for t in c['trees']],
                                    weights_last_step=[[float(w) for w in dd['weights']] for dd in r[1][-1]]))
    chk.record_cases(len(mcases), keys, 'GlobalRombergGrid / GlobalBalancedRombergGrid histories on one object: set_grid in d=1..2 with '
                     'per-dimension intervals of different lengths and (mostly) identical level vectors, then a scaled domain, then the '
                     'first again; every dimension of every step compared with the model and the oracle; non-trivial = at least two '
                     'different interval lengths met the same object', samples)


def json_key(c):
    import json
    return json.dumps([c['wrapper'], c['dim'], c['trees'], c['steps'], c['variant']], sort_keys=True)


# fixed histories (always run first): the same tree on [0,1] x [1,3]; one object re-used for a scaled interval
GLOBAL_CORPUS = [
    dict(kind='global', wrapper='romberg', dim=2, trees=[[[1, 2], [2, 1], [3, 2]]] * 2, depths=[2, 2],
         steps=[[[[0, 1], [1, 1]], [[1, 1], [2, 1]]]], variant=[1, 1, 1]),
    dict(kind='global', wrapper='romberg', dim=1, trees=[[[1, 1]]], depths=[1],
         steps=[[[[0, 1], [1, 1]]], [[[0, 1], [2, 1]]], [[[0, 1], [1, 1]]]], variant=[2, 1, 1]),
    dict(kind='global', wrapper='balanced', dim=2, trees=[[[1, 2], [2, 1], [3, 2]]] * 2, depths=[2, 2],
         steps=[[[[0, 1], [1, 1]], [[1, 1], [2, 1]]], [[[0, 1], [3, 1]], [[1, 1], [1, 2]]], [[[0, 1], [1, 1]], [[1, 1], [2, 1]]]],
         variant=[1, 1, 1]),
]


# exemplar of the known finding (kept first in the corpus)
SIMPSON_EXEMPLAR = dict(kind='valid', grid=[[0, 1], [1, 2], [1, 1]], levels=[0, 1, 0], variants=[[2, 1, 4, 0]])

CORPUS = [
    SIMPSON_EXEMPLAR,
    dict(kind='valid', grid=[[0, 1], [1, 2], [5, 8], [3, 4], [1, 1]], levels=[0, 1, 3, 2, 0], variants=[list(v) for v in ALL_VARIANTS]),
    dict(kind='valid', grid=[[0, 1], [1, 16], [1, 8], [1, 4], [3, 8], [1, 2], [3, 4], [7, 8], [1, 1]],
         levels=[0, 4, 3, 2, 3, 1, 2, 3, 0], variants=[list(v) for v in ALL_VARIANTS]),
    dict(kind='valid', grid=[[0, 1], [1, 8], [3, 16], [1, 4], [3, 8], [1, 2], [3, 4], [7, 8], [1, 1]],
         levels=[0, 3, 4, 2, 3, 1, 2, 3, 0], variants=[list(v) for v in ALL_VARIANTS]),
    dict(kind='complete', grid=[[k, 8] for k in range(9)], levels=[0, 3, 2, 3, 1, 3, 2, 3, 0], variants=[list(v) for v in ALL_VARIANTS]),
    dict(kind='two-points', grid=[[0, 1], [1, 1]], levels=[0, 0], variants=[list(v) for v in ALL_VARIANTS]),
]


def run(chk):
    import time
    t0 = time.time()
    timing = chk.extra.setdefault('timing_s', {})

    def lap(name):
        nonlocal t0
        timing[name] = round(time.time() - t0, 1)
        t0 = time.time()
    # source-derived model: regenerate coq/Gen/ExtrapolationGen.v from the working tree BEFORE the obligations, so that the
    # C11_gen_* theorems are re-checked against the coefficient / weight classes of Extrapolation.py as they are now
    tinfo = gen.run_translator(chk, 'extrapolation', 'ExtrapolationGen.v')
    chk.coq_obligations()
    gen_problem = gen.gen_diagnosis(chk, tinfo, GEN_CHAIN)
    gen.report(chk, tinfo, gen_problem, 'C11_gen_*')
    lap('coq')
    rng = chk.rng
    # --- sliced Romberg grids
    n = chk.n(400, 6000)
    cases = []
    for c in CORPUS:
        cases.append(dict(c, wrapper=True))
    for i in range(n):
        c = tree_case(rng, chk.tier)
        if rng.random() < 0.15:
            c = malform(rng, c)
        if i < chk.n(80, 300):
            c['variants'] = [list(v) for v in ALL_VARIANTS]
        else:
            c['variants'] = [list(v) for v in rng.sample(ALL_VARIANTS, 6)]
        c['wrapper'] = rng.random() < 0.3 and c['kind'] in ('valid', 'complete')
        cases.append(c)
    # --- support sequences
    sc = [tree_case(rng, chk.tier) for _ in range(chk.n(120, 2000))]
    sc += [malform(rng, tree_case(rng, chk.tier)) for _ in range(chk.n(20, 300))]
    # --- balanced extrapolation
    bc = [dict(kind='full', grid=[[0, 1], [1, 8], [1, 4], [3, 8], [1, 2], [3, 4], [1, 1]], levels=[0, 3, 2, 3, 1, 2, 0]),
          dict(kind='complete', grid=[[k, 8] for k in range(9)], levels=[0, 3, 2, 3, 1, 3, 2, 3, 0])]
    for i in range(chk.n(200, 5000)):
        r = rng.random()
        if r < 0.7:
            c = tree_case(rng, chk.tier, kind='full', full=True)
        elif r < 0.8:
            c = tree_case(rng, chk.tier, kind='complete', full=True)
        elif r < 0.92:
            c = tree_case(rng, chk.tier, kind='valid')
            c['kind'] = 'maybe-unbalanced'
        else:
            c = malform(rng, tree_case(rng, chk.tier, kind='full', full=True))
            if c['kind'] == 'two-points' or max(c['levels']) == 0:
                c = tree_case(rng, chk.tier, kind='full', full=True)
        bc.append(c)
    # --- binary tree
    tc = [tree_case(rng, chk.tier) for _ in range(chk.n(200, 5000))]
    tc += [malform(rng, tree_case(rng, chk.tier)) for _ in range(chk.n(30, 500))]
    # --- weight factory
    fc = []
    for _ in range(chk.n(120, 1500)):
        a, L = interval(rng)
        fc.append(dict(a=[a.numerator, a.denominator], b=[(a + L).numerator, (a + L).denominator],
                       version=rng.choice([1, 1, 2, 3]), m=rng.randrange(0, 10)))
    # --- Grid.py wrappers as histories on one object
    gc = list(GLOBAL_CORPUS) + [gen_global(rng, chk.tier) for _ in range(chk.n(150, 2500))]
    impl = run_all_impl([('sliced', cases), ('support', sc), ('balanced', bc), ('tree', tc), ('factory', fc), ('glob', gc)])
    lap('implementation')
    check_sliced(chk, cases, impl['sliced'])
    lap('sliced')
    check_support(chk, sc, impl['support'])
    check_balanced(chk, bc, impl['balanced'])
    check_tree(chk, tc, impl['tree'])
    check_factory(chk, fc, impl['factory'])
    check_global(chk, gc, impl['glob'])
    # a broken translation / equivalence is a broken proof obligation; reported without failing input only when the
    # correspondence and the oracles above found no concrete input on which the implementation violates the property
    gen.finish_gen(chk, tinfo, gen_problem)
    lap('others')


def replay(chk, rep):
    c = rep['case']
    check = rep.get('check', '')
    sub = chk
    if c.get('kind') == 'global':
        check_global(sub, [c])
    elif 'variants' in c:
        check_sliced(sub, [dict(c, wrapper=True)])
    elif 'version' in c:
        check_factory(sub, [c])
    elif check.endswith('balanced') or 'balanced' in rep.get('kind', ''):
        check_balanced(sub, [c])
    elif 'support' in check:
        check_support(sub, [c])
    elif 'tree' in check or 'tree' in rep.get('kind', ''):
        check_tree(sub, [c])
    else:
        check_sliced(sub, [dict(c, variants=[list(v) for v in ALL_VARIANTS], wrapper=True)])
    bad = 0
    for v in chk.violations:
        print('check=%s kind=%s sig=%s failing_input=%s' % (v['check'], v['kind'], v['sig'], v['failing_input']))
        print('  detail:', str(v['detail'])[:1500])
        bad = 1
    if not bad:
        print('implementation and model agree; property predicate holds')
    return bad

