"""C11: Romberg extrapolation grids give consistent, exact-to-order weights.
Correspondence model (coq/Model/Romberg.v) <-> sparseSpACE/Extrapolation.py (+ Grid.py wrappers), property oracle."""
import itertools
import os
import random
from fractions import Fraction as F
from .. import sx
from .. import gen
from ..impl import run_impl
from ..model import run_model

ASSUMPTIONS = [
    'exact-arithmetic model over Qc; implementation weights are floats: compared with |impl-model| <= 1e-9*(|a|+|b|+(b-a)) '
    '(grid points, levels, container sizes, support sequences are compared exactly)',
    'a failing Python assert is the observable AssertionError <-> model None',
    'Python dictionaries keyed by grid points modelled as key-sorted association lists',
    'Lagrange-interpolating containers and constant-subtraction slices are not modelled (outside the property)',
    'container objects: the attributes left_point / right_point / max_level / minimal_step_width and the slices of every container are '
    'observed after set_grid and compared exactly with the object-level model (Model/RombergContainers.v, entry sub 5)',
    'histories: the model is a pure function of the request; every step of a history on one object is compared with it',
    gen.ASSUMPTION,
]

GEN_CHAIN = ['Base/PyNum.v', 'Gen/ExtrapolationGen.v', 'Proofs/PyNumFacts.v', 'Proofs/GenExtrapolationEq.v',
             'Proofs/GenExtrapolationNormEq.v']

GROUPINGS = {1: 'UNIT', 2: 'GROUPED', 3: 'GROUPED_OPTIMIZED'}
SLICES = {1: 'ROMBERG_DEFAULT', 2: 'TRAPEZOID'}
CONTAINERS = {1: 'ROMBERG_DEFAULT', 4: 'SIMPSON_ROMBERG'}
ALL_VARIANTS = [(g, s, c, f) for g in (1, 2, 3) for s in (1, 2) for c in (1, 4) for f in (0, 1)]


# ----------------------------------------------------------------------------------------------------- generators
def rand_tree(rng, depth, p, full=False):
    """in-order list of (k, level): point k/2^depth of a random dyadic refinement tree (root = level 1)."""
    out = []

    def rec(lo, hi, lev):
        mid = (lo + hi) // 2
        if full:
            kids = lev < depth and rng.random() < p
            if kids:
                rec(lo, mid, lev + 1)
            out.append((mid, lev))
            if kids:
                rec(mid, hi, lev + 1)
            return
        left = lev < depth and rng.random() < p
        right = lev < depth and rng.random() < p
        if left:
            rec(lo, mid, lev + 1)
        out.append((mid, lev))
        if right:
            rec(mid, hi, lev + 1)
    rec(0, 2 ** depth, 1)
    return out


SCALES = [0, 0, 0, 0, 0, -40, -20, -7, 10, 30]     # axis (d): the whole interval scaled by 2^s (compared purely relatively)


def deep_full_tree(rng, depth, p=0.3):
    """full binary tree (0 or 2 children) that certainly reaches level `depth`: a spine of refined nodes, side branches with prob. p"""
    out = []

    def rec(lo, hi, lev, spine):
        mid = (lo + hi) // 2
        kids = lev < depth and (spine or rng.random() < p)
        left_spine = spine and rng.random() < 0.5
        if kids:
            rec(lo, mid, lev + 1, spine and left_spine)
        out.append((mid, lev))
        if kids:
            rec(mid, hi, lev + 1, spine and not left_spine)
    rec(0, 2 ** depth, 1, True)
    return out


def tree_to_case(rng, t, depth, kind):
    a, L = interval(rng)
    grid = [a] + [a + L * k / 2 ** depth for k, _ in t] + [a + L]
    return dict(kind=kind, grid=[[x.numerator, x.denominator] for x in grid], levels=[0] + [l for _, l in t] + [0])


def one_child_points(grid, levels):
    """inner points of a refinement tree (given in order with their levels) that have exactly one child"""
    bad = []

    def rec(lo, hi):          # inner index range [lo, hi)
        if lo >= hi:
            return
        sub = levels[lo:hi]
        i = lo + sub.index(min(sub))
        left, right = i > lo, i + 1 < hi
        if left != right:
            bad.append(grid[i])
        rec(lo, i)
        rec(i + 1, hi)
    rec(1, len(levels) - 1)
    return bad


def interval(rng, scaled=True):
    a = rng.choice([F(0), F(0), F(0), F(-1), F(1, 2), F(2), F(-3, 4), F(5)])
    L = rng.choice([F(1), F(1), F(1), F(2), F(1, 2), F(3), F(1, 4), F(5, 2)])
    if scaled:
        s = rng.choice(SCALES)
        if s:
            sc = F(2) ** s
            a, L = a * sc, L * sc
            if rng.random() < 0.3:          # far from the origin relative to the length (ratio 2^10)
                a = a + L * 1024
    return a, L


def scale_key(a, L):
    import math
    e = math.floor(math.log2(float(L)))
    far = 'far' if L and abs(a) >= 512 * L else 'near'
    return 'len~2^%s,%s' % ('<=-20' if e <= -20 else ('-19..-3' if e < -2 else ('-2..2' if e <= 2 else ('3..19' if e < 20 else '>=20'))), far)


def tree_case(rng, tier, kind=None, full=False, depth=None, p=None):
    maxd = 6 if tier == 'quick' else 7
    if depth is not None:       # sizes beyond the usual ones (axis h): the caller fixes depth and branching probability
        t = rand_tree(rng, depth, p, full=full)
        a, L = interval(rng)
        grid = [a] + [a + L * k / 2 ** depth for k, _ in t] + [a + L]
        levels = [0] + [l for _, l in t] + [0]
        return dict(kind=kind or ('complete' if p >= 1.0 else 'valid'), grid=[[x.numerator, x.denominator] for x in grid], levels=levels)
    depth = rng.choice([1, 2, 2, 3, 3, 4, 4, 5, 5, maxd])
    r = rng.random()
    if kind is None:
        kind = 'complete' if r < 0.12 else 'valid'
    p = 1.0 if kind == 'complete' else rng.choice([0.35, 0.5, 0.65, 0.8, 0.9])
    if kind == 'complete':
        depth = min(depth, 5 if tier == 'quick' else 6)
    t = rand_tree(rng, depth, p, full=full)
    a, L = interval(rng)
    grid = [a] + [a + L * k / 2 ** depth for k, _ in t] + [a + L]
    levels = [0] + [l for _, l in t] + [0]
    return dict(kind=kind, grid=[[x.numerator, x.denominator] for x in grid], levels=levels)


def malform(rng, c):
    """boundary / malformed stream: the implementation must reject (AssertionError) exactly when the model does."""
    c = dict(c, grid=[list(x) for x in c['grid']], levels=list(c['levels']))
    n = len(c['grid'])
    r = rng.random()
    if r < 0.35 and n > 2:
        i = rng.randrange(1, n - 1)
        c['levels'][i] = max(0, c['levels'][i] + rng.choice([-1, 1, 2]))
        c['kind'] = 'bad-level'
    elif r < 0.55 and n > 2:
        i = rng.randrange(1, n - 1)
        lo, hi = F(*c['grid'][i - 1]), F(*c['grid'][i + 1])
        x = lo + (hi - lo) * rng.choice([F(1, 4), F(3, 8), F(3, 4)])
        c['grid'][i] = [x.numerator, x.denominator]
        c['kind'] = 'non-dyadic'
    elif r < 0.7:
        c['levels'][rng.choice([0, -1])] = rng.choice([1, 2])
        c['kind'] = 'boundary-level'
    elif r < 0.85:
        c['grid'] = [c['grid'][0], c['grid'][-1]]
        c['levels'] = [0, 0]
        c['kind'] = 'two-points'
    else:
        if n > 3:
            i = rng.randrange(1, n - 1)
            del c['grid'][i]
            del c['levels'][i]
        c['kind'] = 'point-removed'
    return c


# ----------------------------------------------------------------------------------------------------- implementation
def _where(e):
    import traceback
    repo = os.environ.get('VERIF_REPO', '/repo')
    for fr in reversed(traceback.extract_tb(e.__traceback__)):
        if repo in fr.filename:
            return '%s:%d' % (os.path.relpath(fr.filename, repo), fr.lineno)
    return ''


def _guard(fn):
    try:
        return ['ok', fn()]
    except AssertionError as e:
        return ['assert', _where(e)]
    except Exception as e:  # first-class observable
        return ['exc', type(e).__name__, _where(e), str(e)[:200]]


def _fl(grid):
    out = []
    for n, d in grid:
        x = n / d
        assert F(x) == F(n, d)
        out.append(x)
    return out


def _enum(cls, v):
    return cls(v)


def _opt(x, conv):
    return [] if x is None else [conv(x)]


def _containers(eg):
    """public attributes of the container objects: (left_point, right_point, max_level, minimal_step_width, slices)"""
    return [[_opt(ct.left_point, sx.rat), _opt(ct.right_point, sx.rat), _opt(ct.max_level, int), _opt(ct.minimal_step_width, sx.rat),
             [[sx.rat(sl.left_point), sx.rat(sl.right_point)] for sl in ct.slices],
             [int(l) for l in ct.get_normalized_grid_levels()]] for ct in eg.slice_containers]


def containers_why(conts):
    """property predicate on the implementation alone: every container spans exactly its slices"""
    for i, (lp, rp, ml, ms, sl, nl) in enumerate(conts):
        if not sl:
            return 'container %d has no slices' % i
        n = len(sl)
        if n >= 2 and n & (n - 1) == 0:
            # get_normalized_grid_levels: boundary 0, inner point j gets its POSITIONAL dyadic level (2^(K-l) | j, 2^(K-l+1) does not)
            K = n.bit_length() - 1
            want = [0] + [K - ((j & -j).bit_length() - 1) for j in range(1, n)] + [0]
            if nl != want:
                return 'container %d (%d slices): normalized levels %s are not the positional dyadic levels %s' % (i, n, nl, want)
        if lp != [sl[0][0]] or rp != [sl[-1][1]]:
            return ('container %d: left_point/right_point = %s/%s but its slices span [%s, %s]'
                    % (i, lp[0] if lp else None, rp[0] if rp else None, sl[0][0], sl[-1][1]))
        if any(sl[k][1] != sl[k + 1][0] for k in range(len(sl) - 1)):
            return 'container %d: slices are not adjacent' % i
        if ms != [min(r - l for l, r in sl)]:
            return 'container %d: minimal_step_width %s but the slices have min width %s' % (i, ms, min(r - l for l, r in sl))
    return None


def model_containers(mc):
    return [[[sx.q(x) for x in c[0]], [sx.q(x) for x in c[1]], list(c[2]), [sx.q(x) for x in c[3]],
             [[sx.q(l), sx.q(r)] for l, r in c[4]], list(c[5])] for c in mc]


def impl_sliced(case):
    from sparseSpACE.Extrapolation import ExtrapolationGrid, SliceGrouping, SliceVersion, SliceContainerVersion
    from sparseSpACE.Grid import GlobalRombergGrid
    grid = _fl(case['grid'])
    levels = list(case['levels'])
    res = []
    for (g, s, c, f) in case['variants']:
        def one():
            eg = ExtrapolationGrid(slice_grouping=SliceGrouping(g), slice_version=SliceVersion(s),
                                   container_version=SliceContainerVersion(c), force_balanced_refinement_tree=bool(f))
            eg.set_grid(list(grid), list(levels))
            w = eg.get_weights()
            return dict(grid=[sx.rat(x) for x in eg.get_grid()], levels=[int(l) for l in eg.get_grid_levels()],
                        sizes=[len(ct.slices) for ct in eg.slice_containers], weights=[sx.rat(x) for x in w],
                        containers=_containers(eg))
        res.append(_guard(one))
    # integrate() on a re-used object: set_grid must invalidate the cached weights
    def reuse():
        from sparseSpACE.Function import Polynomial1d
        f = Polynomial1d([3, 2])     # 3 + 2x
        out = []
        other = [grid[0] + (grid[-1] - x) for x in reversed(grid)]
        olev = list(reversed(levels))
        for k, (g, s, c, fb) in enumerate(case['variants']):
            if res[k][0] != 'ok':
                out.append(None)
                continue
            eg = ExtrapolationGrid(slice_grouping=SliceGrouping(g), slice_version=SliceVersion(s),
                                   container_version=SliceContainerVersion(c), force_balanced_refinement_tree=bool(fb))
            eg.set_grid(list(other), list(olev))
            v0 = eg.integrate(f)
            eg.set_grid(list(grid), list(levels))
            v1 = eg.integrate(f)
            out.append([sx.rat(float(v0)), sx.rat(float(v1)), sx.rat(float(eg.get_absolute_error()))])
        return out
    ru = _guard(reuse) if case.get('wrapper') else None
    # Grid.py wrapper with its weight cache: same grid twice, another grid in between
    def wrapper():
        out = []
        for (g, s, c, f) in case['variants']:
            if f:
                out.append(None)
                continue
            gg = GlobalRombergGrid([grid[0]], [grid[-1]], slice_grouping=SliceGrouping(g), slice_version=SliceVersion(s),
                                   container_version=SliceContainerVersion(c))
            gg.initialize_grid()
            w1 = gg.compute_1D_quad_weights(list(grid), grid[0], grid[-1], 0, grid_levels_1D=list(levels))
            # another grid with the same number of points in between: the mirror image
            other = [grid[0] + (grid[-1] - x) for x in reversed(grid)]
            olev = list(reversed(levels))
            w2 = gg.compute_1D_quad_weights(list(other), grid[0], grid[-1], 0, grid_levels_1D=list(olev))
            w3 = gg.compute_1D_quad_weights(list(grid), grid[0], grid[-1], 0, grid_levels_1D=list(levels))
            eg = ExtrapolationGrid(slice_grouping=SliceGrouping(g), slice_version=SliceVersion(s),
                                   container_version=SliceContainerVersion(c))
            eg.set_grid(list(other), list(olev))
            d2 = eg.get_weights()
            out.append([[sx.rat(x) for x in w1], [sx.rat(x) for x in w2], [sx.rat(x) for x in w3], [sx.rat(x) for x in d2]])
        return out
    wr = _guard(wrapper) if case.get('wrapper') else None
    return dict(res=res, wrapper=wr, reuse=ru)


def impl_support(case):
    from sparseSpACE.Extrapolation import ExtrapolationGrid
    grid = _fl(case['grid'])
    eg = ExtrapolationGrid()
    eg.grid = list(grid)
    eg.grid_levels = list(case['levels'])
    return [[[sx.rat(l), sx.rat(r)] for (l, r) in eg.compute_support_sequence(i, i + 1)] for i in range(len(grid) - 1)]


def impl_balanced(case):
    from sparseSpACE.Extrapolation import BalancedExtrapolationGrid
    from sparseSpACE.Grid import GlobalBalancedRombergGrid
    grid = _fl(case['grid'])
    levels = list(case['levels'])

    def one():
        bg = BalancedExtrapolationGrid()
        bg.set_grid(list(grid), list(levels))
        w = bg.get_weights()
        return dict(weights=[sx.rat(float(x)) for x in w], grid=[sx.rat(x) for x in bg.get_grid()],
                    levels=[int(l) for l in bg.get_grid_levels()])

    def wrap():
        gg = GlobalBalancedRombergGrid([grid[0]], [grid[-1]])
        w = gg.compute_1D_quad_weights(list(grid), grid[0], grid[-1], 0, grid_levels_1D=list(levels))
        return [sx.rat(float(x)) for x in w]
    return dict(direct=_guard(one), wrapper=_guard(wrap))


def _grid_of(tree, depth, iv):
    a, L = F(*iv[0]), F(*iv[1])
    return [a] + [a + L * k / 2 ** depth for k, _ in tree] + [a + L], [0] + [l for _, l in tree] + [0]


def impl_global(case):
    """History on ONE GlobalRombergGrid / GlobalBalancedRombergGrid object: set_grid with per-dimension grids
    (same trees, different intervals) step after step; observes the per-dimension coordinates and weights."""
    from sparseSpACE.Extrapolation import SliceGrouping, SliceVersion, SliceContainerVersion
    from sparseSpACE.Grid import GlobalRombergGrid, GlobalBalancedRombergGrid
    dim = case['dim']

    def fl(q):
        x = q.numerator / q.denominator
        assert F(x) == q
        return x

    def run():
        out = []
        gg = None
        for step in case['steps']:
            pts, lvs = [], []
            for d in range(dim):
                g, l = _grid_of(case['trees'][d], case['depths'][d], step[d])
                pts.append([fl(x) for x in g])
                lvs.append(list(l))
            a = [p[0] for p in pts]
            b = [p[-1] for p in pts]
            if gg is None:
                if case['wrapper'] == 'balanced':
                    gg = GlobalBalancedRombergGrid(a, b)
                else:
                    g_, s_, c_ = case['variant']
                    gg = GlobalRombergGrid(a, b, do_cache=bool(case.get('do_cache', True)), slice_grouping=SliceGrouping(g_),
                                           slice_version=SliceVersion(s_), container_version=SliceContainerVersion(c_))
            else:   # the same object re-used for another domain
                gg.a, gg.b = a, b
                import numpy as np
                gg.length = np.array(b) - np.array(a)
            if hasattr(gg, 'initialize_grid') and case['wrapper'] != 'balanced':
                gg.initialize_grid()
            gg.set_grid(pts, lvs)
            out.append([dict(coords=[sx.rat(float(x)) for x in gg.get_coordinates_dim(d)],
                             weights=[sx.rat(float(w)) for w in gg.weights[d]]) for d in range(dim)])
        return out
    return _guard(run)


def impl_tree(case):
    from sparseSpACE.Extrapolation import GridBinaryTree
    grid = _fl(case['grid'])
    levels = list(case['levels'])

    def one():
        t = GridBinaryTree()
        t.init_tree(list(grid), list(levels))
        g0 = [sx.rat(x) for x in t.get_grid()]
        l0 = [int(l) for l in t.get_grid_levels()]
        t.force_full_tree_invariant()
        g1 = [sx.rat(x) for x in t.get_grid()]
        l1 = [int(l) for l in t.get_grid_levels()]
        nodes = t.root_node.get_nodes_using_dfs_in_order()
        one_child = [sx.rat(nd.point) for nd in nodes if nd.has_only_one_child()]
        return dict(g0=g0, l0=l0, g1=g1, l1=l1, one_child=one_child)
    return _guard(one)


def impl_factory(case):
    from sparseSpACE.Extrapolation import RombergWeightFactory, ExtrapolationVersion
    a = case['a'][0] / case['a'][1]
    b = case['b'][0] / case['b'][1]
    fac = RombergWeightFactory.get(a, b, ExtrapolationVersion(case['version']))
    m = case['m']
    return dict(boundary=sx.rat(fac.get_boundary_point_weight(m)),
                inner=[sx.rat(fac.get_inner_point_weight(l, m)) for l in range(1, m + 1)],
                coeff=[sx.rat(fac.get_extrapolation_coefficient(m, j)) for j in range(m + 1)])



# ----------------------------------------------------------------------------------------------------- histories on one object
OBSERVERS = ['weights_twice', 'integrate', 'getters', 'scribble', 'container_getters']


def _mkargs(grid, levels, argtype):
    """the argument objects handed to set_grid: lists, tuples, or a numpy array for the grid (numpy LEVELS raise AttributeError
    '.index' in compute_support_sequence on the unchanged tree: excluded)"""
    if argtype == 'tuple':
        return tuple(grid), tuple(levels)
    if argtype == 'npgrid':
        import numpy as np
        return np.array(grid, dtype=float), list(levels)
    return list(grid), list(levels)


def impl_hist(case):
    """2-4 set_grid requests on ONE (or two interleaved) ExtrapolationGrid object(s), public observer calls between the requests,
    argument objects snapshotted and (sometimes) re-used for another object."""
    from sparseSpACE.Extrapolation import ExtrapolationGrid, SliceGrouping, SliceVersion, SliceContainerVersion
    from sparseSpACE.Function import Polynomial1d
    objs = []
    for (g, s, c, f) in case['variants']:
        objs.append(ExtrapolationGrid(slice_grouping=SliceGrouping(g), slice_version=SliceVersion(s),
                                      container_version=SliceContainerVersion(c), force_balanced_refinement_tree=bool(f)))
    poly = Polynomial1d([3, 2])
    kept = {}          # step index -> argument objects (for re-use by a later step)
    out = []
    for k, st in enumerate(case['steps']):
        eg = objs[st['obj']]
        grid = _fl(st['grid'])
        levels = list(st['levels'])
        if st.get('mutate_args_of') is not None and st['mutate_args_of'] in kept:
            # the caller owns its argument objects: the SAME list objects of an earlier request are edited in place (equal-size
            # change, in-place refinement / coarsening) and handed over again
            ga, la = kept[st['mutate_args_of']]
            ga[:] = grid
            la[:] = levels
        elif st.get('reuse_args_of') is not None and st['reuse_args_of'] in kept:
            ga, la = kept[st['reuse_args_of']]
        else:
            ga, la = _mkargs(grid, levels, st['argtype'])
        kept[k] = (ga, la)

        def one():
            eg.set_grid(ga, la)
            w = eg.get_weights()
            o = dict(weights=[sx.rat(float(x)) for x in w])
            for ob in st['obs']:
                if ob == 'weights_twice':
                    o['w2'] = [sx.rat(float(x)) for x in eg.get_weights()]
                elif ob == 'integrate':
                    v = eg.integrate(poly)
                    o['integrate'] = [sx.rat(float(v)), sx.rat(float(eg.get_absolute_error()))]
                elif ob == 'getters':
                    o['getters'] = [[sx.rat(float(x)) for x in eg.get_grid()], [int(l) for l in eg.get_grid_levels()]]
                elif ob == 'scribble':        # overwrite what get_weights returned
                    for i in range(len(w)):
                        w[i] = 12345.0
                elif ob == 'container_getters':
                    for ct in eg.slice_containers:
                        ct.get_grid(); ct.get_grid_levels(); ct.get_normalized_grid_levels(); ct.size(); ct.to_string()
                    eg.get_step_width(2)
            o['final'] = [sx.rat(float(x)) for x in eg.get_weights()]
            o['grid'] = [sx.rat(float(x)) for x in eg.get_grid()]
            o['levels'] = [int(l) for l in eg.get_grid_levels()]
            o['sizes'] = [len(ct.slices) for ct in eg.slice_containers]
            o['containers'] = _containers(eg)
            return o
        r = _guard(one)
        # argument immutability: the objects handed over must still hold what they held
        try:
            unchanged = [float(x) for x in ga] == grid and [int(x) for x in la] == levels
        except Exception:
            unchanged = False
        out.append(dict(res=r, args_unchanged=unchanged))
    return out


def gen_hist(rng, tier):
    nobj = rng.choice([1, 1, 2])
    variants = [list(rng.choice(ALL_VARIANTS)) for _ in range(nobj)]
    steps = []
    nsteps = rng.choice([2, 3, 3, 4])
    for k in range(nsteps):
        r = rng.random()
        prev = steps[-1] if steps else None
        c = None
        reuse = None
        if prev is not None and r < 0.2:
            # another tree with the SAME number of points: the mirror image of the previous grid
            g = [F(*x) for x in prev['grid']]
            c = dict(kind=prev['kind'], grid=[[y.numerator, y.denominator] for y in [g[0] + (g[-1] - x) for x in reversed(g)]],
                     levels=list(reversed(prev['levels'])))
        elif prev is not None and r < 0.35:
            # the same tree on another interval (scaled / shifted)
            g = [F(*x) for x in prev['grid']]
            a, L = interval(rng)
            c = dict(kind=prev['kind'], grid=[[y.numerator, y.denominator] for y in [a + (x - g[0]) / (g[-1] - g[0]) * L for x in g]],
                     levels=list(prev['levels']))
        elif prev is not None and r < 0.5:
            # exactly the previous request again, with the SAME argument objects (possibly for the other object)
            c = dict(kind=prev['kind'], grid=[list(x) for x in prev['grid']], levels=list(prev['levels']))
            reuse = len(steps) - 1
        else:
            c = tree_case(rng, tier)
            if rng.random() < 0.12:
                c = malform(rng, c)
        obs = [o for o in OBSERVERS if rng.random() < 0.4]
        argtype = steps[reuse]['argtype'] if reuse is not None else rng.choice(['list', 'list', 'tuple', 'npgrid'])
        obj = rng.randrange(nobj)
        mutate = None
        # in-place edit of the argument lists of an earlier request to the same object (only lists can change their size)
        cand = [j for j, st_ in enumerate(steps) if st_['argtype'] == 'list' and st_['obj'] == obj]
        if reuse is None and cand and rng.random() < 0.45:
            mutate = cand[-1]
            argtype = 'list'
            if c['grid'] == steps[mutate]['grid'] and c['levels'] == steps[mutate]['levels']:
                mutate = None
        steps.append(dict(obj=obj, kind=c['kind'], grid=c['grid'], levels=c['levels'],
                          argtype=argtype, obs=obs, reuse_args_of=reuse, mutate_args_of=mutate))
    return dict(kind='hist', variants=variants, steps=steps)


def check_hist(chk, cases, impl=None):
    if impl is None:
        impl = run_impl(impl_hist, cases, limit=300)
    mcases, idx = [], []
    for i, c in enumerate(cases):
        for k, st in enumerate(c['steps']):
            v = c['variants'][st['obj']]
            mcases.append((5, [v[0], v[1], v[2], v[3], [F(*x) for x in st['grid']], st['levels']]))
            idx.append((i, k))
    mres = run_model(11, mcases, nproc=16)
    by = {}
    for (i, k), mr in zip(idx, mres):
        by[(i, k)] = mr
    keys, samples = [], []
    for i, c in enumerate(cases):
        st_, r = impl[i]
        chk.count('hist:objects=%d,steps=%d' % (len(c['variants']), len(c['steps'])))
        if st_ != 'ok':
            chk.violation('corr:C11/history', 'impl-worker-failed', {'status': st_}, c, dict(impl=str(r)), failing_input=False)
            continue
        ok_all = True
        for k, st in enumerate(c['steps']):
            v = tuple(c['variants'][st['obj']])
            hist = dict(c, steps=c['steps'][:k + 1])       # the history up to the failing step replays alone
            mr = by[(i, k)]
            ir = r[k]['res']
            sig = dict(variant_sig(v), step=k, argtype=st['argtype'], reused_args=st.get('reuse_args_of') is not None, edited_in_place=st.get('mutate_args_of') is not None)
            for ob in st['obs']:
                chk.count('hist:observer=' + ob)
            chk.count('hist:argtype=' + st['argtype'] + (',same-objects-again' if st.get('reuse_args_of') is not None else '')
                      + (',same-objects-edited-in-place(%s)' % ('equal-size' if len(st['grid']) == len(c['steps'][st['mutate_args_of']]['grid'])
                                                               else ('refined' if len(st['grid']) > len(c['steps'][st['mutate_args_of']]['grid']) else 'coarsened'))
                         if st.get('mutate_args_of') is not None else ''))
            chk.count('hist:step-kind=' + st['kind'])
            if not r[k]['args_unchanged']:
                chk.violation('oracle:argument_immutable', 'argument-mutated', dict(sig), hist,
                              dict(why='set_grid / get_weights / observers changed the grid or level object handed to set_grid'))
                ok_all = False
                break
            if isinstance(mr, tuple):
                chk.violation('corr:C11/history', 'model-driver-error', {}, hist, dict(model=str(mr)), failing_input=False)
                ok_all = False
                break
            if ir[0] == 'exc':
                chk.violation('oracle:no_exception', 'impl-exception', dict(sig, exc=ir[1]), hist, dict(impl=ir, model=str(mr)[:300]))
                ok_all = False
                break
            if ir[0] == 'assert' or sx.is_err(mr):
                if not (ir[0] == 'assert' and sx.is_err(mr)):
                    fi = st['kind'] in ('valid', 'complete') and ir[0] == 'assert'
                    chk.violation('corr:C11/history', 'assert-disagreement', dict(sig, impl=ir[0]), hist,
                                  dict(impl=str(ir)[:300], model=str(mr)[:300]), failing_input=fi)
                    ok_all = False
                    break
                chk.count('hist:step-rejected-by-both')
                continue
            chk.traces += 1
            o = ir[1]
            mgrid = [sx.q(x) for x in mr[0]]
            mw = [sx.q(x) for x in mr[3]]
            sig = dict(variant_sig(v, o['sizes']), step=k, argtype=st['argtype'], reused_args=st.get('reuse_args_of') is not None, edited_in_place=st.get('mutate_args_of') is not None)
            tol = tol_of(o['grid'])
            valid = st['kind'] in ('valid', 'complete')
            consistent = sig['container'] == 'ROMBERG_DEFAULT' or not sig['multi_slice_container']
            why, what = (None, None)
            if valid and consistent:
                why, what = moments_why(o['grid'], o['final'], sliced_degree(o['levels'], v))
            if not why and valid:
                cw = containers_why(o['containers'])
                if cw:
                    why, what = cw, 'containers'
            # observers must not change the state, and must agree with each other
            if not why and o['final'] != o['weights']:
                why, what = 'get_weights after the observer calls %s differs from get_weights before them' % st['obs'], 'observer'
            if not why and 'w2' in o and o['w2'] != o['weights']:
                why, what = 'two consecutive get_weights calls differ', 'observer'
            if not why and 'getters' in o and (o['getters'][0] != o['grid'] or o['getters'][1] != o['levels']):
                why, what = 'get_grid / get_grid_levels changed between two calls', 'observer'
            if not why and 'integrate' in o and valid and consistent:
                a_, b_ = o['grid'][0], o['grid'][-1]
                exact = 3 * (b_ - a_) + (b_ * b_ - a_ * a_)
                scale = 3 + 2 * max(abs(a_), abs(b_))
                if abs(o['integrate'][0] - exact) > 100 * tol * scale or abs(o['integrate'][1] - abs(o['integrate'][0] - exact)) > 100 * tol * scale:
                    why, what = ('integrate(3+2x) = %.15g (reported error %.3g) but the integral over [%s,%s] is %s'
                                 % (float(o['integrate'][0]), float(o['integrate'][1]), a_, b_, exact)), 'integrate'
            diff = []
            if mgrid != o['grid']:
                diff.append('grid')
            if mr[1] != o['levels']:
                diff.append('levels')
            if mr[2] != o['sizes']:
                diff.append('container sizes')
            if not close(mw, o['final'], tol):
                diff.append('weights')
            if model_containers(mr[5]) != o['containers']:
                diff.append('container attributes')
            if why:
                chk.violation('oracle:history_consistent', 'history-step-inconsistent', dict(sig, what=what), hist,
                              dict(why=why, weights=[float(w) for w in o['final']][:40], model_weights=[float(w) for w in mw][:40]))
            if diff:
                chk.violation('corr:C11/history', 'history-step-differs', dict(sig, observable=','.join(diff)), hist,
                              dict(differs=diff, property_predicate=why or 'holds on this step',
                                   impl=dict(grid=[str(x) for x in o['grid']][:40], sizes=o['sizes'][:40], weights=[float(w) for w in o['final']][:40]),
                                   model=dict(grid=[str(x) for x in mgrid][:40], sizes=mr[2][:40], weights=[float(w) for w in mw][:40])),
                              failing_input=bool(why))
            if why or diff:
                ok_all = False
                break
        if ok_all:
            keys.append(json_key_any(c))
            if len(samples) < 2 and len(c['steps']) >= 3:
                samples.append(dict(variants=[variant_sig(tuple(v)) for v in c['variants']],
                                    steps=[dict(obj=st['obj'], points=len(st['grid']), kind=st['kind'], argtype=st['argtype'], observers=st['obs'],
                                                same_argument_objects_as_step=st.get('reuse_args_of')) for st in c['steps']]))
    chk.record_cases(len(mcases), keys, 'histories on ONE ExtrapolationGrid object (or two interleaved ones): 2-4 set_grid requests with different '
                     'trees / the mirrored tree of equal size / the same tree on another interval / the same argument objects again / the same list '
                     'objects EDITED IN PLACE by the caller (equal-size change, in-place refinement, in-place coarsening) / malformed '
                     'requests, lists / tuples / numpy grid arrays, public observer calls between the requests (get_weights twice, integrate, '
                     'getters, container getters, overwriting the returned weight list); every step compared with the model (containers '
                     'with their attributes included) and the oracle, arguments checked for immutability; non-trivial = whole history agreed',
                     samples)


def json_key_any(c):
    import json
    return json.dumps(c, sort_keys=True, default=str)


# ----------------------------------------------------------------------------------------------------- shared state: tree singleton, balanced grid re-use
def impl_shared(case):
    """ONE process, objects alive side by side: a BalancedExtrapolationGrid object re-used for several trees, GridBinaryTree wrappers
    (the class is a singleton: every wrapper shares one instance) and an ExtrapolationGrid with forced balancing (uses the singleton too)."""
    from sparseSpACE.Extrapolation import (BalancedExtrapolationGrid, GridBinaryTree, ExtrapolationGrid, SliceGrouping, SliceVersion,
                                           SliceContainerVersion)
    bg = BalancedExtrapolationGrid()
    trees = [GridBinaryTree(), GridBinaryTree()]
    g_, s_, c_ = case['variant']
    eg = ExtrapolationGrid(slice_grouping=SliceGrouping(g_), slice_version=SliceVersion(s_), container_version=SliceContainerVersion(c_),
                           force_balanced_refinement_tree=True)
    trees[0].instance.use_caching = bool(case.get('use_caching'))
    out = []
    try:
        for st in case['steps']:
            grid = _fl(st['grid'])
            levels = list(st['levels'])
            ga, la = list(grid), list(levels)

            def one():
                if st['op'] == 'balanced':
                    bg.set_grid(ga, la)
                    w = bg.get_weights()
                    w2 = bg.get_weights()
                    return dict(weights=[sx.rat(float(x)) for x in w], again=[sx.rat(float(x)) for x in w2],
                                grid=[sx.rat(float(x)) for x in bg.get_grid()], levels=[int(l) for l in bg.get_grid_levels()])
                if st['op'] == 'tree':
                    t = trees[st['wrapper']]
                    t.init_tree(ga, la)
                    if case.get('use_caching'):
                        # with the (private, non-default) use_caching flag get_grid() BEFORE force_full_tree_invariant caches the
                        # unforced grid and the forcing becomes a no-op on the unchanged tree: the getters are not called here
                        g0, l0 = None, None
                    else:
                        g0 = [sx.rat(float(x)) for x in t.get_grid()]
                        l0 = [int(l) for l in t.get_grid_levels()]
                    t.force_full_tree_invariant()
                    if st.get('force_twice'):
                        t.force_full_tree_invariant()
                    other = trees[1 - st['wrapper']]
                    return dict(g0=g0, l0=l0, g1=[sx.rat(float(x)) for x in t.get_grid()], l1=[int(l) for l in t.get_grid_levels()],
                                other_g1=[sx.rat(float(x)) for x in other.get_grid()])
                eg.set_grid(ga, la)
                w = eg.get_weights()
                return dict(weights=[sx.rat(float(x)) for x in w], grid=[sx.rat(float(x)) for x in eg.get_grid()],
                            levels=[int(l) for l in eg.get_grid_levels()], sizes=[len(ct.slices) for ct in eg.slice_containers],
                            containers=_containers(eg))
            r = _guard(one)
            out.append(dict(res=r, args_unchanged=(ga == grid and la == levels)))
    finally:
        trees[0].instance.use_caching = False
    return out


def gen_shared(rng, tier):
    steps = []
    for k in range(rng.choice([3, 4, 5, 6])):
        op = rng.choice(['balanced', 'tree', 'tree', 'force_eg'])
        if op == 'balanced':
            c = tree_case(rng, tier, kind='full', full=True) if rng.random() < 0.85 else tree_case(rng, tier, kind='valid')
            if c['kind'] == 'valid':
                c['kind'] = 'maybe-unbalanced'
        else:
            c = tree_case(rng, tier)
        same_op = [st for st in steps if st['op'] == op]
        if same_op and rng.random() < 0.4:
            # the mirrored tree of the last request to the SAME object: same number of points, same interval, other tree
            # (or the identical request again when the tree is symmetric)
            prev = same_op[-1]
            pg = [F(*x) for x in prev['grid']]
            c = dict(kind=prev['kind'], grid=[[y.numerator, y.denominator] for y in [pg[0] + (pg[-1] - x) for x in reversed(pg)]],
                     levels=list(reversed(prev['levels'])))
        if len(c['grid']) < 3:
            c = tree_case(rng, tier, kind='full', full=True)
        steps.append(dict(op=op, kind=c['kind'], grid=c['grid'], levels=c['levels'], wrapper=rng.randrange(2), force_twice=rng.random() < 0.3))
    return dict(kind='shared', variant=list(rng.choice([(g, sv, c) for g in (1, 2, 3) for sv in (1, 2) for c in (1, 1, 4)])),
                use_caching=rng.random() < 0.3, steps=steps)


def check_shared(chk, cases, impl=None):
    if impl is None:
        impl = run_impl(impl_shared, cases, limit=300)
    mcases, idx = [], []
    for i, c in enumerate(cases):
        for k, st in enumerate(c['steps']):
            g = [F(*x) for x in st['grid']]
            if st['op'] == 'balanced':
                mcases.append((1, [g, st['levels']]))
            elif st['op'] == 'tree':
                mcases.append((2, [g, st['levels']]))
            else:
                v = c['variant']
                mcases.append((5, [v[0], v[1], v[2], 1, g, st['levels']]))
            idx.append((i, k))
    mres = run_model(11, mcases, nproc=16)
    by = dict(zip(idx, mres))
    keys = []
    for i, c in enumerate(cases):
        st_, r = impl[i]
        chk.count('shared:use_caching=%s' % bool(c.get('use_caching')))
        if st_ != 'ok':
            chk.violation('corr:C11/shared', 'impl-worker-failed', {'status': st_}, c, dict(impl=str(r)), failing_input=False)
            continue
        good = True
        for k, st in enumerate(c['steps']):
            hist = dict(c, steps=c['steps'][:k + 1])
            mr = by[(i, k)]
            ir = r[k]['res']
            sig = dict(op=st['op'], step=k, use_caching=bool(c.get('use_caching')))
            chk.count('shared:op=' + st['op'])
            g = [F(*x) for x in st['grid']]
            if not r[k]['args_unchanged']:
                chk.violation('oracle:argument_immutable', 'argument-mutated', dict(sig), hist, dict(why='argument lists changed'))
                good = False
                break
            if isinstance(mr, tuple):
                chk.violation('corr:C11/shared', 'model-driver-error', {}, hist, dict(model=str(mr)), failing_input=False)
                good = False
                break
            dyadic = st['kind'] in ('valid', 'complete', 'full', 'maybe-unbalanced')
            if ir[0] == 'exc':
                chk.violation('oracle:no_exception', 'shared-exception', dict(sig, exc=ir[1]), hist, dict(impl=ir, model=str(mr)[:300]))
                good = False
                break
            if ir[0] == 'assert' or sx.is_err(mr):
                if not (ir[0] == 'assert' and sx.is_err(mr)):
                    chk.violation('corr:C11/shared', 'assert-disagreement', dict(sig, impl=ir[0]), hist,
                                  dict(impl=str(ir)[:300], model=str(mr)[:300]),
                                  failing_input=(ir[0] == 'assert' and st['kind'] in ('valid', 'complete', 'full') and st['op'] != 'balanced')
                                  or (ir[0] == 'assert' and st['op'] == 'balanced' and st['kind'] in ('full', 'complete')))
                    good = False
                    break
                chk.count('shared:step-rejected-by-both')
                continue
            chk.traces += 1
            o = ir[1]
            why = None
            diff = []
            if st['op'] == 'balanced':
                mw = [sx.q(x) for x in mr[0]]
                m = is_complete(st['levels'])
                if dyadic:
                    why, _ = moments_why(g, o['weights'], (2 * m - 1) if (m and m >= 1) else 1)
                if not why and o['again'] != o['weights']:
                    why = 'two consecutive get_weights calls differ'
                if not why and dyadic and o['grid'] != g:
                    why = 'tree grid differs from the given grid'
                if not close(mw, o['weights'], tol_of(g)):
                    diff.append('weights')
            elif st['op'] == 'tree':
                if o['g0'] is not None and dyadic and st['kind'] != 'maybe-unbalanced' and (o['g0'] != g or o['l0'] != st['levels']):
                    why = 'init_tree does not reproduce the given grid/levels'
                if not why and dyadic:
                    it = iter(o['g1'])
                    if not all(any(x == y for y in it) for x in g):
                        why = 'forcing the full tree dropped or reordered given points'
                m0 = [[sx.q(x) for x in mr[0][0]], mr[0][1]]
                m1 = [[sx.q(x) for x in mr[1][0]], mr[1][1]]
                if o['g0'] is not None and m0 != [o['g0'], o['l0']]:
                    diff.append('init_tree grid/levels')
                if m1 != [o['g1'], o['l1']]:
                    diff.append('forced grid/levels')
                if o['other_g1'] != o['g1']:
                    diff.append('second wrapper of the singleton sees another tree')
            else:
                mw = [sx.q(x) for x in mr[3]]
                consistent = c['variant'][2] == 1 or not any(z >= 2 for z in o['sizes'])
                if dyadic and consistent:
                    why, _ = moments_why(o['grid'], o['weights'], 1)
                if not why and dyadic:
                    why = containers_why(o['containers'])
                if [sx.q(x) for x in mr[0]] != o['grid'] or mr[1] != o['levels']:
                    diff.append('forced grid/levels')
                if mr[2] != o['sizes']:
                    diff.append('container sizes')
                if not close(mw, o['weights'], tol_of(o['grid'])):
                    diff.append('weights')
                if model_containers(mr[5]) != o['containers']:
                    diff.append('container attributes')
            if why:
                chk.violation('oracle:shared_state', 'shared-step-inconsistent', dict(sig), hist, dict(why=why))
            if diff:
                chk.violation('corr:C11/shared', 'shared-step-differs', dict(sig, observable=','.join(diff)), hist,
                              dict(differs=diff, property_predicate=why or 'holds on this step', impl=str(o)[:600], model=str(mr)[:600]),
                              failing_input=bool(why))
            if why or diff:
                good = False
                break
        if good:
            keys.append(json_key_any(c))
    chk.record_cases(len(mcases), keys, 'objects alive side by side in one process: one BalancedExtrapolationGrid re-used for several trees, two '
                     'GridBinaryTree wrappers (singleton instance; use_caching off/on), an ExtrapolationGrid with forced balancing; 3-6 '
                     'interleaved requests, each compared with the model (a pure function of the request) and the oracle; '
                     'non-trivial = whole history agreed', [])


# ----------------------------------------------------------------------------------------------------- returned-object aliasing of the wrappers
def impl_alias(case):
    """overwrite what compute_1D_quad_weights returned, ask again for the same grid: the answer must not contain the sentinel"""
    from sparseSpACE.Extrapolation import SliceGrouping, SliceVersion, SliceContainerVersion
    from sparseSpACE.Grid import GlobalRombergGrid, GlobalBalancedRombergGrid
    grid = _fl(case['grid'])
    levels = list(case['levels'])
    if case['wrapper'] == 'balanced':
        gg = GlobalBalancedRombergGrid([grid[0]], [grid[-1]])
    else:
        g, s, c = case['variant']
        gg = GlobalRombergGrid([grid[0]], [grid[-1]], do_cache=bool(case['do_cache']), slice_grouping=SliceGrouping(g),
                               slice_version=SliceVersion(s), container_version=SliceContainerVersion(c))

    def run():
        w1 = gg.compute_1D_quad_weights(list(grid), grid[0], grid[-1], 0, grid_levels_1D=list(levels))
        first = [sx.rat(float(x)) for x in w1]
        for i in range(len(w1)):
            w1[i] = 12345.0
        w2 = gg.compute_1D_quad_weights(list(grid), grid[0], grid[-1], 0, grid_levels_1D=list(levels))
        return dict(first=first, second=[sx.rat(float(x)) for x in w2])
    return _guard(run)


def check_alias(chk, cases, impl=None):
    if impl is None:
        impl = run_impl(impl_alias, cases, limit=120)
    keys = []
    for c, (st, r) in zip(cases, impl):
        chk.count('alias:%s,do_cache=%s' % (c['wrapper'], c.get('do_cache')))
        sig = dict(wrapper=c['wrapper'], do_cache=bool(c.get('do_cache')))
        if st != 'ok' or r[0] != 'ok':
            if c['kind'] in ('valid', 'complete', 'full'):
                chk.violation('oracle:no_exception', 'alias-exception', dict(sig), c, dict(impl=str(r)[:300]))
            continue
        chk.traces += 1
        o = r[1]
        if o['second'] != o['first']:
            chk.violation('oracle:result_not_aliased', 'result-aliases-internal-state', dict(sig), c,
                          dict(why='the list returned by compute_1D_quad_weights is the cache entry itself: after the caller overwrote it, the '
                                   'next call for the same grid returns the overwritten values (sum %.6g instead of %s)'
                                   % (float(sum(o['second'])), F(*c['grid'][-1]) - F(*c['grid'][0])),
                               first=[float(x) for x in o['first']][:12], second=[float(x) for x in o['second']][:12]))
        keys.append(json_key_any(c))
    chk.record_cases(len(cases), keys, 'returned-object aliasing: the weight list returned by the Grid.py wrappers is overwritten with a sentinel and '
                     'the same grid is requested again (do_cache on/off)', [])


IMPL = {}


def impl_any(tagged):
    part, case = tagged
    return IMPL[part](case)


IMPL.update(sliced=impl_sliced, support=impl_support, balanced=impl_balanced, tree=impl_tree, factory=impl_factory,
            glob=impl_global, hist=impl_hist, shared=impl_shared, alias=impl_alias)


def run_all_impl(parts):
    """one worker pool for all parts (importing the library dominates under load)"""
    tagged = [(name, c) for name, cases in parts for c in cases]
    res = run_impl(impl_any, tagged, limit=300)
    out, k = {}, 0
    for name, cases in parts:
        out[name] = res[k:k + len(cases)]
        k += len(cases)
    return out


# ----------------------------------------------------------------------------------------------------- oracle
def tol_of(grid):
    a, b = grid[0], grid[-1]
    return F(1, 10 ** 9) * (abs(a) + abs(b) + (b - a))


def is_complete(levels):
    """complete dyadic grid of depth m: returns m or None"""
    n = len(levels) - 1
    if n < 1 or n & (n - 1):
        return None
    m = n.bit_length() - 1
    want = [0] + [m - ((k & -k).bit_length() - 1) for k in range(1, n)] + [0]
    return m if list(levels) == want else None


def moments_why(grid, weights, maxdeg):
    """property predicate on implementation output: sum of weights, first moment, monomials up to maxdeg."""
    a, b = grid[0], grid[-1]
    if len(weights) != len(grid):
        return 'number of weights %d != number of grid points %d' % (len(weights), len(grid)), 'length'
    scale = max(abs(a), abs(b))          # purely relative: no absolute constants (tiny / huge / far-away intervals)
    for k in range(0, maxdeg + 1):
        got = sum(w * x ** k for w, x in zip(weights, grid))
        want = (b ** (k + 1) - a ** (k + 1)) / (k + 1)
        if abs(got - want) > F(4, 10 ** 9) * (b - a) * scale ** k * (1 + (abs(a) + abs(b)) / (b - a)):
            what = 'sum' if k == 0 else ('first-moment' if k == 1 else 'degree')
            return ('sum_i w_i x_i^%d = %s (%.12g) but the integral of x^%d over [%s,%s] is %s (%.12g)'
                    % (k, got, float(got), k, a, b, want, float(want))), what
    return None, None


def sliced_degree(case_levels, variant):
    g, s, c, f = variant
    m = is_complete(case_levels)
    if m is None or c != 1:
        return 1
    if s == 1 or (g != 1 and m >= 1):
        return 2 * m + 1
    return 1


def variant_sig(v, sizes=None):
    g, s, c, f = v
    sig = dict(grouping=GROUPINGS[g], slice=SLICES[s], container=CONTAINERS[c], force=bool(f))
    if sizes is not None:
        sig['multi_slice_container'] = any(z >= 2 for z in sizes)
    return sig


def close(xs, ys, tol):
    return len(xs) == len(ys) and all(abs(x - y) <= tol for x, y in zip(xs, ys))


def qgrid(case):
    return [F(n, d) for n, d in case['grid']]


# ----------------------------------------------------------------------------------------------------- check parts
def check_sliced(chk, cases, impl=None):
    if impl is None:
        impl = run_impl(impl_sliced, cases, limit=300)
    mcases, idx = [], []
    for i, c in enumerate(cases):
        for j, v in enumerate(c['variants']):
            mcases.append((5, [v[0], v[1], v[2], v[3], qgrid(c), c['levels']]))     # sub 5: the pipeline on container OBJECTS
            idx.append((i, j))
    mres = run_model(11, mcases, nproc=16)
    keys, samples = [], []
    for (i, j), mr in zip(idx, mres):
        c = cases[i]
        v = tuple(c['variants'][j])
        st, r = impl[i]
        one = dict(kind=c['kind'], grid=c['grid'], levels=c['levels'], variants=[list(v)])
        chk.count('sliced:' + c['kind'])
        if st != 'ok':
            chk.violation('corr:C11/sliced', 'impl-worker-failed', {'status': st}, one, dict(impl=str(r)), failing_input=False)
            continue
        ir = r['res'][j]
        sig = variant_sig(v)
        if isinstance(mr, tuple):
            chk.violation('corr:C11/sliced', 'model-driver-error', {}, one, dict(model=str(mr)), failing_input=False)
            continue
        if ir[0] == 'exc':
            chk.violation('oracle:no_exception', 'impl-exception', dict(sig, exc=ir[1]), one, dict(impl=ir, model=str(mr)[:300]))
            continue
        if ir[0] == 'assert' or sx.is_err(mr):
            if ir[0] == 'assert' and sx.is_err(mr):
                chk.count('sliced:rejected-by-both')
            else:
                # the property's predicate: a valid dyadic tree must be accepted
                fi = c['kind'] in ('valid', 'complete') and ir[0] == 'assert'
                chk.violation('corr:C11/sliced', 'assert-disagreement', dict(sig, impl=ir[0]), one,
                              dict(impl=str(ir)[:300], model=str(mr)[:300]), failing_input=fi)
            continue
        chk.traces += 1
        o = ir[1]
        mgrid = [sx.q(x) for x in mr[0]]
        mw = [sx.q(x) for x in mr[3]]
        sig = variant_sig(v, o['sizes'])
        tol = tol_of(o['grid'])
        diff = []
        if mgrid != o['grid']:
            diff.append('grid')
        if mr[1] != o['levels']:
            diff.append('levels')
        if mr[2] != o['sizes']:
            diff.append('container sizes')
        if not close(mw, o['weights'], tol):
            diff.append('weights')
        # container objects: attributes left_point / right_point / max_level / minimal_step_width and the slices, compared exactly
        chk.count('containers:max_size=%s' % ('1' if max(o['sizes']) == 1 else ('2..4' if max(o['sizes']) <= 4 else ('8..32' if max(o['sizes']) <= 32 else '>=64'))))
        cwhy = containers_why(o['containers'])
        if cwhy:
            chk.violation('oracle:container_endpoints', 'container-attributes-inconsistent', dict(sig), one,
                          dict(why=cwhy, containers=[[str(x) for x in ct[0] + ct[1]] + [len(ct[4]), ct[5]] for ct in o['containers']][:20]))
        if model_containers(mr[5]) != o['containers']:
            diff.append('container attributes')
        # verified checker: the keys of the model's weight dictionary are exactly the grid points (weights aligned with the grid)
        chk.count('checker:dict_keys_equal_grid')
        if [sx.q(x) for x in mr[4]] != mgrid:
            chk.violation('checker:dict_keys_equal_grid', 'dict-keys-not-grid', dict(sig), one,
                          dict(keys=[str(sx.q(x)) for x in mr[4]][:40], grid=[str(x) for x in mgrid][:40]), failing_input=False)
        why, what = moments_why(o['grid'], o['weights'], sliced_degree(o['levels'], v) if c['kind'] in ('valid', 'complete') else 1)
        if c['kind'] in ('valid', 'complete') and not v[3] and o['grid'] != qgrid(c):
            why, what = 'grid changed without forced balancing', 'grid'
        if v[3] and c['kind'] in ('valid', 'complete'):
            given = qgrid(c)
            if not set(given) <= set(o['grid']) or o['grid'] != sorted(set(o['grid'])):
                why, what = 'forced balancing dropped or reordered points', 'grid'
            elif not why:
                oc = one_child_points(o['grid'], o['levels'])
                if oc:
                    why, what = 'after forced balancing the points %s still have exactly one child' % [str(x) for x in oc[:4]], 'grid'
        if why:
            chk.violation('oracle:weights_consistent', 'sliced-weights-inconsistent', dict(sig, what=what), one,
                          dict(why=why, weights=[str(w) for w in o['weights']][:40], model_weights=[str(w) for w in mw][:40]))
        if diff:
            chk.violation('corr:C11/sliced', 'sliced-differs', dict(sig, observable=','.join(diff)), one,
                          dict(differs=diff, property_predicate=why or 'holds on this case',
                               impl=dict(grid=[str(x) for x in o['grid']][:40], levels=o['levels'][:40], sizes=o['sizes'][:40],
                                         weights=[float(w) for w in o['weights']][:40]),
                               model=dict(grid=[str(x) for x in mgrid][:40], levels=mr[1][:40], sizes=mr[2][:40],
                                          weights=[float(w) for w in mw][:40])),
                          failing_input=bool(why))
        # Grid.py wrapper (weight cache) must return exactly what the extrapolation grid returns
        if r['wrapper'] is not None and not v[3]:
            if r['wrapper'][0] != 'ok':
                chk.violation('corr:C11/wrapper', 'wrapper-exception', dict(sig), one, dict(impl=str(r['wrapper'])[:400]))
            else:
                w1, w2, w3, d2 = r['wrapper'][1][j]
                if w1 != o['weights'] or w3 != o['weights'] or w2 != d2:
                    why2, _ = moments_why(o['grid'], w3, 1)
                    if not why2:
                        why2, _ = moments_why(o['grid'], w1, 1)
                    if not why2:   # the wrapper called on the mirror image of the grid
                        a_, b_ = o['grid'][0], o['grid'][-1]
                        why2, _ = moments_why([a_ + (b_ - x) for x in reversed(o['grid'])], w2, 1)
                        if why2:
                            why2 = 'GlobalRombergGrid.compute_1D_quad_weights on the mirrored grid (after a call on the grid): ' + why2
                    chk.violation('corr:C11/wrapper', 'wrapper-differs', dict(sig), one,
                                  dict(direct=[float(x) for x in o['weights']][:40], first=[float(x) for x in w1][:40],
                                       cached=[float(x) for x in w3][:40], mirrored_wrapper=[float(x) for x in w2][:40],
                                       mirrored_direct=[float(x) for x in d2][:40], property_predicate=why2), failing_input=bool(why2))
        # integrate(3 + 2x) on an object that was used for the mirrored grid before: must equal sum_i w_i f(x_i), and the integral
        if r.get('reuse') is not None:
            if r['reuse'][0] != 'ok':
                chk.violation('corr:C11/integrate', 'integrate-exception', dict(sig), one, dict(impl=str(r['reuse'])[:400]))
            else:
                v0, v1, err = r['reuse'][1][j]
                a_, b_ = o['grid'][0], o['grid'][-1]
                want = sum(w * (3 + 2 * x) for w, x in zip(o['weights'], o['grid']))
                exact = 3 * (b_ - a_) + (b_ * b_ - a_ * a_)
                consistent = sig['container'] == 'ROMBERG_DEFAULT' or not sig['multi_slice_container']
                fs = 3 + 2 * max(abs(a_), abs(b_))          # magnitude of the integrand 3 + 2x on the interval (relative comparison)
                bad_corr = abs(v1 - want) > 10 * tol * fs
                bad_prop = consistent and (abs(v1 - exact) > 100 * tol * fs or abs(v0 - exact) > 100 * tol * fs
                                           or abs(err - abs(v1 - exact)) > 100 * tol * fs)
                if bad_corr or bad_prop:
                    chk.violation('corr:C11/integrate' if not bad_prop else 'oracle:integrate_linear', 'integrate-differs', dict(sig), one,
                                  dict(integrate=float(v1), sum_w_f=float(want), exact=float(exact), first_call=float(v0), reported_error=float(err)),
                                  failing_input=bool(bad_prop))
        if len(o['grid']) >= 4:
            keys.append((str(c['grid']), str(c['levels']), v))
        if len(samples) < 3 and len(o['grid']) >= 6 and v[0] != 1:
            samples.append(dict(grid=[str(x) for x in qgrid(c)], levels=c['levels'], variant=variant_sig(v),
                                container_sizes=o['sizes'], weights_impl=[float(w) for w in o['weights']],
                                weights_model=[str(w) for w in mw]))
    chk.record_cases(len(mcases), keys,
                     'sliced Romberg: random dyadic refinement trees (depth<=7, 3..129 points; a few with 200..1025 points incl. the complete '
                     'grid of depth 10; complete grids with one point removed), 8 offsets x 8 lengths x 6 binary scales, x grouping x slice '
                     'version x container version x forced balancing, plus malformed inputs; compared: grid, levels, container sizes, the '
                     'container objects with their attributes, weights; non-trivial = accepted by both sides with >= 4 grid points; '
                     'distinct by (grid, levels, variant)', samples)


def check_support(chk, cases, impl=None):
    if impl is None:
        impl = run_impl(impl_support, cases, limit=120)
    mres = run_model(11, [(4, [qgrid(c), c['levels']]) for c in cases], nproc=8)
    keys = []
    for c, (st, r), mr in zip(cases, impl, mres):
        one = dict(kind=c['kind'], grid=c['grid'], levels=c['levels'])
        if st != 'ok':
            chk.violation('corr:C11/support', 'support-exception', {'exc': r[0] if r else st}, one, dict(impl=str(r)))
            continue
        ms = [[[sx.q(l), sx.q(rr)] for l, rr in seq] for seq in mr]
        if ms != r:
            g = qgrid(c)
            bad = [i for i in range(len(r)) if i >= len(ms) or ms[i] != r[i]]
            i = bad[0] if bad else 0
            # predicate: nested supports from the whole interval down to the slice itself
            seq = r[i] if i < len(r) else []
            nested = bool(seq) and seq[0] == [g[0], g[-1]] and seq[-1] == [g[i], g[i + 1]] and \
                all(seq[k][0] <= seq[k + 1][0] and seq[k + 1][1] <= seq[k][1] for k in range(len(seq) - 1))
            chk.violation('corr:C11/support', 'support-sequence-differs', {}, one,
                          dict(slice=i, impl=str(seq)[:400], model=str(ms[i] if i < len(ms) else None)[:400]),
                          failing_input=not nested)
        chk.traces += 1
        if len(c['grid']) >= 4:
            keys.append((str(c['grid']), str(c['levels'])))
    chk.record_cases(len(cases), keys, 'support sequences of all slices, compared exactly; non-trivial = >= 4 grid points', [])


def check_balanced(chk, cases, impl=None):
    if impl is None:
        impl = run_impl(impl_balanced, cases, limit=120)
    mres = run_model(11, [(1, [qgrid(c), c['levels']]) for c in cases], nproc=8)
    keys, samples = [], []
    for c, (st, r), mr in zip(cases, impl, mres):
        one = dict(kind=c['kind'], grid=c['grid'], levels=c['levels'])
        chk.count('balanced:' + c['kind'])
        if st != 'ok':
            chk.violation('corr:C11/balanced', 'impl-worker-failed', {'status': st}, one, dict(impl=str(r)), failing_input=False)
            continue
        d = r['direct']
        if d[0] == 'exc':
            chk.violation('oracle:no_exception', 'balanced-exception', {'exc': d[1]}, one, dict(impl=d))
            continue
        if d[0] == 'assert' or sx.is_err(mr):
            if not (d[0] == 'assert' and sx.is_err(mr)):
                chk.violation('corr:C11/balanced', 'balanced-assert-disagreement', {'impl': d[0]}, one,
                              dict(impl=str(d)[:300], model=str(mr)[:300]), failing_input=(c['kind'] in ('full', 'complete')))
            else:
                chk.count('balanced:rejected-by-both')
            continue
        chk.traces += 1
        g = qgrid(c)
        w = d[1]['weights']
        mw = [sx.q(x) for x in mr[0]]
        m = is_complete(c['levels'])
        dyadic = c['kind'] in ('full', 'complete', 'maybe-unbalanced')   # the property speaks about dyadic trees only
        why, what = moments_why(g, w, (2 * m - 1) if (m and m >= 1) else 1) if dyadic else (None, None)
        if dyadic and not why and d[1]['grid'] != g:
            why, what = 'tree grid differs from the given grid', 'grid'
        if why:
            chk.violation('oracle:balanced_consistent', 'balanced-weights-inconsistent', {'what': what}, one,
                          dict(why=why, weights=[float(x) for x in w][:40]))
        if dyadic:
            # verified checker (hypothesis of C11_balanced_weights_consistent) evaluated by the extracted model
            chk.count('checker:keys_in_grid')
            if mr[1] != 1:
                chk.violation('checker:keys_in_grid', 'balanced-keys-not-in-grid', {}, one, dict(model=str(mr)[:300]), failing_input=False)
        if not close(mw, w, tol_of(g)):
            chk.violation('corr:C11/balanced', 'balanced-differs', {}, one,
                          dict(impl=[float(x) for x in w][:40], model=[float(x) for x in mw][:40], property_predicate=why or 'holds'),
                          failing_input=bool(why))
        if r['wrapper'][0] != 'ok' or r['wrapper'][1] != w:
            chk.violation('corr:C11/wrapper', 'balanced-wrapper-differs', {}, one, dict(wrapper=str(r['wrapper'])[:400]),
                          failing_input=False)
        if len(g) >= 5:
            keys.append((str(c['grid']), str(c['levels'])))
        if len(samples) < 2 and len(g) >= 7:
            samples.append(dict(grid=[str(x) for x in g], levels=c['levels'], balanced_weights_impl=[float(x) for x in w],
                                balanced_weights_model=[str(x) for x in mw]))
    chk.record_cases(len(cases), keys, 'balanced extrapolation: random full binary trees (every inner point 0 or 2 children) and '
                     'unbalanced/malformed ones; non-trivial = accepted with >= 5 grid points', samples)


def check_tree(chk, cases, impl=None):
    if impl is None:
        impl = run_impl(impl_tree, cases, limit=120)
    mres = run_model(11, [(2, [qgrid(c), c['levels']]) for c in cases], nproc=8)
    keys = []
    for c, (st, r), mr in zip(cases, impl, mres):
        one = dict(kind=c['kind'], grid=c['grid'], levels=c['levels'])
        if st != 'ok':
            chk.violation('corr:C11/tree', 'impl-worker-failed', {'status': st}, one, dict(impl=str(r)), failing_input=False)
            continue
        if r[0] == 'exc':
            chk.violation('oracle:no_exception', 'tree-exception', {'exc': r[1]}, one, dict(impl=r))
            continue
        if r[0] == 'assert' or sx.is_err(mr):
            if not (r[0] == 'assert' and sx.is_err(mr)):
                chk.violation('corr:C11/tree', 'tree-assert-disagreement', {'impl': r[0]}, one, dict(impl=str(r)[:300], model=str(mr)[:300]),
                              failing_input=c['kind'] in ('valid', 'complete'))
            else:
                chk.count('tree:rejected-by-both')
            continue
        chk.traces += 1
        o = r[1]
        g = qgrid(c)
        why = None
        if c['kind'] in ('valid', 'complete', 'full'):
            if o['g0'] != g or o['l0'] != c['levels']:
                why = 'init_tree does not reproduce the given grid/levels'
        if not why:
            it = iter(o['g1'])
            if not all(any(x == y for y in it) for x in o['g0']):
                why = 'forcing the full tree dropped or reordered given points'
            elif o['one_child']:
                why = 'after force_full_tree_invariant the nodes %s have exactly one child' % [str(x) for x in o['one_child']][:4]
            elif o['g1'] != sorted(set(o['g1'])) and c['kind'] in ('valid', 'complete', 'full'):
                why = 'forced grid is not strictly increasing'
        if why:
            chk.violation('oracle:force_full_tree', 'full-tree-property', {}, one, dict(why=why, forced=[str(x) for x in o['g1']][:40]))
        m0 = [[sx.q(x) for x in mr[0][0]], mr[0][1]]
        m1 = [[sx.q(x) for x in mr[1][0]], mr[1][1]]
        if m0 != [o['g0'], o['l0']] or m1 != [o['g1'], o['l1']]:
            chk.violation('corr:C11/tree', 'tree-differs', {'stage': 'init' if m0 != [o['g0'], o['l0']] else 'force'}, one,
                          dict(impl=dict(g0=[str(x) for x in o['g0']], l0=o['l0'], g1=[str(x) for x in o['g1']], l1=o['l1']),
                               model=dict(g0=[str(x) for x in m0[0]], l0=m0[1], g1=[str(x) for x in m1[0]], l1=m1[1]),
                               property_predicate=why or 'holds'), failing_input=bool(why))
        if len(o['g1']) > len(o['g0']):
            keys.append((str(c['grid']), str(c['levels'])))
    chk.record_cases(len(cases), keys, 'GridBinaryTree.init_tree + force_full_tree_invariant; non-trivial = forcing added points', [])


def check_factory(chk, cases, impl=None):
    if impl is None:
        impl = run_impl(impl_factory, cases, limit=60)
    mres = run_model(11, [(3, [F(*c['a']), F(*c['b']), c['version'], c['m']]) for c in cases], nproc=8)
    keys = []
    for c, (st, r), mr in zip(cases, impl, mres):
        if st != 'ok':
            chk.violation('corr:C11/factory', 'factory-exception', {'exc': r[0] if r else st, 'version': c['version']}, c, dict(impl=str(r)))
            continue
        chk.traces += 1
        a, b = F(*c['a']), F(*c['b'])
        tol = F(1, 10 ** 10) * (abs(b - a))
        mb, mi, mc = sx.q(mr[0]), [sx.q(x) for x in mr[1]], [sx.q(x) for x in mr[2]]
        bad = []
        if abs(mb - r['boundary']) > tol:
            bad.append('boundary')
        if not close(mi, r['inner'], tol):
            bad.append('inner')
        if not close(mc, r['coeff'], F(1, 10 ** 10)):
            bad.append('coefficients')
        # property predicates on the factory: coefficients sum to one; trapezoidal weights of the full grid sum to b-a
        why = None
        if abs(sum(r['coeff']) - 1) > F(1, 10 ** 9):
            why = 'extrapolation coefficients c_{%d,j} sum to %.12g' % (c['m'], float(sum(r['coeff'])))
        elif c['version'] in (1, 2):
            tot = 2 * r['boundary'] + sum(2 ** (l - 1) * w for l, w in zip(range(1, c['m'] + 1), r['inner']))
            if abs(tot - (b - a)) > 100 * tol:
                why = 'weights of the full grid of depth %d sum to %.12g instead of %s' % (c['m'], float(tot), b - a)
        if why and c['version'] != 3:
            chk.violation('oracle:factory', 'factory-weights-inconsistent', {'version': c['version']}, c, dict(why=why))
        if bad:
            chk.violation('corr:C11/factory', 'factory-differs', {'version': c['version'], 'observable': ','.join(bad)}, c,
                          dict(impl=dict(boundary=float(r['boundary']), inner=[float(x) for x in r['inner']], coeff=[float(x) for x in r['coeff']]),
                               model=dict(boundary=float(mb), inner=[float(x) for x in mi], coeff=[float(x) for x in mc]),
                               property_predicate=why or 'holds'), failing_input=bool(why) and c['version'] != 3)
        if c['m'] >= 2:
            keys.append((str(c['a']), str(c['b']), c['version'], c['m']))
    chk.record_cases(len(cases), keys, 'RombergWeightFactory (DEFAULT, LINEAR, SIMPSON) boundary/inner weights and coefficients, '
                     'm<=9; non-trivial = m>=2', [])


def gen_global(rng, tier, wrapper=None):
    wrapper = wrapper or rng.choice(['romberg', 'romberg', 'balanced'])
    dim = rng.choice([1, 2, 2])
    depth = rng.choice([1, 2, 3, 3, 4, 5 if tier == 'quick' else 6])
    t0 = rand_tree(rng, depth, rng.choice([0.5, 0.7, 0.9, 1.0]), full=(wrapper == 'balanced'))
    same = rng.random() < 0.75           # identical level vectors in all dimensions
    trees, depths = [], []
    for d in range(dim):
        if d == 0 or same:
            trees.append(t0); depths.append(depth)
        else:
            dd = rng.choice([1, 2, 3, 4])
            trees.append(rand_tree(rng, dd, 0.8, full=(wrapper == 'balanced'))); depths.append(dd)
    lengths = [F(1), F(2), F(1, 2), F(3), F(1, 4), F(5, 2), F(4)]

    def ivs(scale_from=None):
        out = []
        ls = rng.sample(lengths, dim)     # different lengths in different dimensions
        for d in range(dim):
            a = rng.choice([F(0), F(0), F(1), F(-1), F(1, 2), F(2)])
            out.append([[a.numerator, a.denominator], [ls[d].numerator, ls[d].denominator]])
        return out
    s1 = ivs()
    s2 = []
    for d in range(dim):                   # scaled (and sometimes shifted) interval, never the same length
        L = F(*s1[d][1]) * rng.choice([2, F(1, 2), 3, 4, F(1, 4)])
        a = F(*s1[d][0]) + rng.choice([0, 0, 1, -1])
        s2.append([[a.numerator, a.denominator], [L.numerator, L.denominator]])
    steps = [s1, s2, s1] if rng.random() < 0.8 else [s1, s2, ivs(), s1]
    sc = rng.choice(SCALES)        # axis (d): the whole history on intervals scaled by 2^sc (cache keys, thresholds)
    if sc:
        f2 = F(2) ** sc
        steps = [[[[(F(*iv[0]) * f2).numerator, (F(*iv[0]) * f2).denominator], [(F(*iv[1]) * f2).numerator, (F(*iv[1]) * f2).denominator]]
                  for iv in st] for st in steps]
    variant = list(rng.choice([(g, sv, c) for g in (1, 2, 3) for sv in (1, 2) for c in (1, 1, 4)]))
    return dict(kind='global', wrapper=wrapper, dim=dim, trees=[[list(x) for x in t] for t in trees], depths=depths,
                steps=steps, variant=variant, do_cache=rng.random() < 0.75, scale=sc)


def check_global(chk, cases, impl=None):
    if impl is None:
        impl = run_impl(impl_global, cases, limit=300)
    mcases, idx = [], []
    for i, c in enumerate(cases):
        for k, step in enumerate(c['steps']):
            for d in range(c['dim']):
                g, l = _grid_of(c['trees'][d], c['depths'][d], step[d])
                if c['wrapper'] == 'balanced':
                    mcases.append((1, [g, l]))
                else:
                    mcases.append((0, [c['variant'][0], c['variant'][1], c['variant'][2], 0, g, l]))
                idx.append((i, k, d, g))
    mres = run_model(11, mcases, nproc=8)
    by_case = {}
    for (i, k, d, g), mr in zip(idx, mres):
        by_case.setdefault(i, []).append((k, d, g, mr))
    keys, samples = [], []
    for i, c in enumerate(cases):
        st, r = impl[i]
        chk.count('global:%s:d=%d%s' % (c['wrapper'], c['dim'], '' if c['wrapper'] == 'balanced' else ',do_cache=%s' % bool(c.get('do_cache', True))))
        chk.count('global:steps=%s' % ('<=4' if len(c['steps']) <= 4 else '>50'))
        chk.count('global:scale=2^%s' % c.get('scale', 0))
        sig = dict(wrapper=c['wrapper'], dim=c['dim'])
        if c['wrapper'] == 'romberg':
            sig.update(grouping=GROUPINGS[c['variant'][0]], slice=SLICES[c['variant'][1]], container=CONTAINERS[c['variant'][2]])
        if st != 'ok':
            chk.violation('corr:C11/global', 'impl-worker-failed', {'status': st}, c, dict(impl=str(r)), failing_input=False)
            continue
        if r[0] != 'ok':
            chk.violation('oracle:no_exception', 'global-grid-exception', dict(sig, exc=r[1] if r[0] == 'exc' else 'AssertionError'), c,
                          dict(impl=str(r)[:400]))
            continue
        chk.traces += 1
        bad = None
        for (k, d, g, mr) in by_case[i]:
            o = r[1][k][d]
            if isinstance(mr, tuple) or sx.is_err(mr):
                chk.violation('corr:C11/global', 'global-model-rejects', dict(sig), dict(c, steps=c['steps'][:k + 1]), dict(model=str(mr)[:300]),
                              failing_input=False)
                bad = 'model'
                break
            if c['wrapper'] == 'balanced':
                mw = [sx.q(x) for x in mr[0]][1:-1]
                pts = g[1:-1]
                consistent = True
            else:
                mw = [sx.q(x) for x in mr[3]]
                pts = g
                consistent = c['variant'][2] == 1 or not any(z >= 2 for z in mr[2])
            a_, b_ = g[0], g[-1]
            tol = tol_of(g)
            diff = []
            if o['coords'] != pts:
                diff.append('coordinates')
            if not close(mw, o['weights'], tol):
                diff.append('weights')
            why = None
            if consistent and len(o['weights']) == len(pts):
                s0 = sum(o['weights'])
                s1 = sum(w * x for w, x in zip(o['weights'], pts))
                if abs(s0 - (b_ - a_)) > 100 * tol:
                    why = ('step %d, dimension %d: the weights on [%s,%s] sum to %.12g instead of %s' % (k, d, a_, b_, float(s0), b_ - a_))
                elif abs(s1 - (b_ * b_ - a_ * a_) / 2) > 100 * tol * (1 + abs(a_) + abs(b_)):
                    why = ('step %d, dimension %d: first moment on [%s,%s] is %.12g instead of %s' % (k, d, a_, b_, float(s1), (b_ * b_ - a_ * a_) / 2))
            elif len(o['weights']) != len(pts):
                why = 'step %d, dimension %d: %d weights for %d points' % (k, d, len(o['weights']), len(pts))
            if diff or why:
                # the history up to and including the failing step is the failing input
                chk.violation('corr:C11/global' if diff else 'oracle:global_weights_consistent', 'global-grid-differs',
                              dict(sig, observable=','.join(diff) or 'property'), dict(c, steps=c['steps'][:k + 1]),
                              dict(step=k, dimension=d, interval=[str(a_), str(b_)], differs=diff, property_predicate=why or 'holds',
                                   impl_weights=[float(w) for w in o['weights']][:40], model_weights=[float(w) for w in mw][:40]),
                              failing_input=bool(why))
                bad = 'diff'
                break
        if bad is None:
            lens = set(tuple(st_[d][1]) for st_ in c['steps'] for d in range(c['dim']))
            if len(lens) >= 2:
                keys.append(json_key(c))
            if len(samples) < 2 and c['dim'] == 2:
                samples.append(dict(wrapper=c['wrapper'], steps=c['steps'], levels=[[0] + [l for _, l in t] + [0] for t in c['trees']],
                                    weights_last_step=[[float(w) for w in dd['weights']] for dd in r[1][-1]]))
    chk.record_cases(len(mcases), keys, 'GlobalRombergGrid / GlobalBalancedRombergGrid histories on one object: set_grid in d=1..2 with '
                     'per-dimension intervals of different lengths and (mostly) identical level vectors, then a scaled domain, then the '
                     'first again; every dimension of every step compared with the model and the oracle; non-trivial = at least two '
                     'different interval lengths met the same object', samples)


def json_key(c):
    import json
    return json.dumps([c['wrapper'], c['dim'], c['trees'], c['steps'], c['variant']], sort_keys=True)


# fixed histories (always run first): the same tree on [0,1] x [1,3]; one object re-used for a scaled interval
GLOBAL_CORPUS = [
    dict(kind='global', wrapper='romberg', dim=2, trees=[[[1, 2], [2, 1], [3, 2]]] * 2, depths=[2, 2],
         steps=[[[[0, 1], [1, 1]], [[1, 1], [2, 1]]]], variant=[1, 1, 1]),
    dict(kind='global', wrapper='romberg', dim=1, trees=[[[1, 1]]], depths=[1],
         steps=[[[[0, 1], [1, 1]]], [[[0, 1], [2, 1]]], [[[0, 1], [1, 1]]]], variant=[2, 1, 1]),
    dict(kind='global', wrapper='balanced', dim=2, trees=[[[1, 2], [2, 1], [3, 2]]] * 2, depths=[2, 2],
         steps=[[[[0, 1], [1, 1]], [[1, 1], [2, 1]]], [[[0, 1], [3, 1]], [[1, 1], [1, 2]]], [[[0, 1], [1, 1]], [[1, 1], [2, 1]]]],
         variant=[1, 1, 1]),
]


# more than 50 distinct grids on one object (GlobalRombergGrid.initialize_grid empties the weight cache above 50 entries), then the
# first grids again
GLOBAL_CORPUS.append(dict(kind='global', wrapper='romberg', dim=1, trees=[[[1, 2], [2, 1], [3, 2]]], depths=[2],
                          steps=[[[[0, 1], [k, 8]]] for k in range(1, 56)] + [[[[0, 1], [1, 8]]], [[[0, 1], [55, 8]]], [[[0, 1], [2, 8]]]],
                          variant=[3, 1, 1], do_cache=True))

# exemplar of the known finding (kept first in the corpus)
SIMPSON_EXEMPLAR = dict(kind='valid', grid=[[0, 1], [1, 2], [1, 1]], levels=[0, 1, 0], variants=[[2, 1, 4, 0]])

CORPUS = [
    SIMPSON_EXEMPLAR,
    dict(kind='valid', grid=[[0, 1], [1, 2], [5, 8], [3, 4], [1, 1]], levels=[0, 1, 3, 2, 0], variants=[list(v) for v in ALL_VARIANTS]),
    dict(kind='valid', grid=[[0, 1], [1, 16], [1, 8], [1, 4], [3, 8], [1, 2], [3, 4], [7, 8], [1, 1]],
         levels=[0, 4, 3, 2, 3, 1, 2, 3, 0], variants=[list(v) for v in ALL_VARIANTS]),
    dict(kind='valid', grid=[[0, 1], [1, 8], [3, 16], [1, 4], [3, 8], [1, 2], [3, 4], [7, 8], [1, 1]],
         levels=[0, 3, 4, 2, 3, 1, 2, 3, 0], variants=[list(v) for v in ALL_VARIANTS]),
    dict(kind='complete', grid=[[k, 8] for k in range(9)], levels=[0, 3, 2, 3, 1, 3, 2, 3, 0], variants=[list(v) for v in ALL_VARIANTS]),
    dict(kind='two-points', grid=[[0, 1], [1, 1]], levels=[0, 0], variants=[list(v) for v in ALL_VARIANTS]),
]


# fixed histories (always run first)
HIST_CORPUS = [
    # GROUPED_OPTIMIZED: complete depth-3 grid without 1/8 (six equal slices -> 4 + 2), then its mirror image, then a scaled copy
    dict(kind='hist', variants=[[3, 1, 1, 0]], steps=[
        dict(obj=0, kind='valid', grid=[[0, 1], [1, 4], [3, 8], [1, 2], [5, 8], [3, 4], [7, 8], [1, 1]], levels=[0, 2, 3, 1, 3, 2, 3, 0],
             argtype='list', obs=['weights_twice', 'container_getters'], reuse_args_of=None),
        dict(obj=0, kind='valid', grid=[[0, 1], [1, 8], [1, 4], [3, 8], [1, 2], [5, 8], [3, 4], [1, 1]], levels=[0, 3, 2, 3, 1, 3, 2, 0],
             argtype='tuple', obs=['integrate', 'scribble'], reuse_args_of=None),
        dict(obj=0, kind='valid', grid=[[2, 1], [5, 2], [11, 4], [3, 1], [13, 4], [7, 2], [15, 4], [4, 1]], levels=[0, 2, 3, 1, 3, 2, 3, 0],
             argtype='npgrid', obs=['getters'], reuse_args_of=None)]),
    # two objects with different options interleaved, the same argument objects handed to both
    dict(kind='hist', variants=[[2, 1, 1, 0], [1, 2, 4, 1]], steps=[
        dict(obj=0, kind='valid', grid=[[0, 1], [1, 2], [5, 8], [3, 4], [1, 1]], levels=[0, 1, 3, 2, 0], argtype='list', obs=[], reuse_args_of=None),
        dict(obj=1, kind='valid', grid=[[0, 1], [1, 2], [5, 8], [3, 4], [1, 1]], levels=[0, 1, 3, 2, 0], argtype='list', obs=['weights_twice'],
             reuse_args_of=0),
        dict(obj=0, kind='complete', grid=[[k, 8] for k in range(9)], levels=[0, 3, 2, 3, 1, 3, 2, 3, 0], argtype='list', obs=['integrate'],
             reuse_args_of=None)]),
]

HIST_CORPUS.append(dict(kind='hist', variants=[[1, 1, 1, 0]], steps=[
    dict(obj=0, kind='valid', grid=[[0, 1], [1, 2], [5, 8], [3, 4], [1, 1]], levels=[0, 1, 3, 2, 0], argtype='list', obs=['integrate'],
         reuse_args_of=None, mutate_args_of=None),
    dict(obj=0, kind='valid', grid=[[0, 1], [1, 4], [3, 8], [1, 2], [1, 1]], levels=[0, 2, 3, 1, 0], argtype='list', obs=['integrate'],
         reuse_args_of=None, mutate_args_of=0),
    dict(obj=0, kind='valid', grid=[[0, 1], [1, 8], [1, 4], [3, 8], [1, 2], [3, 4], [1, 1]], levels=[0, 3, 2, 3, 1, 2, 0], argtype='list',
         obs=['integrate', 'weights_twice'], reuse_args_of=None, mutate_args_of=1),
    dict(obj=0, kind='valid', grid=[[0, 1], [1, 2], [1, 1]], levels=[0, 1, 0], argtype='list', obs=['integrate'],
         reuse_args_of=None, mutate_args_of=2)]))
HIST_CORPUS.append(dict(kind='hist', variants=[[3, 2, 4, 0]], steps=[
    dict(obj=0, kind='valid', grid=[[2, 1], [5, 2], [3, 1], [7, 2], [4, 1]], levels=[0, 2, 1, 2, 0], argtype='list', obs=[],
         reuse_args_of=None, mutate_args_of=None),
    dict(obj=0, kind='valid', grid=[[2, 1], [5, 2], [3, 1], [13, 4], [7, 2], [4, 1]], levels=[0, 2, 1, 3, 2, 0], argtype='list', obs=['getters'],
         reuse_args_of=None, mutate_args_of=0)]))

# exemplar of the known finding C11-wrapper-cache-aliases-result
ALIAS_EXEMPLAR = dict(kind='valid', grid=[[0, 1], [1, 2], [1, 1]], levels=[0, 1, 0], wrapper='romberg', do_cache=True, variant=[1, 1, 1])


def run(chk):
    import time
    t0 = time.time()
    timing = chk.extra.setdefault('timing_s', {})

    def lap(name):
        nonlocal t0
        timing[name] = round(time.time() - t0, 1)
        t0 = time.time()
    # source-derived model: regenerate coq/Gen/ExtrapolationGen.v from the working tree BEFORE the obligations, so that the
    # C11_gen_* theorems are re-checked against the coefficient / weight classes of Extrapolation.py as they are now
    tinfo = gen.run_translator(chk, 'extrapolation', 'ExtrapolationGen.v')
    chk.coq_obligations()
    gen_problem = gen.gen_diagnosis(chk, tinfo, GEN_CHAIN)
    gen.report(chk, tinfo, gen_problem, 'C11_gen_*')
    lap('coq')
    rng = chk.rng
    # --- sliced Romberg grids
    n = chk.n(400, 6000)
    cases = []
    for c in CORPUS:
        cases.append(dict(c, wrapper=True))
    for i in range(n):
        c = tree_case(rng, chk.tier)
        if rng.random() < 0.15:
            c = malform(rng, c)
        if i < chk.n(80, 300):
            c['variants'] = [list(v) for v in ALL_VARIANTS]
        else:
            c['variants'] = [list(v) for v in rng.sample(ALL_VARIANTS, 6)]
        c['wrapper'] = rng.random() < 0.3 and c['kind'] in ('valid', 'complete')
        cases.append(c)
    # sizes beyond the usual ones (axis h): > 200 and > 1024 points, a complete grid of depth 10 (one container of 1024 slices,
    # K = 10), long runs of equal slices that are not powers of two
    for depth, pr, vs in ([(8, 0.95, [(1, 1, 1, 0), (3, 1, 1, 0), (2, 2, 1, 0)]), (9, 0.9, [(3, 1, 1, 0), (3, 2, 4, 0)]),
                          (10, 1.0, [(2, 1, 1, 0), (3, 2, 1, 0)]), (10, 0.93, [(1, 1, 1, 0), (3, 1, 1, 1)])]
                         + ([(11, 0.9, [(3, 1, 1, 0), (1, 1, 1, 0)]), (8, 1.0, [list(v) for v in ALL_VARIANTS])] if not chk.quick else [])):
        c = tree_case(rng, chk.tier, depth=depth, p=pr)
        c['variants'] = [list(v) for v in vs]
        c['wrapper'] = False
        cases.append(c)
    # complete grid with one point removed / one cell refined: runs of 6, 12, 14 ... equal slices (GROUPED_OPTIMIZED splits 4+2, 8+4 ...)
    for depth in (3, 4, 4, 5):
        n = 2 ** depth
        t = rand_tree(rng, depth, 1.0)
        drop = rng.choice([1, n - 1, rng.choice([k for k in range(1, n) if k % 2 == 1])])
        t = [(k, l) for (k, l) in t if k != drop]
        a, L = interval(rng)
        cases.append(dict(kind='valid', grid=[[x.numerator, x.denominator] for x in [a] + [a + L * k / n for k, _ in t] + [a + L]],
                          levels=[0] + [l for _, l in t] + [0], variants=[list(v) for v in ALL_VARIANTS], wrapper=False))
    for c in cases:
        g = qgrid(c)
        chk.count('sliced:scale=' + scale_key(g[0], g[-1] - g[0]))
        chk.count('sliced:points=%s' % ('<=9' if len(g) <= 9 else ('10..64' if len(g) <= 64 else ('65..200' if len(g) <= 200 else ('201..1024' if len(g) <= 1024 else '>1024')))))
        for v in c['variants']:
            chk.count('sliced:variant=%s/%s/%s/force=%d' % (GROUPINGS[v[0]][:5], SLICES[v[1]][:4], CONTAINERS[v[2]][:4], v[3]))
    # --- support sequences
    sc = [tree_case(rng, chk.tier) for _ in range(chk.n(120, 2000))]
    sc += [malform(rng, tree_case(rng, chk.tier)) for _ in range(chk.n(20, 300))]
    # --- balanced extrapolation
    bc = [dict(kind='full', grid=[[0, 1], [1, 8], [1, 4], [3, 8], [1, 2], [3, 4], [1, 1]], levels=[0, 3, 2, 3, 1, 2, 0]),
          dict(kind='complete', grid=[[k, 8] for k in range(9)], levels=[0, 3, 2, 3, 1, 3, 2, 3, 0])]
    for i in range(chk.n(200, 5000)):
        r = rng.random()
        if r < 0.7:
            c = tree_case(rng, chk.tier, kind='full', full=True)
        elif r < 0.8:
            c = tree_case(rng, chk.tier, kind='complete', full=True)
        elif r < 0.92:
            c = tree_case(rng, chk.tier, kind='valid')
            c['kind'] = 'maybe-unbalanced'
        else:
            c = malform(rng, tree_case(rng, chk.tier, kind='full', full=True))
            if c['kind'] == 'two-points' or max(c['levels']) == 0:
                c = tree_case(rng, chk.tier, kind='full', full=True)
        bc.append(c)
    # depths beyond the usual ones (axis h): sparse full trees of depth 8..10, the complete tree of depth 7 (degree 13)
    for depth, pr in [(8, 0.3), (9, 0.25), (10, 0.2), (12, 0.1), (7, 1.0), (8, 1.0), (9, 1.0)] + ([(10, 1.0), (14, 0.1)] if not chk.quick else []):
        if pr >= 1.0:
            bc.append(tree_case(rng, chk.tier, kind='complete', full=True, depth=depth, p=pr))
        else:
            bc.append(tree_to_case(rng, deep_full_tree(rng, depth, pr), depth, 'full'))
    for c in bc:
        chk.count('balanced:max_level=%s' % ('<=3' if max(c['levels']) <= 3 else ('4..6' if max(c['levels']) <= 6 else '>=7')))
    # --- binary tree
    tc = [tree_case(rng, chk.tier) for _ in range(chk.n(200, 5000))]
    tc += [tree_case(rng, chk.tier, depth=d_, p=p_) for d_, p_ in [(10, 0.92), (11, 0.85)]]      # several hundred nodes
    tc += [malform(rng, tree_case(rng, chk.tier)) for _ in range(chk.n(30, 500))]
    # --- weight factory
    fc = []
    for _ in range(chk.n(120, 1500)):
        a, L = interval(rng)
        fc.append(dict(a=[a.numerator, a.denominator], b=[(a + L).numerator, (a + L).denominator],
                       version=rng.choice([1, 1, 2, 3]), m=rng.randrange(0, 10)))
    # --- Grid.py wrappers as histories on one object
    gc = list(GLOBAL_CORPUS) + [gen_global(rng, chk.tier) for _ in range(chk.n(150, 2500))]
    # --- histories on one ExtrapolationGrid object / two interleaved objects
    hc = list(HIST_CORPUS) + [gen_hist(rng, chk.tier) for _ in range(chk.n(260, 3000))]
    # --- shared state: tree singleton, balanced grid re-use, forced balancing, side by side in one process
    shc = [gen_shared(rng, chk.tier) for _ in range(chk.n(120, 1500))]
    # --- returned-object aliasing of the Grid.py wrappers
    ac = []
    for _ in range(chk.n(24, 200)):
        wrapper = rng.choice(['romberg', 'romberg', 'balanced'])
        c = tree_case(rng, chk.tier, kind='full', full=True) if wrapper == 'balanced' else tree_case(rng, chk.tier)
        if len(c['grid']) < 3:
            continue
        ac.append(dict(c, wrapper=wrapper, do_cache=rng.random() < 0.6, variant=list(rng.choice([(g, sv, 1) for g in (1, 2, 3) for sv in (1, 2)]))))
    ac = [ALIAS_EXEMPLAR] + ac
    impl = run_all_impl([('sliced', cases), ('support', sc), ('balanced', bc), ('tree', tc), ('factory', fc), ('glob', gc),
                         ('hist', hc), ('shared', shc), ('alias', ac)])
    lap('implementation')
    check_sliced(chk, cases, impl['sliced'])
    lap('sliced')
    check_support(chk, sc, impl['support'])
    check_balanced(chk, bc, impl['balanced'])
    check_tree(chk, tc, impl['tree'])
    check_factory(chk, fc, impl['factory'])
    check_global(chk, gc, impl['glob'])
    lap('others')
    check_hist(chk, hc, impl['hist'])
    check_shared(chk, shc, impl['shared'])
    check_alias(chk, ac, impl['alias'])
    lap('histories')
    # a broken translation / equivalence is a broken proof obligation; reported without failing input only when the
    # correspondence and the oracles above found no concrete input on which the implementation violates the property
    gen.finish_gen(chk, tinfo, gen_problem)
    lap('gen')


def replay(chk, rep):
    c = rep['case']
    check = rep.get('check', '')
    sub = chk
    if c.get('kind') == 'global':
        check_global(sub, [c])
    elif c.get('kind') == 'hist':
        check_hist(sub, [c])
    elif c.get('kind') == 'shared':
        check_shared(sub, [c])
    elif 'do_cache' in c and 'wrapper' in c and 'steps' not in c:
        check_alias(sub, [c])
    elif 'variants' in c:
        check_sliced(sub, [dict(c, wrapper=True)])
    elif 'version' in c:
        check_factory(sub, [c])
    elif check.endswith('balanced') or 'balanced' in rep.get('kind', ''):
        check_balanced(sub, [c])
    elif 'support' in check:
        check_support(sub, [c])
    elif 'tree' in check or 'tree' in rep.get('kind', ''):
        check_tree(sub, [c])
    else:
        check_sliced(sub, [dict(c, variants=[list(v) for v in ALL_VARIANTS], wrapper=True)])
    bad = 0
    for v in chk.violations:
        print('check=%s kind=%s sig=%s failing_input=%s' % (v['check'], v['kind'], v['sig'], v['failing_input']))
        print('  detail:', str(v['detail'])[:1500])
        bad = 1
    if not bad:
        print('implementation and model agree; property predicate holds')
    return bad

