"""C09: global adaptive 1D quadrature rules.

Part A (trapezoid): exact correspondence Model/Trap.v <-> GlobalTrapezoidalGrid.compute_weights / GlobalGrid.set_grid /
integrate on refinement-tree grids (dyadic and weighted-split trees), boundary on/off, modified basis on/off, d = 1..3.
Part B (certified moments): the verified checker `moments_ok` (Coq, extracted) is evaluated on the nodal weights of
GlobalHighOrderGrid / GlobalSimpsonGrid and on the effective nodal weights (integrate of the one-hot vector function) of
GlobalLagrangeGrid / GlobalBSplineGrid."""
import random
from fractions import Fraction as F
from .. import sx
from .. import gen
from ..impl import run_impl
from ..model import run_model

ASSUMPTIONS = [
    'Python floats modelled as exact rationals (Qc); grids are generated on dyadic lattices with few mantissa bits so that '
    'every intermediate value of compute_weights is exactly representable: weights are compared with =',
    'weighted-split trees with the modified basis produce non-dyadic quotients: compared with |impl-model| <= 2^-44*(b-a)',
    'integrate(): compared with |impl-model| <= 2^-44 * prod_d sum_i |w_i f_d(x_i)|; the polynomial integrand handed to the implementation '
    'is evaluated exactly and rounded once (no binary64 cancellation in the function VALUES next to its roots)',
    'certified part: tolerance of degree j is 2^-30 * (sum_i |w_i| |x_i|^j + |exact moment|) (hierarchical rules go through an '
    'LAPACK solve); scope decision: moment clauses are checked where the rule is constructed to satisfy them (boundary points '
    'present, modified basis, or GlobalHighOrderGrid which matches moments on the inner points); Simpson / Lagrange / B-spline '
    'with boundary=False and unmodified basis have zero-boundary-value semantics (set_grid strips the boundary weights)',
    'modified basis, one point, a = b (returns [0.0] in Python) is outside the model (None)',
    'magnitudes: intervals far from the origin, tiny and huge intervals in every part; comparisons are relative to the interval '
    '(trapezoid: exact / 2^-44*(b-a); moment checker on the rule mapped affinely to [-1,1], tolerance 2^-30 widened by '
    'max(1, max(|a|,|b|)/(b-a)/2^17) for the rounding of far-off coordinates)',
    'histories on one object: every request is compared EXACTLY with fresh one-dimensional objects (same arithmetic), the point arrays '
    'handed in must be unchanged afterwards, the returned weight arrays are overwritten by the harness before the next request; '
    'two-dimensional hierarchical rules are judged by the integrals of 1, x, y within 1e-8 * area * max(1,|bounds|); numpy arrays as '
    'stripes are excluded for GlobalBSplineGrid (the unchanged code raises AttributeError there); weighted grid variants are not driven',
    gen.ASSUMPTION,
]

INTERVALS = [(0.0, 1.0), (-1.0, 3.0), (2.0, 2.5), (0.0, 3.0), (-1.0, 2.0), (0.5, 2.0), (-3.0, 6.0), (1.0, 6.0)]
# the MAGNITUDE axis: domains far from the origin (offsets 2^10, 2^17, 1e5, 1e6, negative), tiny and huge intervals; dyadic trees are
# scaled into them (points exactly representable wherever the width is a power of two times few bits); every comparison is relative
# to the interval (width, affinely normalised moments), never absolute
FAR_INTERVALS = [(1024.0, 1025.0), (131072.0, 131074.0), (100000.0, 100001.0), (1000000.0, 1000001.0), (-1000002.0, -1000000.0),
                 (-131072.5, -131072.0), (1000.0, 1001.0), (-100000.0, -99996.0)]
TINY_INTERVALS = [(0.0, 2.0 ** -20), (0.0, 2.0 ** -27), (0.0, 1e-8), (1.0, 1.0 + 2.0 ** -20), (-2.0 ** -27, 2.0 ** -27), (3e-9, 5e-9)]
HUGE_INTERVALS = [(0.0, 2.0 ** 20), (-2.0 ** 30, 2.0 ** 30), (0.0, 1e6), (-3e5, 7e5)]


def pick_interval(rng, exclude=None):
    while True:
        r = rng.random()
        iv = rng.choice(INTERVALS if r < 0.6 else FAR_INTERVALS if r < 0.8 else TINY_INTERVALS if r < 0.92 else HUGE_INTERVALS)
        if iv != exclude:
            return iv


def magnitude_class(a, b):
    """width class / position class of the interval"""
    w = b - a
    return ('tiny' if w < 1e-4 else 'huge' if w > 1e4 else 'unit') + '/' + position_class(a, b)


def position_class(a, b):
    # far: the offset dwarfs the width (moments cancel); symmetric: the odd moments vanish
    return 'symmetric' if a == -b else 'far' if max(abs(a), abs(b)) / (b - a) > 100 else 'near'


TOL_EXACTISH = F(1, 2 ** 44)
TOL_CERT = F(1, 2 ** 30)


# ----------------------------------------------------------------------------------------------- generators
def gen_tree(rng, a, b, npts, style, wsplit, maxdepth):
    """Refinement tree as in RefinementObjectSingleDimension.refine: leaves (start, end, level_start, level_end, depth)."""
    iv = [(F(a), F(b), 0, 0, 0)]
    target = rng.random()
    while len(iv) + 1 < npts:
        cand = [i for i in range(len(iv)) if iv[i][4] < maxdepth]
        if not cand:
            break
        r = rng.random()
        if style == 'uniform' or r < 0.15:
            i = rng.choice(cand)
        elif style == 'left':
            i = cand[0]
        elif style == 'right':
            i = cand[-1]
        elif style == 'ends':
            i = rng.choice([cand[0], cand[-1]])
        else:  # graded towards a point
            t = F(a) + (F(b) - F(a)) * F(target).limit_denominator(1 << 20)
            inside = [j for j in cand if iv[j][0] <= t <= iv[j][1]]
            i = inside[0] if inside else rng.choice(cand)
        s, e, l0, l1, dp = iv[i]
        q = rng.choice([F(1, 4), F(3, 8), F(5, 8), F(3, 4), F(1, 2)]) if wsplit else F(1, 2)
        m = F(float(s + q * (e - s)))         # exact for dyadic positions; rounded to the nearest float otherwise (e.g. width 1e-8)
        if not s < m < e:
            iv[i] = (s, e, l0, l1, maxdepth)    # no float strictly inside: this leaf cannot be refined
            continue
        nl = max(l0, l1) + 1
        iv[i:i + 1] = [(s, m, l0, nl, dp + 1), (m, e, nl, l1, dp + 1)]
    pts = [float(iv[0][0])] + [float(x[1]) for x in iv]
    lev = [iv[0][2]] + [x[3] for x in iv]
    return pts, lev


def gen_npts(rng):
    r = rng.random()
    if r < 0.30:
        return rng.choice([3, 3, 4, 4, 5, 5, 6, 7])      # the special cases of the weight formulas
    if r < 0.72:
        return rng.randrange(8, 25)
    if r < 0.96:
        return rng.randrange(25, 61)
    return rng.randrange(65, 200)       # beyond typical internal block sizes (64, 128)


def gen_dim(rng, wsplit, npts=None):
    a, b = pick_interval(rng)
    n = npts or gen_npts(rng)
    style = rng.choice(['uniform', 'left', 'right', 'ends', 'point', 'point'])
    pts, lev = gen_tree(rng, a, b, n, style, wsplit, 8 if wsplit else 16)
    return dict(a=a, b=b, pts=pts, levels=lev)


def gen_trap_case(rng):
    r = rng.random()
    d = rng.choice([1, 1, 1, 1, 2, 2, 3])
    wsplit = rng.random() < 0.25
    flags = rng.choice([(True, False), (False, False), (False, True), (False, True)])
    dims = []
    for k in range(d):
        dims.append(gen_dim(rng, wsplit, npts=None if d == 1 else rng.choice([3, 4, 5, 6, 7, 9, 12])))
    kind = 'valid'
    if r < 0.03:
        kind = 'unsorted'
        p = dims[0]['pts']
        i = rng.randrange(len(p) - 1)
        p[i], p[i + 1] = p[i + 1], p[i]
    elif r < 0.05:
        kind = 'few-points'
        dd = dims[0]
        dd['pts'] = [dd['a'], dd['b']]; dd['levels'] = [0, 0]
    elif r < 0.065:
        kind = 'boundary-and-modified'
        flags = (True, True)
    elif r < 0.08:
        kind = 'levels-length'
        dims[0]['levels'] = dims[0]['levels'][:-1]
    polys = [[rng.randrange(-4, 5), rng.randrange(-4, 5)] + ([rng.randrange(-2, 3)] if rng.random() < 0.3 else [])
             for _ in range(d)]
    return dict(kind=kind, dims=dims, boundary=flags[0], mb=flags[1], wsplit=wsplit, polys=polys,
                scramble=rng.randrange(1 << 30), values_seed=rng.randrange(1 << 30))


CERT_FAMILIES = ['simpson', 'highorder', 'highorder', 'lagrange', 'bspline']


def gen_cert_case(rng):
    fam = rng.choice(CERT_FAMILIES)
    par = {}
    if fam == 'highorder':
        par = dict(split_up=rng.random() < 0.5, max_degree=rng.choice([2, 3, 5, 5, 7]), do_nnls=rng.random() < 0.15)
    elif fam == 'lagrange':
        par = dict(p=rng.choice([1, 2, 3, 5]))
    elif fam == 'bspline':
        par = dict(p=rng.choice([1, 3, 5]))
    if fam in ('lagrange', 'bspline'):
        flags = rng.choice([(True, False), (True, False), (False, True)])
    elif fam == 'simpson':
        flags = rng.choice([(True, False), (True, False), (False, False)])
    else:
        flags = rng.choice([(True, False), (True, False), (False, False)])
    hier = fam in ('lagrange', 'bspline')
    wsplit = (not hier) and rng.random() < 0.2
    full = rng.random() < 0.2          # complete uniform grid of level l ("enough points" for the order clause)
    a, b = pick_interval(rng)
    if full:
        l = rng.randrange(1, 6)
        n = 2 ** l + 1
        pts = [float(F(a) + (F(b) - F(a)) * F(i, 2 ** l)) for i in range(n)]
        lev = [0] * n
        for l2 in range(1, l + 1):
            off = 2 ** (l - l2)
            for j in range(off, n, 2 * off):
                lev[j] = l2
        dd = dict(a=a, b=b, pts=pts, levels=lev)
    else:
        n = rng.choice([3, 4, 5, 6, 7, 8, 9]) if rng.random() < 0.4 else rng.randrange(10, 34 if hier else 61)
        if rng.random() < 0.04:
            n = rng.randrange(65, 100 if hier else 140)
        style = rng.choice(['uniform', 'left', 'right', 'ends', 'point', 'point'])
        pts, lev = gen_tree(rng, a, b, n, style, wsplit, 6 if wsplit else (9 if hier else 14))
        dd = dict(a=a, b=b, pts=pts, levels=lev)
    return dict(kind='cert', family=fam, par=par, boundary=flags[0], mb=flags[1], dim=dd, wsplit=wsplit, full=full)


# ----------------------------------------------------------------------------------------------- implementation workers
def _rl(xs):
    return [sx.rat(x) for x in xs]


def _exc(e):
    import traceback
    tb = traceback.extract_tb(e.__traceback__)
    where = ''
    for fr in reversed(tb):
        if 'sparseSpACE' in fr.filename:
            where = '%s:%d' % (fr.filename.split('/')[-1], fr.lineno)
            break
    return ('exc', type(e).__name__, where, str(e)[:120])


def impl_trap(case):
    import numpy as np
    from sparseSpACE.Grid import GlobalTrapezoidalGrid
    from sparseSpACE.Function import Function
    out = dict(static=[], grid=None)
    mb, bd = case['mb'], case['boundary']
    out['args_unchanged'] = True
    for dd in case['dims']:
        try:
            arg = np.array(dd['pts'], dtype=float) if case['scramble'] % 2 else list(dd['pts'])
            w = GlobalTrapezoidalGrid.compute_weights(arg, dd['a'], dd['b'], mb)
            out['static'].append(('ok', _rl(w)))
            out['args_unchanged'] = out['args_unchanged'] and [float(x) for x in arg] == dd['pts']
        except Exception as e:
            out['static'].append(_exc(e))
    polys = case['polys']

    class PolyProd(Function):
        def eval(self, c):
            # the integrand is evaluated EXACTLY (rationals) and rounded once: a binary64 Horner/power evaluation of e.g. 1 - 3x + 2x^2
            # next to x = 1 cancels and would hand the implementation function VALUES with a relative error of 1e-9..1e-5, which
            # the comparison with the exact model (scale sum |w_i f(x_i)|) must not charge to the quadrature code
            r = F(1)
            for d, cs in enumerate(polys):
                x = F(float(c[d]))
                r *= sum(k * x ** j for j, k in enumerate(cs))
            return float(r)

        def output_length(self):
            return 1
    try:
        a = [dd['a'] for dd in case['dims']]; b = [dd['b'] for dd in case['dims']]
        g = GlobalTrapezoidalGrid(a, b, boundary=bd, modified_basis=mb)
        pts = [list(dd['pts']) for dd in case['dims']]; lev = [list(dd['levels']) for dd in case['dims']]
        g.set_grid(pts, lev)
        out['args_unchanged'] = out['args_unchanged'] and pts == [list(dd['pts']) for dd in case['dims']] and \
            lev == [list(dd['levels']) for dd in case['dims']]
        levelvec = [max(l) if l else 0 for l in lev]
        res = dict(coords=[_rl(c) for c in g.coordinate_array], weights=[_rl(w) for w in g.weights],
                   levels=[[int(x) for x in l] for l in g.levels], num_points=[int(x) for x in g.levelToNumPoints(levelvec)])
        P, W = g.get_points_and_weights()
        res['n_points'] = len(P); res['n_weights'] = len(W)
        if res['n_points']:
            val = g.integrate(PolyProd(), levelvec, a, b)
            res['integral'] = sx.rat(np.asarray(val).reshape(-1)[0])
        else:
            res['integral'] = None      # empty grid: Function.__call__ on an empty batch is C12's business
        # same point set, scrambled refinement levels
        rng = random.Random(case['scramble'])
        lev2 = [[rng.randrange(0, 9) for _ in l] for l in lev]
        g2 = GlobalTrapezoidalGrid(a, b, boundary=bd, modified_basis=mb)
        g2.set_grid(pts, lev2)
        res['weights_scrambled'] = [_rl(w) for w in g2.weights]
        out['grid'] = ('ok', res)
    except Exception as e:
        out['grid'] = _exc(e)
    return out


def impl_cert(case):
    import numpy as np
    import warnings
    warnings.filterwarnings('ignore')
    from sparseSpACE import Grid as G
    from sparseSpACE.Function import Function
    dd = case['dim']; fam = case['family']; par = case['par']
    a, b, pts, lev = dd['a'], dd['b'], list(dd['pts']), list(dd['levels'])
    bd, mb = case['boundary'], case['mb']
    try:
        if fam == 'simpson':
            g = G.GlobalSimpsonGrid([a], [b], boundary=bd, modified_basis=mb)
        elif fam == 'highorder':
            g = G.GlobalHighOrderGrid([a], [b], boundary=bd, modified_basis=mb, **par)
        elif fam == 'lagrange':
            g = G.GlobalLagrangeGrid([a], [b], boundary=bd, modified_basis=mb, p=par['p'])
        else:
            g = G.GlobalBSplineGrid([a], [b], boundary=bd, modified_basis=mb, p=par['p'])
        g.set_grid([pts], [lev])
        coords = [float(x) for x in g.coordinate_array[0]]
        res = dict(coords=_rl(coords), num_points=[int(x) for x in g.levelToNumPoints([max(lev)])])
        if fam in ('simpson', 'highorder'):
            res['weights'] = _rl(g.weights[0])
            if fam == 'highorder' and not par['split_up'] and bd:
                g.set_current_dimension(0)
                w2, deg = g.get_1D_weights_and_order(pts, a, b, lev)
                res['reported_degree'] = int(deg)
            if fam == 'simpson' and not bd:
                g1 = G.GlobalSimpsonGrid([a], [b], boundary=True)
                g1.set_grid([pts], [lev])
                res['weights_with_boundary'] = _rl(g1.weights[0])
        else:
            class OneHot(Function):
                def eval(self, c):
                    v = np.zeros(len(coords)); v[coords.index(c[0])] = 1.0
                    return v

                def output_length(self):
                    return len(coords)
            w = g.integrate(OneHot(), [max(lev)], [a], [b])
            res['weights'] = _rl(np.asarray(w).reshape(-1))
        return ('ok', res)
    except Exception as e:
        return _exc(e)


# ----------------------------------------------------------------------------------------------- oracles (implementation alone)
def pl_integral(xs, vs):
    return sum((xs[j + 1] - xs[j]) * (vs[j] + vs[j + 1]) / 2 for j in range(len(xs) - 1))


def line_int(x0, v0, x1, v1, lo, hi):
    s = (v1 - v0) / (x1 - x0)
    return (v0 - s * x0) * (hi - lo) + s * (hi * hi - lo * lo) / 2


def mod_integral(xs, vs, a, b):
    """vs: values at all points (boundary values ignored)."""
    n = len(xs)
    if n == 3:
        return vs[1] * (b - a)
    if n == 4:
        return line_int(xs[1], vs[1], xs[2], vs[2], a, b)
    return (line_int(xs[1], vs[1], xs[2], vs[2], xs[0], xs[2]) + pl_integral(xs[2:n - 2], vs[2:n - 2])
            + line_int(xs[n - 3], vs[n - 3], xs[n - 2], vs[n - 2], xs[n - 3], xs[n - 1]))


def oracle_trap_dim(case, k, coords, weights, weights_scrambled, tol):
    """Property predicate on the implementation's 1D rule of dimension k. Returns None or (clause, text)."""
    dd = case['dims'][k]
    a, b = F(dd['a']), F(dd['b'])
    xs = [F(x) for x in dd['pts']]
    n = len(xs)
    bd, mb = case['boundary'], case['mb']
    inner = xs if bd else xs[1:-1]
    if len(coords) != len(weights) or coords != inner:
        return ('alignment', 'coordinates/weights do not line up with the (inner) points: %d weights, %d coords, %d expected'
                % (len(weights), len(coords), len(inner)))
    if not mb and any(w < 0 for w in weights):
        return ('nonneg', 'negative weight %s' % min(weights))
    eps = tol * (b - a)
    if bd or mb:
        s0 = sum(weights); s1 = sum(w * x for w, x in zip(weights, coords))
        if abs(s0 - (b - a)) > eps:
            return ('sum', 'weights sum to %s, interval length %s' % (s0, b - a))
        # one inner point (n = 3, modified basis): the rule is the one-point rule (b-a)*f(x_1); it is exact for linear functions
        # iff x_1 is the midpoint (always true for midpoint trees) - no one-point rule can do better, so the clause is skipped otherwise
        one_point_off_centre = mb and n == 3 and 2 * xs[1] != a + b
        if not one_point_off_centre and abs(s1 - (b * b - a * a) / 2) > eps * max(abs(a), abs(b), 1):
            return ('first-moment', 'sum w_i x_i = %s, exact %s' % (s1, (b * b - a * a) / 2))
    rng = random.Random(case['values_seed'] + k)
    vs = [F(rng.randrange(-8, 9), 4) for _ in xs]
    if not bd:
        vs[0] = vs[-1] = F(0)
    got = sum(w * v for w, v in zip(weights, vs if bd else vs[1:-1]))
    want = mod_integral(xs, vs, a, b) if mb else pl_integral(xs, vs)
    if abs(got - want) > eps * 4:
        return ('pl-integral', 'weights.values = %s, integral of the %s interpolant = %s'
                % (got, 'extrapolated (modified basis)' if mb else 'piecewise-linear', want))
    if weights_scrambled is not None and weights_scrambled != weights:
        return ('levels-independent', 'weights change when only the refinement levels change')
    return None


def dyadic_positions(dd):
    a, b = F(dd['a']), F(dd['b'])
    for x in dd['pts']:
        q = (F(x) - a) / (b - a)
        if q.denominator & (q.denominator - 1) or q.denominator > 2 ** 30:
            return False
    # the width itself must leave room for the products of the 4-point special case: few significant bits
    w = b - a
    return (w.numerator * w.denominator).bit_length() <= 24 and max(abs(a.numerator), abs(b.numerator)).bit_length() <= 24


def is_exact(c):
    # midpoint trees: all widths are (b-a)*2^-k, every quotient of compute_weights is dyadic -> floats are exact; positions that are
    # not dyadic fractions of a short-mantissa interval (width 1e-8, rounded midpoints) are compared within 2^-44 * (b-a)
    return not ((c['wsplit'] or c['kind'] == 'unsorted') and c['mb']) and all(dyadic_positions(dd) for dd in c['dims'])


def is_valid_trap(case):
    return case['kind'] == 'valid'


# ----------------------------------------------------------------------------------------------- part A
def close(x, y, tol):
    return x == y if tol == 0 else abs(x - y) <= tol


def check_trap(chk, cases, impl, keys, samples):
    mcases, midx = [], []
    for i, c in enumerate(cases):
        for k, dd in enumerate(c['dims']):
            xs = [F(x) for x in dd['pts']]
            mcases.append((0, [c['mb'], F(dd['a']), F(dd['b']), xs])); midx.append((i, 'static', k))
            mcases.append((1, [c['boundary'], c['mb'], F(dd['a']), F(dd['b']), xs, dd['levels']])); midx.append((i, 'grid', k))
        mcases.append((3, [c['boundary'], c['mb'], [[F(dd['a']), F(dd['b']), [F(x) for x in dd['pts']], dd['levels'],
                                                       [F(z) for z in cs]] for dd, cs in zip(c['dims'], c['polys'])]]))
        midx.append((i, 'integral', None))
    mres = run_model(9, mcases)
    by_case = {}
    for (i, what, k), mr in zip(midx, mres):
        by_case.setdefault(i, {})[(what, k)] = mr
    for i, c in enumerate(cases):
        st, r = impl[i]
        chk.count('trap:kind=' + c['kind']); chk.count('trap:d=%d' % len(c['dims']))
        chk.count('trap:boundary=%d,modified=%d' % (c['boundary'], c['mb']))
        chk.count('trap:max-points=' + n_bucket(max(len(dd['pts']) for dd in c['dims']))); chk.count('trap:weighted-splits=%d' % c['wsplit'])
        for dd in c['dims']:
            chk.count('magnitude(trap)=' + magnitude_class(dd['a'], dd['b']))
        mags = [magnitude_class(dd['a'], dd['b']) for dd in c['dims']]
        sig0 = {'boundary': int(c['boundary']), 'mb': int(c['mb']), 'points': n_class(c), 'magnitude': sorted(set(mags))[-1],
                # the 4-point special case of the modified basis on a far-off interval (known finding: cancellation)
                'four_point_far': any(len(dd['pts']) == 4 and position_class(dd['a'], dd['b']) == 'far' for dd in c['dims'])}
        if st != 'ok':
            chk.violation('corr:C09/trap', 'worker-failed', dict(sig0, status=st), c, dict(impl=str(r)[:400]))
            continue
        if not r.get('args_unchanged', True):
            chk.violation('oracle:trap/arguments-unchanged', 'argument-modified', dict(sig0, family='trap'), c,
                          dict(text='compute_weights / set_grid modified the point or level arrays handed in'))
        mm = by_case[i]
        exact = is_exact(c)
        bad = []          # (observable, dimension, detail)
        # --- static compute_weights
        for k, dd in enumerate(c['dims']):
            m = mm[('static', k)]
            s = r['static'][k]
            tol = 0 if exact else TOL_EXACTISH * (F(dd['b']) - F(dd['a']))
            if s[0] == 'exc':
                if m != [0]:
                    bad.append(('compute_weights raises', k, dict(impl=s, model=str(m)[:200])))
            elif m == [0] or sx.is_err(m):
                bad.append(('compute_weights: model rejects', k, dict(impl=str(s)[:200], model=str(m))))
            else:
                mw = [sx.q(x) for x in m[1]]
                if len(mw) != len(s[1]) or not all(close(x, y, tol) for x, y in zip(s[1], mw)):
                    j = next((j for j, (x, y) in enumerate(zip(s[1], mw)) if not close(x, y, tol)), None)
                    bad.append(('compute_weights', k, dict(index=j, n=len(mw), impl=str(s[1][j] if j is not None else len(s[1])),
                                                           model=str(mw[j] if j is not None else len(mw)))))
        # --- set_grid / integrate
        gr = r['grid']
        mg = [mm[('grid', k)] for k in range(len(c['dims']))]
        model_rejects = any(g == [0] for g in mg)
        if gr[0] == 'exc':
            if not model_rejects:
                bad.append(('set_grid raises', None, dict(impl=gr, model='accepts')))
            else:
                chk.count('trap:rejected-by-both')
        elif model_rejects:
            bad.append(('set_grid: model rejects', None, dict(model=str(mg)[:200])))
        else:
            g = gr[1]
            for k, dd in enumerate(c['dims']):
                tol = 0 if exact else TOL_EXACTISH * (F(dd['b']) - F(dd['a']))
                _, mco, mwe, mle, mnp = mg[k]
                mco = [sx.q(x) for x in mco]; mwe = [sx.q(x) for x in mwe]
                if mco != g['coords'][k]:
                    bad.append(('coordinate_array', k, dict(impl=str(g['coords'][k])[:300], model=str(mco)[:300])))
                if len(mwe) != len(g['weights'][k]) or not all(close(x, y, tol) for x, y in zip(g['weights'][k], mwe)):
                    bad.append(('weights', k, dict(impl=str(g['weights'][k])[:300], model=str(mwe)[:300])))
                if mle != g['levels'][k]:
                    bad.append(('levels', k, dict(impl=str(g['levels'][k])[:200], model=str(mle)[:200])))
                if mnp != g['num_points'][k]:
                    bad.append(('numPoints', k, dict(impl=g['num_points'][k], model=mnp)))
            npt = 1
            for k in range(len(c['dims'])):
                npt *= mg[k][4]
            if g['n_points'] != npt or g['n_weights'] != npt:
                bad.append(('get_points_and_weights', None, dict(points=g['n_points'], weights=g['n_weights'], model=npt)))
            mi = mm[('integral', None)]
            if mi == [0] or sx.is_err(mi):
                bad.append(('integrate: model rejects', None, dict(model=str(mi))))
            else:
                mv = sx.q(mi[1])
                scale = F(1)
                for k, cs in enumerate(c['polys']):
                    scale *= sum(abs(w) * abs(sum(F(z) * x ** j for j, z in enumerate(cs)))
                                 for w, x in zip(g['weights'][k], g['coords'][k])) if g['coords'][k] else 0
                if g['integral'] is not None and abs(g['integral'] - mv) > TOL_EXACTISH * scale:
                    bad.append(('integrate', None, dict(impl=str(g['integral']), model=str(mv), scale=str(scale))))
        # --- oracle on the implementation alone
        orc = None
        if is_valid_trap(c) and gr[0] == 'ok':
            g = gr[1]
            for k in range(len(c['dims'])):
                orc = oracle_trap_dim(c, k, g['coords'][k], g['weights'][k], g['weights_scrambled'][k],
                                      0 if exact else TOL_EXACTISH)
                if orc:
                    orc = (k,) + orc
                    break
        elif is_valid_trap(c):
            n_min = min(len(dd['pts']) for dd in c['dims'])
            if not (c['mb'] and n_min < 3):
                orc = (None, 'exception', 'set_grid/integrate raises %s on a valid grid' % (gr[1:],))
        if orc:
            key = ('trap', orc[1], c['boundary'], c['mb'])
            chk.violation('oracle:trap/' + orc[1], 'trap-' + orc[1], sig0, c,
                          dict(property_predicate=orc[2], correspondence=[(b_[0], b_[1]) for b_ in bad][:5]))
            if SHRUNK.get(key, 0) < 2:
                SHRUNK[key] = SHRUNK.get(key, 0) + 1
                SHRINK_JOBS.append((len(chk.violations) - 1, dict(kind='trap', case=c, k=orc[0], clause=orc[1])))
        elif bad:
            chk.violation('corr:C09/trap', 'trap-weights-differ', dict(sig0, observable=bad[0][0]), c,
                          dict(differs=[dict(observable=o, dim=k, **dt) for o, k, dt in bad][:4],
                               property_predicate='holds on this case'), failing_input=False)
        chk.traces += 1
        n_max = max(len(dd['pts']) for dd in c['dims'])
        if is_valid_trap(c) and n_max >= 3:
            keys.append(('trap', c['boundary'], c['mb'], str([dd['pts'] for dd in c['dims']]), str([dd['a'] for dd in c['dims']])))
            if len(samples) < 2 and n_max >= 6 and gr[0] == 'ok':
                samples.append(dict(kind='trap', boundary=c['boundary'], modified_basis=c['mb'], points=c['dims'][0]['pts'],
                                    a=c['dims'][0]['a'], b=c['dims'][0]['b'],
                                    impl_weights=[str(x) for x in gr[1]['weights'][0]],
                                    model_weights=[str(sx.q(x)) for x in mg[0][2]] if mg[0] != [0] else None))


SHRUNK = {}     # only the first cases of each violation group are shrunk
SHRINK_JOBS = []  # (index into chk.violations, job) ; all jobs are run in one worker pool at the end


def n_bucket(n):
    return '<=5' if n <= 5 else '6-24' if n <= 24 else '25-64' if n <= 64 else '>64'


def n_class(c):
    n = max(len(dd['pts']) for dd in c['dims']) if 'dims' in c else len(c['dim']['pts'])
    return str(n) if n <= 5 else '>=6'


def trap_fails(c, clause):
    """Does the implementation still violate the same clause on the one-dimensional case c? (runs in a worker)"""
    try:
        r = impl_trap(c)
    except Exception:
        return False
    gr = r['grid']
    if gr[0] == 'ok':
        o = oracle_trap_dim(c, 0, gr[1]['coords'][0], gr[1]['weights'][0], gr[1]['weights_scrambled'][0],
                            0 if is_exact(c) else TOL_EXACTISH)
        return bool(o) and o[0] == clause
    return clause == 'exception' and not (c['mb'] and len(c['dims'][0]['pts']) < 3)


def cert_fails(c, job):
    try:
        r = impl_cert(c)
    except Exception:
        return False
    if job['mode'] == 'exc':
        return r[0] == 'exc' and r[1] == job['exc'] and len(c['dim']['pts']) % 2 == job['parity']
    return r[0] == 'ok' and first_bad_degree(c, r[1]) == job['deg']


def shrink_worker(job):
    """Greedy shrinking inside one worker process: remove points while the same clause keeps failing."""
    c = job['case']
    if job['kind'] == 'hist':
        return shrink_hist(c)
    if job['kind'] == 'trap':
        k = job['k']
        if k is None:
            return c
        cur = dict(c, dims=[dict(c['dims'][k])], polys=[c['polys'][k]])
        if not trap_fails(cur, job['clause']):
            return c
        while True:
            dd = cur['dims'][0]
            n = len(dd['pts'])
            nxt = None
            for j in range(1, n - 1):
                if n <= 3:
                    break
                d2 = dict(dd, pts=dd['pts'][:j] + dd['pts'][j + 1:], levels=dd['levels'][:j] + dd['levels'][j + 1:])
                cd = dict(cur, dims=[d2])
                if trap_fails(cd, job['clause']):
                    nxt = cd
                    break
            if nxt is None:
                return cur
            cur = nxt
    cur = c
    while True:
        dd = cur['dim']
        n = len(dd['pts'])
        nxt = None
        if n > 3 and not cur.get('full'):
            # remove a leaf point of the refinement tree (level is a local maximum) so that the grid stays a tree grid
            for j in range(1, n - 1):
                if dd['levels'][j] > dd['levels'][j - 1] and dd['levels'][j] > dd['levels'][j + 1]:
                    cd = dict(cur, dim=dict(dd, pts=dd['pts'][:j] + dd['pts'][j + 1:], levels=dd['levels'][:j] + dd['levels'][j + 1:]))
                    if cert_fails(cd, job):
                        nxt = cd
                        break
        if nxt is None:
            return cur
        cur = nxt


def run_shrink_jobs(chk):
    import json
    if not SHRINK_JOBS:
        return
    res = run_impl(shrink_worker, [j for _, j in SHRINK_JOBS], limit=100)
    for (idx, job), (st, r) in zip(SHRINK_JOBS, res):
        if st == 'ok' and r is not None:
            v = chk.violations[idx]
            v['case'] = r
            v['size'] = len(json.dumps(r, default=str))
            if 'parity' in v['sig'] and 'dim' in r:
                v['sig']['parity'] = 'even' if len(r['dim']['pts']) % 2 == 0 else 'odd'
    del SHRINK_JOBS[:]


# ----------------------------------------------------------------------------------------------- part B
def cert_degrees(c, res):
    """Degrees 0..K-1 whose moments the rule must reproduce (scope decision in ASSUMPTIONS). None: not checked."""
    fam, bd, mb, par = c['family'], c['boundary'], c['mb'], c['par']
    n = len(c['dim']['pts'])
    if fam == 'simpson':
        # odd number of points: composite three-point rules (degree 2); even: the first four points use a moment-matching
        # rule that may fall back to degree 1 to keep its weights non-negative
        return (3 if n % 2 == 1 else 2) if bd else None
    if fam == 'highorder':
        if bd:
            k = max(2, min(res.get('reported_degree', 1), 7) + 1)       # the degree the implementation itself reports
            if c['full'] and not par['split_up'] and not par['do_nnls']:
                k = max(k, min(par['max_degree'], n - 1) + 1)             # order clause on uniform grids
            return k
        return 2
    p = par['p']
    if bd and not mb:
        k = min(p, 2) + 1
        if c['full']:
            l = max(c['dim']['levels'])
            if fam == 'lagrange' and l >= p - 1 and 2 ** l + 1 > p:
                k = p + 1
            if fam == 'bspline' and 2 ** l >= 2 * p + 2:
                k = max(k, p + 1)
        return k
    if mb:
        return 2
    return None


def normalise_rule(inner, weights, a, b):
    """The rule mapped affinely to [-1,1] (exactness for polynomials of degree < K is invariant; in these coordinates the moment
    residuals and their tolerances are relative to the interval, whatever its position and width)."""
    c, h = (a + b) / 2, (b - a) / 2
    return [(x - c) / h for x in inner], [w / h for w in weights], F(-1), F(1)


def moment_tolerances(pts, wts, a, b, K, scale=1):
    return [TOL_CERT * scale * (sum(abs(w) * abs(x) ** j for w, x in zip(wts, pts)) + abs((b ** (j + 1) - a ** (j + 1)) / (j + 1)))
            for j in range(K)]


def position_scale(a, b):
    """Coordinates carry a rounding error of about 2^-53 * max(|a|,|b|); relative to the interval this is amplified by
    max(|a|,|b|) / (b-a).  The tolerance of the moment checker grows with it once it exceeds 2^20 (far-off unit intervals at 1e6)."""
    r = max(abs(a), abs(b)) / (b - a)
    return max(1, r / 2 ** 17)


def cert_sig(c):
    sig = {'family': c['family'], 'boundary': int(c['boundary']), 'mb': int(c['mb'])}
    if 'p' in c['par']:
        sig['p'] = c['par']['p']          # order of the hierarchical basis (p = 1 is structurally different: two-knot windows)
    sig['magnitude'] = magnitude_class(c['dim']['a'], c['dim']['b'])
    sig['position'] = position_class(c['dim']['a'], c['dim']['b'])
    return sig


def check_cert(chk, cases, impl, keys, samples):
    mcases, midx = [], []
    for i, c in enumerate(cases):
        st, r = impl[i]
        fam = c['family']
        chk.count('cert:%s boundary=%d modified=%d' % (fam, c['boundary'], c['mb']))
        chk.count('magnitude(cert)=' + magnitude_class(c['dim']['a'], c['dim']['b']))
        chk.count('cert:points=' + n_bucket(len(c['dim']['pts']))); chk.count('cert:complete-grid=%d weighted-splits=%d' % (c['full'], c['wsplit']))
        if 'p' in c['par']:
            chk.count('cert:%s p=%d' % (fam, c['par']['p']))
        if fam == 'highorder':
            chk.count('cert:highorder split_up=%d do_nnls=%d max_degree=%d' % (c['par']['split_up'], c['par']['do_nnls'], c['par']['max_degree']))
        sig0 = cert_sig(c)
        n = len(c['dim']['pts'])
        if st != 'ok':
            chk.violation('checker:moments_ok', 'worker-failed', dict(sig0, status=st), c, dict(impl=str(r)[:300]))
            continue
        if r[0] == 'exc':
            sig = dict(sig0, exc=r[1], parity='even' if n % 2 == 0 else 'odd')
            kind = 'simpson-even-typeerror' if (fam == 'simpson' and r[1] == 'TypeError' and n % 2 == 0) else 'cert-exception'
            key = ('cert-exc', fam, c['boundary'], c['mb'], r[1], n % 2)
            chk.violation('oracle:cert/no-exception', kind, sig, c,
                          dict(exception=r[1:], text='set_grid raises on a valid refinement-tree grid'))
            if SHRUNK.get(key, 0) < 1:
                SHRUNK[key] = 1
                SHRINK_JOBS.append((len(chk.violations) - 1, dict(kind='cert', case=c, mode='exc', exc=r[1], parity=n % 2)))
            continue
        res = r[1]
        a, b = F(c['dim']['a']), F(c['dim']['b'])
        xs = [F(x) for x in c['dim']['pts']]
        inner = xs if c['boundary'] else xs[1:-1]
        if res['coords'] != inner or len(res['weights']) != len(inner) or res['num_points'] != [len(inner)]:
            chk.violation('oracle:cert/alignment', 'cert-alignment', sig0, c,
                          dict(coords=len(res['coords']), weights=len(res['weights']), expected=len(inner), num_points=res['num_points']))
            continue
        if fam == 'simpson' and not c['boundary']:
            if res['weights_with_boundary'][1:-1] != res['weights']:
                chk.violation('oracle:cert/strip', 'cert-strip', sig0, c, dict(text='boundary=False weights are not the stripped boundary=True weights'))
            chk.count('cert:strip-only')
            chk.traces += 1
            continue
        K = cert_degrees(c, res)
        if K is None or not inner:
            chk.count('cert:not-in-scope')
            continue
        npts, nwts, na, nb = normalise_rule(inner, res['weights'], a, b)
        tols = moment_tolerances(npts, nwts, na, nb, K, position_scale(a, b))
        mcases.append((2, [npts, nwts, na, nb, tols])); midx.append((i, K, tols))
    # --- the models of the two rules that are proved (phase 3): Simpson weights (odd number of points) and the effective nodal
    #     weights of the hierarchical Lagrange grid (knot selection, exact hierarchisation, formal integrals of the basis functions)
    wcases, widx = [], []
    for i, c in enumerate(cases):
        st, r = impl[i]
        if st != 'ok' or r[0] != 'ok':
            continue
        n = len(c['dim']['pts'])
        xs = [F(x) for x in c['dim']['pts']]
        if c['family'] == 'simpson' and c['boundary'] and n % 2 == 1 and n >= 3:
            wcases.append((5, [xs])); widx.append(i)
        elif c['family'] == 'lagrange' and n <= 34:
            wcases.append((4, [c['par']['p'], c['boundary'], c['mb'], F(c['dim']['a']), F(c['dim']['b']), xs, c['dim']['levels']]))
            widx.append(i)
    for i, mr in zip(widx, run_model(9, wcases)):
        c = cases[i]; res = impl[i][1][1]
        chk.count('cert:%s weights compared with the model' % c['family'])
        a, b = F(c['dim']['a']), F(c['dim']['b'])
        tol = TOL_CERT * position_scale(a, b) * (b - a)
        mw = None if (mr == [0] or sx.is_err(mr)) else [sx.q(x) for x in mr[1]]
        if mw is None or len(mw) != len(res['weights']) or any(abs(x - y) > tol for x, y in zip(res['weights'], mw)):
            j = None if mw is None or len(mw) != len(res['weights']) else next(j for j, (x, y) in enumerate(zip(res['weights'], mw)) if abs(x - y) > tol)
            chk.violation('corr:C09/%s-weights' % c['family'], 'rule-weights-differ', cert_sig(c), c,
                          dict(index=j, impl=str([float(x) for x in res['weights']])[:300],
                               model=str(None if mw is None else [float(x) for x in mw])[:300]), failing_input=False)
    mres = run_model(9, mcases)
    for (i, K, tols), mr in zip(midx, mres):
        c = cases[i]; res = impl[i][1][1]
        fam = c['family']
        sig0 = cert_sig(c)
        chk.count('cert:moments_ok evaluated'); chk.count('cert:degrees<%d' % K)
        chk.traces += 1
        ok, resid, nonneg = mr
        keys.append(('cert', fam, str(sorted(c['par'].items())), c['boundary'], c['mb'], str(c['dim']['pts'])))
        if len(samples) < 3 and len(c['dim']['pts']) >= 6 and ok:
            samples.append(dict(kind='cert', family=fam, par=c['par'], boundary=c['boundary'], points=c['dim']['pts'],
                                degrees_checked=K, residuals=[float(sx.q(x)) for x in resid]))
        if fam == 'highorder' and not nonneg and c['boundary']:
            chk.count('cert:highorder-negative-weight')
        if ok:
            continue
        deg = next(j for j, (x, t) in enumerate(zip(resid, tols)) if abs(sx.q(x)) > t)
        key = ('cert-mom', fam, c['boundary'], c['mb'], deg)
        if SHRUNK.get(key, 0) < 1:
            SHRUNK[key] = 1
            SHRINK_JOBS.append((len(chk.violations), dict(kind='cert', case=c, mode='mom', deg=deg)))
        chk.violation('checker:moments_ok', 'moment-residual', dict(sig0, degree=deg), c,
                      dict(text='rule does not reproduce the moment of degree %d' % deg,
                           residuals=[float(sx.q(x)) for x in resid], tolerances=[float(t) for t in tols],
                           weights=[float(w) for w in res['weights']][:40], shrunk_from_points=len(c['dim']['pts'])))


def first_bad_degree(c, res):
    """Python twin of moments_ok used only for shrinking (the verdict itself comes from the extracted Coq checker)."""
    a, b = F(c['dim']['a']), F(c['dim']['b'])
    xs = [F(x) for x in c['dim']['pts']]
    inner = xs if c['boundary'] else xs[1:-1]
    if res['coords'] != inner or len(res['weights']) != len(inner):
        return None
    K = cert_degrees(c, res)
    if K is None:
        return None
    npts, nwts, na, nb = normalise_rule(inner, res['weights'], a, b)
    for j, tol in enumerate(moment_tolerances(npts, nwts, na, nb, K, position_scale(a, b))):
        ex = (nb ** (j + 1) - na ** (j + 1)) / (j + 1)
        if abs(sum(w * x ** j for w, x in zip(nwts, npts)) - ex) > tol:
            return j
    return None


# ----------------------------------------------------------------------------------------------- part C: histories on ONE object
# 2-4 consecutive set_grid requests on one grid object of every family of the envelope (same stripes again, a refinement that leaves
# one half unchanged, another tree, exchanged / equal / scaled stripes in a second dimension), every step compared with a FRESH object
# (exact equality: the same arithmetic), with the model (trapezoid) / the extracted moment checker (other families), plus argument
# immutability (the point and level arrays handed in must not be modified) and returned-array aliasing (the returned weight arrays are
# overwritten by the caller before the next request).
HIST_FAMILIES = ['trap', 'trap', 'simpson', 'highorder', 'highorder', 'highorder', 'lagrange', 'bspline']
STEP_KINDS = ['same', 'same', 'refine-right', 'refine-right', 'refine-left', 'refine-any', 'other-tree', 'swap-dims', 'back-to-first']


def refine_dim(rng, dd, side):
    """Split one leaf interval of the tree grid at its midpoint; side 'right'/'left' keeps the other half of [a,b] unchanged."""
    pts, lev = dd['pts'], dd['levels']
    mid = (F(dd['a']) + F(dd['b'])) / 2
    cand = []
    for i in range(len(pts) - 1):
        l, r = F(pts[i]), F(pts[i + 1])
        m = (l + r) / 2
        if F(float(m)) != m or max(lev[i], lev[i + 1]) >= 12:
            continue
        if side == 'right' and l < mid:
            continue
        if side == 'left' and r > mid:
            continue
        cand.append(i)
    if not cand:
        return dict(dd, pts=list(pts), levels=list(lev))
    i = rng.choice(cand if side != 'ends' else [cand[0], cand[-1]])
    m = float((F(pts[i]) + F(pts[i + 1])) / 2)
    return dict(dd, pts=pts[:i + 1] + [m] + pts[i + 1:], levels=lev[:i + 1] + [max(lev[i], lev[i + 1]) + 1] + lev[i + 1:])


def scale_dim(dd, a, b):
    """The same tree on another interval (equal level vector, affinely mapped points)."""
    a0, b0 = F(dd['a']), F(dd['b'])
    pts = [float(F(a) + (F(x) - a0) * (F(b) - F(a)) / (b0 - a0)) for x in dd['pts']]
    return dict(a=a, b=b, pts=pts, levels=list(dd['levels']))


def gen_hist_case(rng, big=False):
    fam = rng.choice(HIST_FAMILIES)
    par = {}
    if fam == 'trap':
        flags = rng.choice([(True, False), (False, False), (False, True), (False, True)])
    elif fam == 'simpson':
        flags = rng.choice([(True, False), (True, False), (False, False)])
    elif fam == 'highorder':
        par = dict(split_up=rng.random() < 0.6, max_degree=rng.choice([2, 3, 5, 5, 7]), do_nnls=rng.random() < 0.1)
        flags = rng.choice([(True, False), (True, False), (True, False), (False, False)])
    else:
        par = dict(p=rng.choice([1, 2, 3, 5]) if fam == 'lagrange' else rng.choice([1, 3, 5]))
        flags = rng.choice([(True, False), (True, False), (False, True)])
    hier = fam in ('lagrange', 'bspline')
    d = 1 if rng.random() < (0.65 if hier else 0.5) else 2
    iv0 = pick_interval(rng)
    n0 = rng.choice([3, 4, 5, 5, 6, 7, 9]) if rng.random() < 0.45 else rng.randrange(10, 26 if hier else 41)
    if big:
        n0 = rng.choice([65, 97, 129]) if not hier else 65
    style = rng.choice(['uniform', 'left', 'right', 'right', 'ends', 'point'])
    pts, lev = gen_tree(rng, iv0[0], iv0[1], n0, style, False, 9 if hier else 14)
    dims = [dict(a=iv0[0], b=iv0[1], pts=pts, levels=lev)]
    mode2 = None
    if d == 2:
        mode2 = rng.choice(['equal-stripe', 'equal-stripe', 'scaled-stripe', 'scaled-stripe', 'independent'])
        if mode2 == 'equal-stripe':
            dims.append(dict(dims[0], pts=list(pts), levels=list(lev)))
        elif mode2 == 'scaled-stripe':
            iv1 = pick_interval(rng, exclude=iv0)
            dims.append(scale_dim(dims[0], iv1[0], iv1[1]))
        else:
            iv1 = pick_interval(rng)
            p1, l1 = gen_tree(rng, iv1[0], iv1[1], rng.choice([3, 4, 5, 7, 9, 12]), rng.choice(['uniform', 'left', 'right']), False, 9)
            dims.append(dict(a=iv1[0], b=iv1[1], pts=p1, levels=l1))
    steps = [dict(kind='first', dims=[dict(pts=list(x['pts']), levels=list(x['levels'])) for x in dims])]
    cur = [dict(x) for x in dims]
    for _ in range(rng.choice([1, 2, 2, 3])):
        kind = rng.choice(STEP_KINDS)
        if kind == 'swap-dims' and not (d == 2 and mode2 != 'independent'):
            kind = 'refine-right'
        if kind == 'same':
            nxt = cur
        elif kind.startswith('refine'):
            k = rng.randrange(d)
            nxt = [dict(x) for x in cur]
            for _r in range(rng.choice([1, 1, 2])):
                nxt[k] = refine_dim(rng, nxt[k], kind.split('-')[1])
        elif kind == 'other-tree':
            k = rng.randrange(d)
            nxt = [dict(x) for x in cur]
            n1 = rng.choice([3, 4, 5, 6, 7, 9, len(cur[k]['pts'])])      # also: another tree of EQUAL size
            p1, l1 = gen_tree(rng, cur[k]['a'], cur[k]['b'], n1, rng.choice(['uniform', 'left', 'right', 'point']), False, 9 if hier else 14)
            nxt[k] = dict(cur[k], pts=p1, levels=l1)
        elif kind == 'swap-dims':
            nxt = [scale_dim(cur[1], cur[0]['a'], cur[0]['b']), scale_dim(cur[0], cur[1]['a'], cur[1]['b'])]
        else:
            nxt = [dict(x) for x in dims]
        cur = nxt
        steps.append(dict(kind=kind, dims=[dict(pts=list(x['pts']), levels=list(x['levels'])) for x in cur]))
    return dict(kind='hist', family=fam, par=par, boundary=flags[0], mb=flags[1], intervals=[[x['a'], x['b']] for x in dims],
                mode2=mode2, steps=steps, poke=rng.random() < 0.6,
                # the driver hands lists in; numpy arrays are accepted by every family except GlobalBSplineGrid
                # (AttributeError: 'numpy.ndarray' object has no attribute 'index', Grid.py compute_1D_quad_weights) - excluded there
                arg_style='list' if fam == 'bspline' else rng.choice(['list', 'ndarray', 'ndarray']),
                values_seed=rng.randrange(1 << 30))


def _make_grid(G, case):
    fam, par, bd, mb = case['family'], case['par'], case['boundary'], case['mb']
    a = [iv[0] for iv in case['intervals']]; b = [iv[1] for iv in case['intervals']]
    if fam == 'trap':
        return G.GlobalTrapezoidalGrid(a, b, boundary=bd, modified_basis=mb)
    if fam == 'simpson':
        return G.GlobalSimpsonGrid(a, b, boundary=bd, modified_basis=mb)
    if fam == 'highorder':
        return G.GlobalHighOrderGrid(a, b, boundary=bd, modified_basis=mb, **par)
    if fam == 'lagrange':
        return G.GlobalLagrangeGrid(a, b, boundary=bd, modified_basis=mb, p=par['p'])
    return G.GlobalBSplineGrid(a, b, boundary=bd, modified_basis=mb, p=par['p'])


def _observe(G, np, Function, g, case, step, style):
    """One set_grid request on g; returns (observables, args_unchanged)."""
    d = len(case['intervals'])
    conv = (lambda x: np.array(x, dtype=float)) if style == 'ndarray' else list
    convl = (lambda x: np.array(x, dtype=int)) if style == 'ndarray' else list
    pts = [conv(dd['pts']) for dd in step['dims']]; lev = [convl(dd['levels']) for dd in step['dims']]
    g.set_grid(pts, lev)
    unchanged = all([float(x) for x in p_] == dd['pts'] and [int(x) for x in l_] == dd['levels']
                    for p_, l_, dd in zip(pts, lev, step['dims']))
    res = dict(coords=[_rl(c) for c in g.coordinate_array], weights=[_rl(w) for w in g.weights],
               num_points=[int(x) for x in g.levelToNumPoints([max(dd['levels']) for dd in step['dims']])])
    if case['family'] in ('lagrange', 'bspline') and d == 1:
        coords = [float(x) for x in g.coordinate_array[0]]
        if coords:
            class OneHot(Function):
                def eval(self, c):
                    v = np.zeros(len(coords)); v[coords.index(c[0])] = 1.0
                    return v

                def output_length(self):
                    return len(coords)
            a = [iv[0] for iv in case['intervals']]; b = [iv[1] for iv in case['intervals']]
            w = g.integrate(OneHot(), [max(step['dims'][0]['levels'])], a, b)
            res['effective'] = _rl(np.asarray(w).reshape(-1))
        else:
            res['effective'] = []
        unchanged = unchanged and [float(x) for x in pts[0]] == step['dims'][0]['pts']
    if case['family'] in ('lagrange', 'bspline') and d == 2 and all(len(c) for c in g.coordinate_array):
        # hierarchical rule in two dimensions: the integrals of 1, x, y (the per-dimension nodal weights are not exposed)
        class Lin3(Function):
            def eval(self, c):
                return np.array([1.0, c[0], c[1]])

            def output_length(self):
                return 3
        a = [iv[0] for iv in case['intervals']]; b = [iv[1] for iv in case['intervals']]
        w = g.integrate(Lin3(), [max(dd['levels']) for dd in step['dims']], a, b)
        res['integrals'] = _rl(np.asarray(w).reshape(-1))
    return res, unchanged


def impl_hist(case):
    import numpy as np
    import warnings
    warnings.filterwarnings('ignore')
    from sparseSpACE import Grid as G
    from sparseSpACE.Function import Function
    out = []
    try:
        g = _make_grid(G, case)
    except Exception as e:
        return [dict(reused=_exc(e), fresh=_exc(e), args_unchanged=True)]
    for step in case['steps']:
        rec = {}
        try:
            res, unchanged = _observe(G, np, Function, g, case, step, case['arg_style'])
            rec['reused'] = ('ok', res); rec['args_unchanged'] = unchanged
            if case['poke']:
                # the caller owns what it got: overwrite the returned weight arrays in place
                for w in g.weights:
                    try:
                        w *= -7.0
                    except Exception:
                        pass
        except Exception as e:
            rec['reused'] = _exc(e); rec['args_unchanged'] = True
        # the same request on FRESH objects, one one-dimensional object per dimension: the rule of a dimension depends on its own
        # stripe and interval only (neither on earlier requests nor on the other dimensions)
        try:
            fr = dict(coords=[], weights=[], num_points=[])
            for k in range(len(case['intervals'])):
                c1 = dict(case, intervals=[case['intervals'][k]])
                r1, _ = _observe(G, np, Function, _make_grid(G, c1), c1, dict(step, dims=[step['dims'][k]]), 'list')
                fr['coords'] += r1['coords']; fr['weights'] += r1['weights']; fr['num_points'] += r1['num_points']
                if 'effective' in r1 and len(case['intervals']) == 1:
                    fr['effective'] = r1['effective']
                if 'effective' in r1:
                    fr.setdefault('effective_dims', []).append(r1['effective'])
            if len(fr.get('effective_dims', [])) == 2:
                (w0, w1), (x0, x1) = fr['effective_dims'], fr['coords']
                s0, s1 = sum(w0), sum(w1)
                fr['integrals'] = [s0 * s1, sum(w * x for w, x in zip(w0, x0)) * s1, s0 * sum(w * x for w, x in zip(w1, x1))]
            fr.pop('effective_dims', None)
            rec['fresh'] = ('ok', fr)
        except Exception as e:
            rec['fresh'] = _exc(e)
        out.append(rec)
    return out


def hist_step_cases(case, si):
    """The fresh-object cases (one per dimension) that step si of the history corresponds to: shape of part A / part B cases."""
    res = []
    for k, (iv, dd) in enumerate(zip(case['intervals'], case['steps'][si]['dims'])):
        dim = dict(a=iv[0], b=iv[1], pts=dd['pts'], levels=dd['levels'])
        if case['family'] == 'trap':
            res.append(dict(kind='valid', dims=[dim], boundary=case['boundary'], mb=case['mb'], wsplit=False, polys=[[1, 1]],
                            scramble=1, values_seed=case['values_seed'] + k))
        else:
            lv = dd['levels']
            n = len(lv)
            full = n >= 3 and (n - 1) & (n - 2) == 0 and sorted(lv[1:-1]) == sorted(
                [l for l in range(1, (n - 1).bit_length()) for _ in range(2 ** (l - 1))]) and \
                all(F(dd['pts'][j + 1]) - F(dd['pts'][j]) == F(dd['pts'][1]) - F(dd['pts'][0]) for j in range(n - 1))
            res.append(dict(kind='cert', family=case['family'], par=case['par'], boundary=case['boundary'], mb=case['mb'], dim=dim,
                            wsplit=False, full=full))
    return res


def hist_predicate(case, si, obs):
    """Property predicate (Python twin) on what the object returned in step si. None or text."""
    if obs[0] != 'ok':
        return 'set_grid raises %s on a valid refinement-tree grid' % (obs[1:],)
    res = obs[1]
    if 'integrals' in res and (case['boundary'] or case['mb']):
        (a0, b0), (a1, b1) = [(F(iv[0]), F(iv[1])) for iv in case['intervals']]
        exact = [(b0 - a0) * (b1 - a1), (b0 * b0 - a0 * a0) / 2 * (b1 - a1), (b0 - a0) * (b1 * b1 - a1 * a1) / 2]
        scale = (b0 - a0) * (b1 - a1) * max(1, abs(a0), abs(b0), abs(a1), abs(b1))
        for name, got, ex in zip(('1', 'x', 'y'), res['integrals'], exact):
            if abs(got - ex) > F(1, 10 ** 8) * scale:
                return 'two-dimensional rule: integral of %s is %s, exact %s' % (name, float(got), float(ex))
    for k, pc in enumerate(hist_step_cases(case, si)):
        if case['family'] == 'trap':
            o = oracle_trap_dim(pc, 0, res['coords'][k], res['weights'][k], None, 0 if is_exact(pc) else TOL_EXACTISH)
            if o:
                return 'dimension %d: %s: %s' % (k, o[0], o[1])
        else:
            hier = case['family'] in ('lagrange', 'bspline')
            if hier and 'effective' not in res:
                continue
            r1 = dict(coords=res['coords'][k], weights=res['effective'] if hier else res['weights'][k])
            if case['family'] == 'simpson' and not case['boundary']:
                continue
            j = first_bad_degree(pc, r1)
            if j is not None:
                return 'dimension %d: moment of degree %d not reproduced' % (k, j)
            inner = [F(x) for x in pc['dim']['pts']]
            inner = inner if case['boundary'] else inner[1:-1]
            if r1['coords'] != inner or len(r1['weights']) != len(inner):
                return 'dimension %d: coordinates / weights do not line up with the (inner) points' % k
    return None


def check_hist(chk, cases, impl, keys, samples):
    mcases, midx = [], []
    for i, c in enumerate(cases):
        st, r = impl[i]
        if st != 'ok':
            continue
        for si, rec in enumerate(r):
            if rec['reused'][0] != 'ok':
                continue
            res = rec['reused'][1]
            for k, pc in enumerate(hist_step_cases(c, si)):
                if c['family'] == 'trap':
                    dd = pc['dims'][0]
                    mcases.append((1, [c['boundary'], c['mb'], F(dd['a']), F(dd['b']), [F(x) for x in dd['pts']], dd['levels']]))
                    midx.append((i, si, k, 'model', None))
                else:
                    hier = c['family'] in ('lagrange', 'bspline')
                    if (hier and 'effective' not in res) or (c['family'] == 'simpson' and not c['boundary']):
                        continue
                    w = res['effective'] if hier else res['weights'][k]
                    a, b = F(pc['dim']['a']), F(pc['dim']['b'])
                    xs = [F(x) for x in pc['dim']['pts']]
                    inner = xs if c['boundary'] else xs[1:-1]
                    K = cert_degrees(pc, {})
                    if K is None or not inner or len(w) != len(inner) or res['coords'][k] != inner:
                        continue
                    npts, nwts, na, nb = normalise_rule(inner, w, a, b)
                    tols = moment_tolerances(npts, nwts, na, nb, K, position_scale(a, b))
                    mcases.append((2, [npts, nwts, na, nb, tols])); midx.append((i, si, k, 'moments', tols))
    mres = run_model(9, mcases)
    verdict = {}
    for (i, si, k, what, tols), mr in zip(midx, mres):
        verdict.setdefault((i, si), []).append((k, what, tols, mr))
    for i, c in enumerate(cases):
        st, r = impl[i]
        fam = c['family']
        d = len(c['intervals'])
        chk.count('hist:%s boundary=%d modified=%d' % (fam, c['boundary'], c['mb'])); chk.count('hist:d=%d' % d)
        for iv in c['intervals']:
            chk.count('magnitude(hist)=' + magnitude_class(iv[0], iv[1]))
        chk.count('hist:steps=%d' % len(c['steps'])); chk.count('hist:args=%s poke=%d' % (c['arg_style'], c['poke']))
        if c['mode2']:
            chk.count('hist:second-dimension=' + c['mode2'])
        for sk in c['steps'][1:]:
            chk.count('hist:step=' + sk['kind'])
        chk.count('hist:max-points=%s' % ('>64' if max(len(dd['pts']) for sk in c['steps'] for dd in sk['dims']) > 64 else '<=64'))
        if fam == 'highorder':
            chk.count('hist:highorder split_up=%d' % c['par']['split_up'])
        pc0 = hist_step_cases(c, 0)[0]
        sig0 = dict(cert_sig(pc0) if fam != 'trap' else {'family': 'trap', 'boundary': int(c['boundary']), 'mb': int(c['mb']),
                                                         'magnitude': magnitude_class(*c['intervals'][0])})
        poss = [position_class(iv[0], iv[1]) for iv in c['intervals']]
        sig0['position'] = next((p_ for p_ in ('far', 'symmetric') if p_ in poss), 'near')     # over all dimensions of the object
        sig0['magnitude'] = sorted(magnitude_class(iv[0], iv[1]) for iv in c['intervals'])[-1]
        if st != 'ok':
            chk.violation('corr:C09/history', 'worker-failed', dict(sig0, status=st), c, dict(impl=str(r)[:300]))
            continue
        chk.traces += 1
        reported = False
        for si, rec in enumerate(r):
            hist = dict(c, steps=c['steps'][:si + 1])       # the whole history up to this step replays
            ru, fr = rec['reused'], rec['fresh']
            n = len(c['steps'][si]['dims'][0]['pts'])
            # --- the fresh object first: what a single request does (same verdicts as parts A / B, known findings included)
            if fr[0] == 'exc':
                if si == 0 or ru[0] != 'exc':
                    sig = dict(sig0, exc=fr[1], parity='even' if n % 2 == 0 else 'odd')
                    chk.violation('oracle:cert/no-exception', 'cert-exception', sig, hist,
                                  dict(exception=fr[1:], text='set_grid raises on a valid refinement-tree grid (fresh object)'))
                if ru[0] == 'exc':
                    continue
            # --- argument immutability
            if not rec['args_unchanged'] and not reported:
                chk.violation('oracle:history/arguments-unchanged', 'argument-modified', dict(sig0, step=c['steps'][si]['kind']), hist,
                              dict(text='set_grid / integrate modified the point or level arrays handed in (step %d)' % si))
                reported = True
            # --- the re-used object against the fresh one
            why = None
            if ru[0] == 'exc':
                why = dict(observable='set_grid raises on the re-used object', impl=ru, fresh='accepts')
            elif fr[0] == 'ok':
                for obs in ('coords', 'weights', 'num_points', 'effective'):
                    if ru[1].get(obs) != fr[1].get(obs):
                        why = dict(observable=obs, reused=str(ru[1].get(obs))[:400], fresh=str(fr[1].get(obs))[:400])
                        break
            if why and not reported:
                pred = hist_predicate(c, si, ru)
                pred_fresh = hist_predicate(c, si, fr)
                chk.violation('corr:C09/history', 'history-differs', dict(sig0, step=c['steps'][si]['kind'], observable=why['observable']),
                              hist, dict(step=si, differs=why, property_predicate_on_reused_object=pred or 'holds',
                                         property_predicate_on_fresh_object=pred_fresh or 'holds',
                                         text='request %d on the re-used object differs from the same request on a fresh object' % si),
                              failing_input=bool(pred) and not pred_fresh)
                if SHRUNK.get(('hist', fam, why['observable']), 0) < 1:
                    SHRUNK[('hist', fam, why['observable'])] = 1
                    SHRINK_JOBS.append((len(chk.violations) - 1, dict(kind='hist', case=hist)))
                reported = True
            # --- property predicate on what the re-used object returned (covers the two-dimensional hierarchical integrals)
            if not why and not reported and ru[0] == 'ok' and fr[0] == 'ok':
                pred = hist_predicate(c, si, ru)
                if pred and not hist_predicate(c, si, fr):
                    chk.violation('oracle:history/predicate', 'history-predicate', dict(sig0, step=c['steps'][si]['kind']), hist,
                                  dict(step=si, property_predicate_on_reused_object=pred, property_predicate_on_fresh_object='holds'))
                    reported = True
            # --- model / verified checker on what the re-used object returned
            for k, what, tols, mr in verdict.get((i, si), []):
                if what == 'model':
                    if mr == [0] or sx.is_err(mr):
                        continue
                    _, mco, mwe, mle, mnp = mr
                    mwe = [sx.q(x) for x in mwe]; mco = [sx.q(x) for x in mco]
                    pck = hist_step_cases(c, si)[k]
                    tolk = 0 if is_exact(pck) else TOL_EXACTISH * (F(pck['dims'][0]['b']) - F(pck['dims'][0]['a']))
                    same_w = len(mwe) == len(ru[1]['weights'][k]) and all(close(x, y, tolk) for x, y in zip(ru[1]['weights'][k], mwe))
                    if (not same_w or mco != ru[1]['coords'][k]) and not reported:
                        pred = hist_predicate(c, si, ru)
                        chk.violation('corr:C09/history', 'history-differs', dict(sig0, step=c['steps'][si]['kind'], observable='model'),
                                      hist, dict(step=si, dim=k, impl=str(ru[1]['weights'][k])[:300], model=str(mwe)[:300],
                                                 property_predicate_on_reused_object=pred or 'holds'), failing_input=bool(pred))
                        reported = True
                else:
                    ok, resid, nonneg = mr
                    chk.count('cert:moments_ok evaluated')
                    if not ok:
                        deg = next(j for j, (x, t) in enumerate(zip(resid, tols)) if abs(sx.q(x)) > t)
                        chk.violation('checker:moments_ok', 'moment-residual', dict(sig0, degree=deg, history_step=si), hist,
                                      dict(text='rule returned by request %d does not reproduce the moment of degree %d' % (si, deg),
                                           dim=k, residuals=[float(sx.q(x)) for x in resid], tolerances=[float(t) for t in tols]))
        if len(c['steps']) >= 2 and max(len(dd['pts']) for dd in c['steps'][0]['dims']) >= 3:
            keys.append(('hist', fam, str(sorted(c['par'].items())), c['boundary'], c['mb'], str(c['steps'])))
        if len(samples) < 4 and fam == 'highorder' and len(c['steps']) >= 3:
            samples.append(dict(kind='history', family=fam, par=c['par'], boundary=c['boundary'], intervals=c['intervals'],
                                steps=[dict(kind=sk['kind'], points=[dd['pts'] for dd in sk['dims']]) for sk in c['steps']]))


def hist_fails(case):
    """Does the last request of the history still differ from a fresh object / modify its arguments / raise? (runs in a worker)"""
    try:
        r = impl_hist(case)
    except Exception:
        return False
    rec = r[-1]
    if not rec['args_unchanged']:
        return True
    if rec['reused'][0] != 'ok':
        return rec['fresh'][0] == 'ok'
    return rec['fresh'][0] == 'ok' and any(rec['reused'][1].get(o) != rec['fresh'][1].get(o) for o in ('coords', 'weights', 'num_points', 'effective'))


def shrink_hist(case):
    cur = case
    if not hist_fails(cur):
        return case
    changed = True
    while changed:
        changed = False
        # drop earlier requests, then the second dimension, then leaf points of the first request
        for j in range(len(cur['steps']) - 1):
            cd = dict(cur, steps=cur['steps'][:j] + cur['steps'][j + 1:])
            if hist_fails(cd):
                cur = cd; changed = True
                break
        if changed:
            continue
        if len(cur['intervals']) == 2:
            for k in (0, 1):
                cd = dict(cur, intervals=[cur['intervals'][k]], mode2=None,
                          steps=[dict(sk, dims=[sk['dims'][k]]) for sk in cur['steps']])
                if hist_fails(cd):
                    cur = cd; changed = True
                    break
        if changed:
            continue
        if cur['poke']:
            cd = dict(cur, poke=False)
            if hist_fails(cd):
                cur = cd; changed = True
    return cur


# ----------------------------------------------------------------------------------------------- fixed corpus
def corpus():
    t = []
    for mb, bd in [(False, True), (False, False), (True, False)]:
        for pts, lev in [([0.0, 0.5, 1.0], [0, 1, 0]), ([0.0, 0.25, 0.5, 1.0], [0, 2, 1, 0]),
                         ([0.0, 0.125, 0.25, 0.5, 1.0], [0, 3, 2, 1, 0]),
                         ([0.0, 0.125, 0.25, 0.5, 0.75, 1.0], [0, 3, 2, 1, 2, 0]),
                         ([0.0, 0.0625, 0.125, 0.25, 0.5, 0.75, 0.875, 0.9375, 1.0], [0, 4, 3, 2, 1, 2, 3, 4, 0])]:
            t.append(dict(kind='valid', dims=[dict(a=0.0, b=1.0, pts=pts, levels=lev)], boundary=bd, mb=mb, wsplit=False,
                          polys=[[1, 3]], scramble=1, values_seed=1))
    t.append(dict(kind='valid', dims=[dict(a=-1.0, b=3.0, pts=[-1.0, 0.0, 1.0, 2.0, 3.0], levels=[0, 2, 1, 2, 0]),
                                      dict(a=0.0, b=3.0, pts=[0.0, 0.75, 1.5, 3.0], levels=[0, 2, 1, 0])],
                  boundary=False, mb=True, wsplit=False, polys=[[1, 1], [2, -1]], scramble=2, values_seed=2))
    t.append(dict(kind='valid', dims=[dict(a=131072.0, b=131072.5, pts=[131072.0, 131072.1875, 131072.3046875, 131072.5],
                                           levels=[0, 1, 2, 0])], boundary=False, mb=True, wsplit=True, polys=[[1, 1]], scramble=2,
                  values_seed=2))
    ce = []
    # exemplars of the known findings
    ce.append(dict(kind='cert', family='simpson', par={}, boundary=True, mb=False, wsplit=False, full=False,
                   dim=dict(a=0.0, b=1.0, pts=[0.0, 0.25, 0.5, 1.0], levels=[0, 2, 1, 0])))
    ce.append(dict(kind='cert', family='highorder', par=dict(split_up=False, max_degree=5, do_nnls=False), boundary=False, mb=False,
                   wsplit=False, full=False, dim=dict(a=0.0, b=1.0, pts=[0.0, 0.5, 0.75, 1.0], levels=[0, 1, 2, 0])))
    ce.append(dict(kind='cert', family='highorder', par=dict(split_up=True, max_degree=5, do_nnls=False), boundary=False, mb=False,
                   wsplit=False, full=False, dim=dict(a=-1.0, b=3.0, pts=[-1.0, -0.5, 0.0, 1.0, 1.5, 1.75, 2.0, 3.0], levels=[0, 3, 2, 1, 3, 4, 2, 0])))
    ce.append(dict(kind='cert', family='lagrange', par=dict(p=2), boundary=False, mb=True, wsplit=False, full=False,
                   dim=dict(a=0.0, b=1.0, pts=[0.0, 0.5, 1.0], levels=[0, 1, 0])))
    ce.append(dict(kind='cert', family='simpson', par={}, boundary=True, mb=False, wsplit=False, full=True,
                   dim=dict(a=1000.0, b=1001.0, pts=[1000.0, 1000.5, 1001.0], levels=[0, 1, 0])))
    ce.append(dict(kind='cert', family='lagrange', par=dict(p=1), boundary=False, mb=True, wsplit=False, full=False,
                   dim=dict(a=0.0, b=1.0, pts=[0.0, 0.5, 1.0], levels=[0, 1, 0])))
    ce.append(dict(kind='cert', family='lagrange', par=dict(p=2), boundary=False, mb=True, wsplit=False, full=False,
                   dim=dict(a=0.0, b=1.0, pts=[0.0, 0.25, 0.5, 1.0], levels=[0, 2, 1, 0])))
    ce.append(dict(kind='cert', family='bspline', par=dict(p=1), boundary=False, mb=True, wsplit=False, full=False,
                   dim=dict(a=-1.0, b=3.0, pts=[-1.0, -0.75, -0.625, -0.5, 0.0, 0.5, 0.75, 0.875, 1.0, 3.0],
                            levels=[0, 4, 5, 3, 2, 3, 4, 5, 1, 0])))
    return t, ce


GEN_CHAIN = ['Base/PyNum.v', 'Gen/GridGen.v', 'Proofs/PyNumFacts.v', 'Proofs/GenGridEq.v']


def hist_corpus():
    """Fixed histories: the same graded stripe twice / a refinement that leaves the left half unchanged / equal stripes in two dimensions."""
    res = []
    g1 = dict(pts=[0.0, 0.5, 0.75, 0.875, 1.0], levels=[0, 1, 2, 3, 0])
    g2 = dict(pts=[0.0, 0.5, 0.75, 0.875, 0.9375, 1.0], levels=[0, 1, 2, 3, 4, 0])
    for fam, par, flags in [('highorder', dict(split_up=True, max_degree=5, do_nnls=False), (True, False)),
                            ('highorder', dict(split_up=False, max_degree=5, do_nnls=False), (True, False)),
                            ('simpson', {}, (True, False)), ('trap', {}, (False, True)), ('trap', {}, (True, False)),
                            ('lagrange', dict(p=2), (True, False)), ('bspline', dict(p=3), (True, False))]:
        res.append(dict(kind='hist', family=fam, par=par, boundary=flags[0], mb=flags[1], intervals=[[0.0, 1.0]], mode2=None,
                        steps=[dict(kind='first', dims=[g1]), dict(kind='same', dims=[g1]), dict(kind='refine-right', dims=[g2])],
                        arg_style='list' if fam == 'bspline' else 'ndarray', poke=True, values_seed=3))
        res.append(dict(kind='hist', family=fam, par=par, boundary=flags[0], mb=flags[1], intervals=[[0.0, 1.0], [-1.0, 3.0]],
                        mode2='scaled-stripe',
                        steps=[dict(kind='first', dims=[g1, dict(g1, pts=[-1.0, 1.0, 2.0, 2.5, 3.0])]),
                               dict(kind='refine-right', dims=[g2, dict(g1, pts=[-1.0, 1.0, 2.0, 2.5, 3.0])])],
                        arg_style='list', poke=False, values_seed=4))
    return res


def run(chk):
    # source-derived model: regenerate coq/Gen/GridGen.v from the working tree BEFORE the obligations, so that the
    # C09_gen_* theorems are re-checked against GlobalTrapezoidalGrid.compute_weights as it is now
    tinfo = gen.run_translator(chk, 'grid', 'GridGen.v')
    chk.coq_obligations()
    gen_problem = gen.gen_diagnosis(chk, tinfo, GEN_CHAIN)
    gen.report(chk, tinfo, gen_problem, 'C09_gen_*')
    rng = chk.rng
    t_fixed, c_fixed = corpus()
    tcases = t_fixed + [gen_trap_case(rng) for _ in range(chk.n(500, 20000))]
    ccases = c_fixed + [gen_cert_case(rng) for _ in range(chk.n(260, 8000))]
    keys, samples = [], []
    timpl = run_impl(impl_trap, tcases, limit=120)
    check_trap(chk, tcases, timpl, keys, samples)
    cimpl = run_impl(impl_cert, ccases, limit=120)
    check_cert(chk, ccases, cimpl, keys, samples)
    hcases = hist_corpus() + [gen_hist_case(rng) for _ in range(chk.n(420, 9000))] + \
        [gen_hist_case(rng, big=True) for _ in range(chk.n(8, 120))]
    himpl = run_impl(impl_hist, hcases, limit=240)
    check_hist(chk, hcases, himpl, keys, samples)
    run_shrink_jobs(chk)
    # a broken translation / equivalence is a broken proof obligation; reported without failing input only when the
    # correspondence and the oracle above found no concrete input on which the implementation violates the property
    gen.finish_gen(chk, tinfo, gen_problem)
    chk.record_cases(len(tcases) + len(ccases) + len(hcases), keys,
                     'refinement-tree grids (3..60 points, dyadic midpoint and weighted-split trees, strongly graded styles, 8 '
                     'intervals [a,b], d 1..3); trapezoid: boundary/modified flags, exact comparison of compute_weights, set_grid, '
                     'integrate with the extracted model + property oracle; certified: moments_ok (extracted Coq checker) on '
                     'GlobalHighOrder/Simpson weights and on effective nodal weights of GlobalLagrange/BSpline; non-trivial = valid '
                     'grid with >= 3 points; distinct by (family, flags, points); histories: 2-4 set_grid requests on ONE object of every '
                     'family (same / refined-with-one-half-unchanged / other tree / equal, scaled, exchanged stripes in a second '
                     'dimension), each compared with fresh objects, the model or the moment checker, argument immutability and '
                     'returned-array aliasing; non-trivial = at least 2 requests; distinct by the whole history', samples)
    chk.extra['checker_evaluations'] = chk.hist.get('cert:moments_ok evaluated', 0)


def replay(chk, rep):
    c = rep['case']
    if c.get('kind') == 'hist':
        st, r = run_impl(impl_hist, [c])[0]
        if st != 'ok':
            print('impl:', st, str(r)[:500]); return 1
        rc = 0
        for si, rec in enumerate(r):
            ru, fr = rec['reused'], rec['fresh']
            same = ru[0] == fr[0] and (ru[0] != 'ok' or all(ru[1].get(o) == fr[1].get(o) for o in ('coords', 'weights', 'num_points', 'effective')))
            pred = hist_predicate(c, si, ru)
            print('request %d (%s): re-used object %s a fresh object; arguments %s; property predicate on the re-used object: %s'
                  % (si, c['steps'][si]['kind'], 'agrees with' if same else 'DIFFERS from',
                     'unchanged' if rec['args_unchanged'] else 'MODIFIED', pred or 'holds'))
            if not same:
                print('   re-used:', str(ru)[:600]); print('   fresh:  ', str(fr)[:600])
            if (pred and not hist_predicate(c, si, fr)) or not rec['args_unchanged'] or (ru[0] != 'ok' and fr[0] == 'ok'):
                rc = 1
        return rc
    if c.get('kind') == 'cert':
        st, r = run_impl(impl_cert, [c])[0]
        print('impl:', st, str(r)[:1500])
        if st == 'ok' and r[0] == 'ok':
            bad = first_bad_degree(c, r[1])
            res = r[1]
            xs = [F(x) for x in c['dim']['pts']]
            inner = xs if c['boundary'] else xs[1:-1]
            K = cert_degrees(c, res)
            if K:
                a, b = F(c['dim']['a']), F(c['dim']['b'])
                npts, nwts, na, nb = normalise_rule(inner, res['weights'], a, b)
                tols = moment_tolerances(npts, nwts, na, nb, K, position_scale(a, b))
                mr = run_model(9, [(2, [npts, nwts, na, nb, tols])])[0]
                print('model moments_ok:', mr[0], 'residuals', [float(sx.q(x)) for x in mr[1]])
                print('property predicate:', 'holds' if mr[0] else 'VIOLATED (moment of degree %s)' % bad)
                return 0 if mr[0] else 1
            print('property predicate: not in scope for this configuration')
            return 0
        print('property predicate: VIOLATED (exception on a valid grid)')
        return 1
    st, r = run_impl(impl_trap, [c])[0]
    print('impl:', st, str(r)[:2000])
    ms = run_model(9, [(1, [c['boundary'], c['mb'], F(dd['a']), F(dd['b']), [F(x) for x in dd['pts']], dd['levels']]) for dd in c['dims']])
    print('model:', str(ms)[:2000])
    if st == 'ok' and r['grid'][0] == 'ok' and is_valid_trap(c):
        g = r['grid'][1]
        exact = is_exact(c)
        for k in range(len(c['dims'])):
            o = oracle_trap_dim(c, k, g['coords'][k], g['weights'][k], g['weights_scrambled'][k], 0 if exact else TOL_EXACTISH)
            print('dimension', k, 'property predicate:', o or 'holds')
            if o:
                return 1
        return 0
    if is_valid_trap(c) and not (c['mb'] and min(len(dd['pts']) for dd in c['dims']) < 3):
        print('property predicate: VIOLATED (exception on a valid grid)')
        return 1
    return 0
