"""C13: source-derived model of the adaptive driver loop (DESIGN.md 0.5.2).  coq/Gen/DriverGen.v is regenerated from
$VERIF_REPO/sparseSpACE/spatiallyAdaptiveBase.py (continue_adaptive_refinement, performSpatiallyAdaptiv; the abstract methods are
parameters of the generated functions) by harness/translate/py2gallina_machine.py --target driver under the build lock, before the
proof obligations are (re)built; Props/C13gen.v holds the theorems (generated loop = Model/Driver.run_rec, default arguments =
Driver.resolve_continue, stop index)."""
import fcntl
import hashlib
import os
import re
import subprocess
import sys
from ..core import ROOT, COQ
from .. import gen

TRANSLATOR = os.path.join(ROOT, 'harness', 'translate', 'py2gallina_machine.py')
TARGET = 'driver'
GEN_FILE = 'DriverGen.v'
GEN_CHAIN = ['Base/PyMachine.v', 'Gen/DriverGen.v', 'Proofs/PyMachineFacts.v', 'Proofs/GenDriverEq.v', 'Props/C13gen.v']
EXTRA_PROPS = ('C13gen',)
ASSUMPTION = ('source-derived driver loop: Python `ast`, the translation scheme of harness/translate/py2gallina_machine.py and the semantics '
              'libraries coq/Base/PyLib.v, PyNum.v (floats read as exact rationals), PyMachine.v (`while True`/`break` with explicit fuel) are '
              'trusted; the abstract methods (evaluate_operation, initialize_grid, refine, get_total_num_points, evaluate_final_combi, '
              'check_combi_scheme, init_adaptive_combi, operation.get_result/get_reference_solution) are parameters: nothing is assumed about '
              'them in the translation, the theorems assume that they do not raise and that get_total_num_points is a query; logging '
              '(log_util.log_info, print) is dropped by name, log_util.time_func(msg, f) is read as f(); the branches for evaluation_points, '
              'do_plot, solutions_storage and max_time are outside the model (the generated function returns no result there)')


def regenerate(chk):
    with open(os.path.join(ROOT, '.buildlock'), 'w') as lk:
        fcntl.flock(lk, fcntl.LOCK_EX)
        p = subprocess.run([sys.executable, TRANSLATOR, '--target', TARGET], capture_output=True, text=True)
    msg = '\n'.join(l for l in p.stderr.splitlines() if 'conda' not in l).strip()
    chk.checker_cmds.append('/venv/bin/python harness/translate/py2gallina_machine.py --target driver  (regenerates coq/Gen/%s from '
                            'sparseSpACE/spatiallyAdaptiveBase.py)' % GEN_FILE)
    info = dict(rc=p.returncode, message=msg, target=TARGET)
    try:
        src = open(os.path.join(COQ, 'Gen', GEN_FILE)).read()
        info['generated_sha256'] = hashlib.sha256(src.encode()).hexdigest()
        info['translated'] = re.findall(r'^\(\* (\S+:\d+-\d+)  (\S+) \*\)$', src, re.M)
    except OSError:
        pass
    chk.extra['source_derived_model'] = info
    return info


def diagnose(chk, info):
    problem = gen.gen_diagnosis(chk, info, GEN_CHAIN)
    gen.report(chk, info, problem, 'C13_gen_*')
    return problem


def finish(chk, info, problem):
    gen.finish_gen(chk, info, problem)
