"""C12: source-derived model of the Function cache machine (DESIGN.md 0.5.3).  coq/Gen/FunCacheGen.v is regenerated from
$VERIF_REPO/sparseSpACE/Function.py (reset_dictionary, deactivate_caching, get_f_dict_size and three shape-specialisations of
__call__; eval / eval_vectorized / output_length are oracle parameters) by harness/translate/py2gallina_machine.py --target funcache
under the build lock, before the proof obligations are (re)built; Props/C12gen.v holds the theorems (generated transitions = the
transitions of Model/FunCache.v / FunCacheVec.v)."""
import fcntl
import hashlib
import os
import re
import subprocess
import sys
from ..core import ROOT, COQ
from .. import gen

TRANSLATOR = os.path.join(ROOT, 'harness', 'translate', 'py2gallina_machine.py')
TARGET = 'funcache'
GEN_FILE = 'FunCacheGen.v'
GEN_CHAIN = ['Base/PyMachine.v', 'Base/PyValue.v', 'Gen/FunCacheGen.v', 'Proofs/GenFunCacheEq.v', 'Props/C12gen.v']
EXTRA_PROPS = ('C12gen',)
ASSUMPTION = ('source-derived cache machine: Python `ast`, the translation scheme of harness/translate/py2gallina_machine.py and the semantics '
              'libraries coq/Base/PyLib.v, PyNum.v (floats read as exact rationals), PyMachine.v, PyValue.v (tagged None/scalar/vector/matrix values, '
              'float-tuple keyed dictionaries as association lists, reshape((n, m)) = checked identity on a row list) are trusted; __call__ is '
              'SPECIALISED on the declared shape of its argument (tuple of scalars / list of tuples / empty): np.isscalar(coordinates[0]), '
              'isinstance(coordinates[0], tuple), len(coordinates) == 0 are decided by that type and only the branch taken is translated; '
              'eval, eval_vectorized, output_length are parameters (the theorems assume that they are pure and that eval returns a number or a '
              'sequence of numbers); print is dropped by name; numpy arrays are value lists (aliasing of returned arrays is checked by the '
              'harness, not by this layer)')


def regenerate(chk):
    with open(os.path.join(ROOT, '.buildlock'), 'w') as lk:
        fcntl.flock(lk, fcntl.LOCK_EX)
        p = subprocess.run([sys.executable, TRANSLATOR, '--target', TARGET], capture_output=True, text=True)
    msg = '\n'.join(l for l in p.stderr.splitlines() if 'conda' not in l).strip()
    chk.checker_cmds.append('/venv/bin/python harness/translate/py2gallina_machine.py --target funcache  (regenerates coq/Gen/%s from '
                            'sparseSpACE/Function.py)' % GEN_FILE)
    info = dict(rc=p.returncode, message=msg, target=TARGET)
    try:
        src = open(os.path.join(COQ, 'Gen', GEN_FILE)).read()
        info['generated_sha256'] = hashlib.sha256(src.encode()).hexdigest()
        info['translated'] = re.findall(r'^\(\* (\S+:\d+-\d+)  (\S+) \*\)$', src, re.M)
    except OSError:
        pass
    chk.extra['source_derived_model'] = info
    return info


def diagnose(chk, info):
    problem = gen.gen_diagnosis(chk, info, GEN_CHAIN)
    gen.report(chk, info, problem, 'C12_gen_*')
    return problem


def finish(chk, info, problem):
    gen.finish_gen(chk, info, problem)
