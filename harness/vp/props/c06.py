"""C06: refinement structures of the dimension-wise strategy stay well formed under every refinement history.
Correspondence Coq model (Model/RefTree.v, Model/DimWise.v) <-> real SpatiallyAdaptiveSingleDimensions2 driven step by
step with scripted benefits; verified checker tree_ok on every implementation state; property oracle."""
from fractions import Fraction
from .. import sx
from ..impl import run_impl
from ..model import run_model
from . import dimwise as dw
from . import _c06_gen
from . import _c06_gen2     # second generated file (container bookkeeping methods, object-machine front end)

ASSUMPTIONS = [
    'coordinates/benefits on dyadic lattices: interval end points and the margin test are exact in binary64',
    'benefit assignments on which the binary64 margin test and the exact test differ are not generated',
    'rebalancing test abs(p/(n-2)-0.5) > abs(p1/(n-2)-0.5)+sf is decided in binary64: for the safety factors 0.1, 0, 0.125, 0.25, 0.05 and '
    'n-2 <= 64 the model decides with Coq primitive floats (table computed by Coq, C06_rebalance_test_is_binary64_bounded; the kernel '
    'primitives PrimFloat / PrimInt63 are the trusted binary64 implementation); only for n-2 > 64 the set of (p,p1,n-2) on which binary64 '
    'and exact arithmetic differ is an input computed by the harness with the same Python expression; the harness cross-checks its '
    'evaluation against the Coq tables on every run',
    'GlobalTrapezoidalGrid only (mid point = 0.5*(a+b)); chebyshev / weighted mid points / force_balanced_refinement_tree not modelled',
    'deep / install families drive the strategy directly: obj.benefit is set on every object, sa.benefit_max = refinement.get_max_benefit() '
    '(what evaluate_operation does after the error estimation), sa.refine(); no evaluation between the steps. A violation found this way is '
    'replayed through the public API (scripted ErrorCalculator, refine + continue_adaptive_refinement) and reported in that form when it reproduces',
    'install family: the refinementObjects lists of the containers of a freshly initialised strategy are replaced by '
    'RefinementObjectSingleDimension objects of a randomly constructed VALID tree (dyadic geometry, 7 of 8 refine the initial grid, binary-tree '
    'levels, >= 3 intervals) and refinement_postprocessing() is called (sa.rebalancing toggled for that call); such states over-approximate the '
    'reachable ones - C06_install_inv / C03_*_installed prove the properties for all of them',
    'lessons sweep: observer calls, sentinel overwrites of returned objects, further performSpatiallyAdaptiv legs and a companion object '
    'are no-ops in the model (pure function of the benefit history); a leg that rebuilds the refinement is modelled as a fresh run',
    _c06_gen.ASSUMPTION,
]
FIELDS = ['trees', 'lmax', 'active', 'old', 'scheme', 'book']
PROP = 6


def jsonable_bens(bens):
    return [[[[b.numerator, b.denominator] for b in bd] for bd in st] for st in bens]


def corpus(what):
    base = dict(what=what, dim=2, lmin=1, lmax=2, version=6, rebalancing=False, boundary=True, margin=None, safety=0.1,
                a=[0.0, 0.0], b=[1.0, 1.0], steps=0, seed=1)
    z4 = [[0, 1]] * 4
    out = [
        # single interval at the right end three times with rebalancing: forces a rotation
        dict(base, rebalancing=True, bens=[[[[0, 1], [0, 1], [0, 1], [1, 1]], z4],
                                            [[[0, 1]] * 4 + [[1, 1]], z4],
                                            [[[0, 1]] * 5 + [[1, 1]], z4]]),
        # all zeros: everything is refined twice
        dict(base, bens=[[z4, z4], [[[0, 1]] * 8, [[0, 1]] * 8]]),
        # tie exactly at the margin (0.5 * max)
        dict(base, margin=0.5, bens=[[[[1, 1], [1, 2], [1, 4], [0, 1]], [[1, 2], [7, 16], [1, 1], [0, 1]]]]),
        dict(base, dim=3, a=[0.0, -1.0, 2.0], b=[1.0, 1.0, 2.25], version=3, rebalancing=True, safety=0.0, steps=4, seed=7),
        dict(base, lmin=2, lmax=3, version=8, rebalancing=True, boundary=False, steps=5, seed=11),
    ]
    # strongly graded trees: only the first interval of every dimension is split, step after step, so that lmax_d grows while
    # the other subtrees stay shallow (large coarsening values: the regime where the version-specific subtraction values differ)
    for dim, version, nst, bd in [(3, 6, 3, True), (3, 7, 3, False), (3, 8, 3, True), (2, 6, 4, True), (2, 7, 4, False),
                                  (3, 2, 3, True), (3, 3, 3, False), (2, 8, 4, True)]:
        bens = [[[[1, 1]] + [[0, 1]] * (3 + k) for _ in range(dim)] for k in range(nst)]
        out.append(dict(base, dim=dim, version=version, boundary=bd, a=[0.0] * dim, b=[1.0] * dim, bens=bens))
    # exemplars of the recorded findings (lessons sweep): returned lmax / scheme alias the state; a re-run on the same object
    # starts from the caches of the previous run
    z8 = [[0, 1]] * 8
    out.append(dict(base, lmax=3, version=2, steps=0, bens=[], drive='direct', observe=True, scribble=True))
    out.append(dict(base, lmax=3, version=2, drive='direct', what=max(what, 1) if what else 0, bens=[[[[0, 1]] * 7 + [[1, 1]], z8]],
                    legs=[dict(mode='fresh', lmin=1, lmax=2, steps=0, bens=[])]))
    return out


def _first_failure(c, r, extra_oracle):
    """(why, step) of the first violated property clause in the implementation states / selections of one run, or (None, None).
    The half-updated state left behind by an exception is not inspected (the exception itself is reported)."""
    nst = len(r['states']) - (1 if 'exc' in r else 0)
    for step in range(nst):
        s = r['states'][step]
        why = dw.oracle_state_c06(c, s)
        if why is None and extra_oracle is not None:
            why = extra_oracle(c, s)
        if why:
            return why, step
    for step, (b, sel) in enumerate(zip(r['bens'], r['selected'])):
        if step + 1 >= nst:
            break
        w = dw.oracle_selection(c, b, sel)
        if w:
            return 'step %d: %s' % (step + 1, w), step + 1
    return None, None


def _confirm_public(c, nbens, extra_oracle):
    """A failing direct-drive history is replayed through the public API only (scripted ErrorCalculator, refine() +
    continue_adaptive_refinement); returns the case to report (the public-API one when it fails as well)."""
    if c.get('drive', 'full') != 'direct':
        return c, nbens
    pc = dict(c, drive='full', bens=nbens, steps=len(nbens))
    try:
        (st, r), = run_impl(dw.impl_run, [pc], nproc=1, limit=300)
    except Exception:
        return c, nbens
    if st == 'exc':
        return pc, nbens
    if st == 'ok':
        if 'exc' in r:
            return dict(pc, bens=jsonable_bens(r['bens'][:r['exc'][3]]), steps=r['exc'][3]), None
        why, wstep = _first_failure(pc, r, extra_oracle)
        if why:
            return dict(pc, bens=jsonable_bens(r['bens'][:wstep]), steps=wstep), None
    return c, nbens


def evaluate(chk, cases, what, fields, prop, extra_oracle=None):
    """Runs implementation and model on the cases, compares, evaluates checker and oracles. Returns per-case info."""
    # the library is imported once here, before the worker processes are forked (they inherit the loaded modules: the import
    # costs seconds per worker otherwise); the parent never executes library code
    import warnings
    with warnings.catch_warnings():
        warnings.simplefilter("ignore")
        import sparseSpACE.spatiallyAdaptiveSingleDimension2  # noqa: F401
    import time
    t0 = time.time()
    timing = chk.extra.setdefault('timing_s', {})

    def lap(key):
        nonlocal t0
        timing[key] = round(timing.get(key, 0) + time.time() - t0, 1)
        t0 = time.time()
    impl = run_impl(dw.impl_run, cases, limit=120)
    # a timeout under machine load is not evidence: retry those cases with few workers and a long limit; only a second
    # timeout is reported (a genuinely non-terminating loop in the implementation)
    slow = [i for i, (st, r) in enumerate(impl) if st == 'timeout']
    if slow:
        chk.count('timeouts-retried', min(len(slow), 12))
        chk.count('timeouts-not-retried', max(0, len(slow) - 12))      # many timeouts are not a load effect: they are reported
        again = run_impl(dw.impl_run, [cases[i] for i in slow[:12]], nproc=4, limit=600)
        for i, res in zip(slow[:12], again):
            impl[i] = res
    lap('implementation')
    if not chk.extra.get('float_tables_checked'):
        chk.extra['float_tables_checked'] = True
        for msg in dw.float_table_mismatches(run_model, prop):
            chk.violation('corr:C%02d/float-tables' % prop, 'float-table-mismatch', {}, None, msg, failing_input=False)
    mcases = [dw.model_case(c, r if st == 'ok' else None) for c, (st, r) in zip(cases, impl)]
    mres = run_model(prop, mcases)
    lap('model')
    # statistic: in how many rebalancing histories did a rotation actually change the levels (model with/without rebalancing);
    # only for the mixed family (the deep / installed families count rotations per step from the implementation states)
    rb = [(i, dw.model_case(dict(c, rebalancing=False, what=0), r)) for i, (c, (st, r)) in enumerate(zip(cases, impl))
          if st == 'ok' and c['rebalancing'] and c.get('family') is None and 'exc' not in r]
    for (i, _), plain in zip(rb, run_model(prop, [m for _, m in rb])):
        with_rb = mres[i]
        try:
            lv1 = [[[o[2], o[3]] for o in t] for st_ in with_rb for t in st_[0]]
            lv0 = [[[o[2], o[3]] for o in t] for st_ in plain for t in st_[0]]
            chk.count('rebalancing-histories-with-rotation' if lv1 != lv0 else 'rebalancing-histories-without-rotation')
        except Exception:
            pass
    # verified checker tree_ok on every IMPLEMENTATION state
    ck_cases, ck_idx = [], []
    for i, (c, (st, r)) in enumerate(zip(cases, impl)):
        if st != 'ok':
            continue
        for step, s in enumerate(r['states']):
            if not s.get('trees'):
                continue
            ck_cases.append((1, [[sx.rat(x) for x in c['a']], [sx.rat(x) for x in c['b']], s['lmax'], s['trees']]))
            ck_idx.append((i, step))
    lap('model-rebalancing-statistic')
    ck = run_model(prop, ck_cases)
    lap('checker')
    ck_bad = {}
    for (i, step), v in zip(ck_idx, ck):
        chk.count('checker_evaluations')
        if sx.is_err(v) or isinstance(v, tuple) or not all(v):
            ck_bad.setdefault(i, []).append((step, v))
    # further legs on the same object (axis f): each leg against the model of a fresh run / of the continued run
    leg_jobs = []
    for i, (c, (st, r)) in enumerate(zip(cases, impl)):
        if st == 'ok' and r.get('legs'):
            for j, mc, off in dw.leg_model_cases(c, r):
                leg_jobs.append((i, j, mc, off))
    leg_out = {}
    for (i, j, mc, off), res in zip(leg_jobs, run_model(prop, [m for _, _, m, _ in leg_jobs])):
        leg_out[(i, j)] = (res, off)
    lap('model-legs')
    info = []
    confirmations = 0
    for i, (c, (st, r), mr) in enumerate(zip(cases, impl, mres)):
        fam = c.get('family') or 'mixed'
        chk.count('family=%s' % fam)
        chk.count('dim=%d' % c['dim']); chk.count('version=%d' % c['version'])
        chk.count('rebalancing=%s' % c['rebalancing']); chk.count('boundary=%s' % c['boundary'])
        chk.count('lmin=%d,lmax=%d' % (c['lmin'], c['lmax']))
        sig = dict(rebalancing=c['rebalancing'])
        start = 'installed-state' if c.get('install') else 'initial-state'
        if st != 'ok':
            chk.violation('corr:C%02d/history' % prop, 'impl-exception', dict(exc=(r[0] if r else st), where=(r[1] if r else '')),
                          c, dict(impl=str(r), model=str(mr)[:300]), failing_input=True)
            info.append(None)
            continue
        chk.traces += 1
        nst = len(r['states']) - (1 if 'exc' in r else 0)
        chk.count('%s:steps' % fam, max(0, nst - 1))
        for m in (r['modes'][:-1] if c.get('drive', 'full') != 'direct' else r['modes']):
            chk.count('benefits=' + m)
        # rare situations reached (per step / per state, on the implementation)
        if c.get('install'):
            for t in c['install']['trees']:
                over = [max(o[2], o[3]) - c['lmax'] for o in t if max(o[2], o[3]) > c['lmax']]
                if len(set(over)) >= 2:
                    chk.count('install:installation:different-overshoots')
                if over and over[-1] < max(over):
                    chk.count('install:installation:last-overshoot<largest-overshoot')
        for step in range(nst):
            for e in dw.state_events(c, r['states'][step]):
                chk.count('%s:%s' % (fam, e))
            if step >= 1:
                for e in dw.step_events(c, r['states'][step - 1], r['bens'][step - 1], r['states'][step]):
                    chk.count('%s:%s' % (fam, e))
        c = dict(c, legs=None) if c.get('legs') else c
        fixed_case = dict(c, bens=jsonable_bens(r['bens']), steps=len(r['bens']))
        # oracles on the implementation alone
        why, wstep = _first_failure(c, r, extra_oracle)
        diff = dw.compare_states(c, r['states'][:nst], mr if 'exc' not in r or sx.is_err(mr) or isinstance(mr, tuple) else mr[:nst], fields)
        if why:
            fc, nb = c, jsonable_bens(r['bens'][:wstep])
            if confirmations < 24:
                confirmations += 1
                fc, nb = _confirm_public(c, nb, extra_oracle)
            if nb is not None:
                fc = dict(fc, bens=nb, steps=len(nb))
            chk.violation('oracle:C%02d' % prop, 'property-predicate', dict(clause=dw.clause_of(why), start=start), fc,
                          dict(step=wstep, why=why, corr=str(diff)[:300], family=fam, drive=fc.get('drive', 'full')), failing_input=True)
        elif 'exc' in r:
            estep = r['exc'][3]
            fc, nb = c, jsonable_bens(r['bens'][:estep])
            if confirmations < 24:
                confirmations += 1
                fc, nb = _confirm_public(c, nb, extra_oracle)
            if nb is not None:
                fc = dict(fc, bens=nb, steps=len(nb))
            chk.violation('corr:C%02d/history' % prop, 'impl-exception', dict(exc=r['exc'][0], where=r['exc'][1], start=start), fc,
                          dict(step=estep, impl=str(r['exc']), corr=str(diff)[:300], family=fam, drive=fc.get('drive', 'full'),
                               note='refine() / refinement_postprocessing() raised on a legal refinement history'),
                          failing_input=True)
        elif diff:
            step, fld, iv, mv = diff
            chk.violation('corr:C%02d/%s' % (prop, fld), 'history-differs', dict(sig, observable=fld),
                          dict(fixed_case, bens=jsonable_bens(r['bens'][:step]), steps=step),
                          dict(step=step, field=fld, impl=str(iv)[:700], model=str(mv)[:700], modes=r['modes'], family=fam),
                          failing_input=False)
        elif i in ck_bad:
            chk.violation('checker:tree_ok', 'checker-rejects-impl-state', sig, fixed_case,
                          dict(steps=str(ck_bad[i])[:300]), failing_input=False)
        legs_ok = _sweep(chk, prop, cases[i], r, fixed_case, leg_out, i, fields, extra_oracle)
        info.append(dict(result=r, model=mr, ok=(why is None and diff is None and i not in ck_bad and 'exc' not in r and legs_ok)))
    lap('oracles+comparison')
    return info


def _sweep(chk, prop, c, r, fixed_case, leg_out, i, fields, extra_oracle):
    """lessons sweep: axis histogram, implementation-only findings of the observer / aliasing / immutability probes, and the
    further legs of a history on one object"""
    ok = True
    for k, v in (r.get('axes') or {}).items():
        chk.count('axis:' + k, v)
    legs = r.get('legs') or []

    def case_upto(legno, stepno=None):
        """the case trimmed to leg `legno` (0 = first history) and `stepno` steps of that leg"""
        if legno == 0:
            return dict(fixed_case, legs=None, bens=fixed_case['bens'][:stepno] if stepno is not None else fixed_case['bens'],
                        steps=stepno if stepno is not None else fixed_case['steps'])
        ls = []
        for j, l in enumerate(legs[:legno]):
            nb = jsonable_bens(l['bens'])
            if j == legno - 1 and stepno is not None:
                nb = nb[:stepno]
            ls.append(dict(mode=l['mode'], lmin=l['lmin'], lmax=l['lmax'], steps=len(nb), bens=nb))
        return dict(fixed_case, legs=ls)

    for kind, where, detail, legno, stepno in (r.get('problems') or []):
        if kind == 'result-aliases-internal-state' and where == ('returned-scheme' if prop == 6 else 'returned-lmax'):
            continue          # reported by the other property of the pair (C06: lmax, C03: scheme)
        ok = False
        chk.violation('oracle:C%02d/axis' % prop, kind, dict(where=where), case_upto(legno, stepno),
                      dict(detail=detail, leg=legno, step=stepno, scribble=bool(c.get('scribble'))), failing_input=True)
    for j, leg in enumerate(legs):
        mode = leg['mode']
        chk.count('axis:f:leg-steps-%s' % mode, len(leg['bens']))
        lc = dict(c, lmin=leg['lmin'], lmax=leg['lmax']) if mode == 'fresh' else c
        nst = len(leg['states']) - (1 if 'exc' in leg else 0)
        sig0 = dict(start='restart-' + mode)
        if 'exc' in leg:
            ok = False
            chk.violation('corr:C%02d/history' % prop, 'impl-exception', dict(exc=leg['exc'][0], where=leg['exc'][1], **sig0),
                          case_upto(j + 1, leg['exc'][3]), dict(step=leg['exc'][3], impl=str(leg['exc']), leg=j + 1), failing_input=True)
        if leg.get('fresh_diff'):
            ok = False
            chk.violation('oracle:C%02d/rerun' % prop, 'rerun-depends-on-previous-run', dict(observable=leg['fresh_diff']),
                          case_upto(j + 1, 0),
                          dict(leg=j + 1, note='after a further performSpatiallyAdaptiv on the same object the %s differ from those of a '
                               'fresh object with the same options in the same (initial) state' % leg['fresh_diff']), failing_input=True)
        why = None
        for step in range(nst):
            s = leg['states'][step]
            why = dw.oracle_state_c06(lc, s)
            if why is None and extra_oracle is not None and 'stripes' in s:
                why = extra_oracle(lc, s)
            if why:
                ok = False
                chk.violation('oracle:C%02d' % prop, 'property-predicate', dict(clause=dw.clause_of(why), **sig0), case_upto(j + 1, step),
                              dict(step=step, why=why, leg=j + 1), failing_input=True)
                break
        if why is None:
            for step, (b, sel) in enumerate(zip(leg['bens'], leg['selected'])):
                if step + 1 >= nst:
                    break
                w = dw.oracle_selection(lc, b, sel)
                if w:
                    ok = False
                    chk.violation('oracle:C%02d' % prop, 'property-predicate', dict(clause='selection', **sig0), case_upto(j + 1, step + 1),
                                  dict(step=step + 1, why=w, leg=j + 1), failing_input=True)
                    break
        if why is None and (i, j) in leg_out:
            mo, off = leg_out[(i, j)]
            if sx.is_err(mo) or isinstance(mo, tuple):
                diff = (0, 'model-error', None, str(mo)[:200])
            else:
                mo = mo[off:off + nst]
                f0 = [f for f in fields if not (leg.get('fresh_diff') and f in ('stripes', 'points'))]
                diff = dw.compare_states(lc, leg['states'][:1], mo[:1], f0) if nst >= 1 else None
                if diff is None and nst > 1:
                    diff = dw.compare_states(lc, leg['states'][1:nst], mo[1:], fields)
                    if diff:
                        diff = (diff[0] + 1,) + tuple(diff[1:])
            if diff:
                ok = False
                step, fld, iv, mv = diff
                chk.violation('corr:C%02d/%s' % (prop, fld), 'history-differs', dict(observable=fld, **sig0), case_upto(j + 1, step),
                              dict(step=step, field=fld, leg=j + 1, impl=str(iv)[:700], model=str(mv)[:700]), failing_input=False)
    return ok


def run(chk):
    # source-derived model: coq/Gen/DimWiseGen.v is regenerated from the working tree; Props/C06gen.v is re-checked against it
    gen_info = _c06_gen.regenerate(chk)
    gen_info2 = _c06_gen2.regenerate(chk)
    chk.coq_obligations(extra_props=_c06_gen.EXTRA_PROPS + _c06_gen2.EXTRA_PROPS)
    gen_problem = _c06_gen.diagnose(chk, gen_info)
    gen_problem2 = _c06_gen2.diagnose(chk, gen_info2)
    n = chk.n(110, 1500)
    nd = chk.n(1000, 12000)
    ni = chk.n(800, 10000)
    cases = (corpus(0) + [dw.add_sweep_axes(chk.rng, dw.gen_case(chk.rng, chk.tier, 0), 0) for _ in range(n)]
             + [dw.add_sweep_axes(chk.rng, dw.gen_case_deep(chk.rng, chk.tier, 0), 0) for _ in range(nd)]
             + [dw.add_sweep_axes(chk.rng, dw.gen_case_install(chk.rng, chk.tier, 0), 0) for _ in range(ni)])
    info = evaluate(chk, cases, 0, FIELDS, PROP)
    keys, samples = [], []
    seen_fam = set()
    for c, inf in zip(cases, info):
        if inf is None:
            continue
        r = inf['result']
        nsplit = sum(len(s) for st in r['selected'] for s in st)
        fam = c.get('family') or 'mixed'
        if (len(r['bens']) >= 2 and nsplit >= 2) or (fam == 'install' and nsplit >= 1):
            keys.append((fam, c['dim'], c['lmin'], c['lmax'], c['version'], c['rebalancing'], c['boundary'], str(r['selected']),
                         str((c.get('install') or {}).get('trees'))))
        if fam not in seen_fam and len(r['bens']) >= (3 if fam != 'install' else 1):
            seen_fam.add(fam)
            samples.append(dict(family=fam,
                                case={k: c[k] for k in ('dim', 'lmin', 'lmax', 'version', 'rebalancing', 'margin', 'safety')},
                                split_positions_per_step=r['selected'],
                                final_sizes=[len(t) for t in r['states'][-1]['trees']], final_lmax=r['states'][-1]['lmax']))
    chk.record_cases(len(cases), keys,
                     'three families on the real SpatiallyAdaptiveSingleDimensions2, every state compared exactly with the extracted model '
                     '(intervals, levels, coarsening, lmax, index sets, coefficients, container cursors). mixed: scripted ErrorCalculator '
                     'histories (d 2..4, lmin 1..3 for d=2, versions 2,3,6,7,8, rebalancing on/off, boundary on/off, margins '
                     '{0.9,0.5,0.75,1,0.25}, safety factors {0.1,0,0.125,0.25,0.05}, <=6 (10) steps, benefits zeros/ties/single/one-dimension/'
                     'random/all-equal). deep: d=2, lmin 1..3, lmax=lmin+1|+2, 8-16 steps driven directly (benefit attributes + refine()), '
                     'refinement piled into one dyadic region / spike of one dimension alternating with tied multi-interval steps and '
                     '"coarsening-0 interval + broad block on the far side" steps, safety factors {0,0.05,0.1}. install: 1-3 steps from a '
                     'randomly constructed VALID deep state (random dyadic geometry x random binary-tree levels installed into the real '
                     'containers, refinement_postprocessing with or without the rebalancing pass). Violations found by direct drive are '
                     'replayed through the public API. non-trivial = >=2 steps and >=2 splits (install: >=1 split); distinct by options, '
                     'installed trees and split positions. Lessons sweep on top of every family (drawn independently per case): observer calls between the '
                     'steps with argument-immutability / returned-object-overwrite probes, bounds / level vectors / points as other object kinds, far-off / tiny / '
                     'huge boxes and benefit magnitudes 2^-60..2^30, further performSpatiallyAdaptiv legs on the same object, a second object alive in the '
                     'process, d = 1, a few trees with 200-300 intervals (histogram keys axis:*)', samples)
    _c06_gen.finish(chk, gen_info, gen_problem)
    _c06_gen2.finish(chk, gen_info2, gen_problem2)


def replay(chk, rep):
    c = rep['case']
    info = evaluate(chk, [c], c.get('what', 0), FIELDS, PROP)
    inf = info[0]
    if inf is None:
        print('implementation raised:', chk.violations[-1]['detail'])
        return 1
    r = inf['result']
    rc = 0
    nst = len(r['states']) - (1 if 'exc' in r else 0)
    if c.get('install'):
        print('run starts from an installed state (sizes %s, rebalancing pass at installation: %s)' % (
            [len(t) for t in c['install']['trees']], c['install']['rebalance']))
    for step in range(nst):
        s = r['states'][step]
        why = dw.oracle_state_c06(c, s)
        print('step', step, 'sizes', [len(t) for t in s['trees']], 'lmax', s['lmax'], 'property predicate:', why or 'holds')
        if why:
            rc = 1
    if 'exc' in r:
        print('step', r['exc'][3], 'implementation raised', r['exc'][:3])
        rc = 1
    for step, (b, sel) in enumerate(zip(r['bens'], r['selected'])):
        if step + 1 >= nst:
            break
        w = dw.oracle_selection(c, b, sel)
        if w:
            print('step', step + 1, 'selection:', w)
            rc = 1
    mr = inf['model']
    if 'exc' in r and not (sx.is_err(mr) or isinstance(mr, tuple)):
        mr = mr[:nst]
    diff = dw.compare_states(c, r['states'][:nst], mr, FIELDS)
    print('model vs implementation:', 'agree' if diff is None else 'differ at step %s field %s\n impl  %s\n model %s' % (
        diff[0], diff[1], str(diff[2])[:600], str(diff[3])[:600]))
    return rc
