"""Shared helpers of the adaptive-run properties C13 / C05 / C14: table integrands with an evaluation log, scripted
error calculators, construction of the four strategies from a JSON-able case description, structure snapshots.

Everything that touches sparseSpACE is imported lazily inside the functions (they run in forked workers against
the current working tree of $VERIF_REPO)."""
import contextlib
import io
import math
import random
from fractions import Fraction

# ---------------------------------------------------------------------------------------------- integrands


def poly_integral(comps, a, b):
    """Exact integral of the vector polynomial over the box [a,b] (Fractions)."""
    out = []
    for terms in comps:
        s = Fraction(0)
        for coef, exps in terms:
            t = Fraction(coef)
            for d, e in enumerate(exps):
                t *= (Fraction(b[d]) ** (e + 1) - Fraction(a[d]) ** (e + 1)) / (e + 1)
            s += t
        out.append(s)
    return out


def gen_comps(rng, dim, nout, maxdeg=3):
    comps = []
    for _ in range(nout):
        terms = []
        for _ in range(rng.randrange(1, 4)):
            exps = [rng.choice([0, 1, 1, 2, 2, 3][:maxdeg + 3]) for _ in range(dim)]
            terms.append([rng.choice([1, 1, 2, 3, -1, -2, 4]), exps])
        comps.append(terms)
    return comps


def make_function(comps):
    from sparseSpACE.Function import Function
    import numpy as np

    class TableF(Function):
        """vector valued polynomial with small integer coefficients; every call of eval is logged"""

        def __init__(self, comps):
            super().__init__()
            self.comps = comps
            self.log = []

        def output_length(self):
            return len(self.comps)

        def eval(self, c):
            c = [float(x) for x in c]
            self.log.append(tuple(c))
            out = []
            for terms in self.comps:
                s = 0.0
                for coef, exps in terms:
                    t = float(coef)
                    for x, e in zip(c, exps):
                        t *= x ** e
                    s += t
                out.append(s)
            return np.array(out)
    return TableF(comps)


def exact_eval(comps, point):
    out = []
    for terms in comps:
        s = Fraction(0)
        for coef, exps in terms:
            t = Fraction(coef)
            for x, e in zip(point, exps):
                t *= Fraction(x) ** e
            s += t
        out.append(s)
    return out

# ---------------------------------------------------------------------------------------------- error calculators


def make_error_calculator(case):
    """'lib' -> the library's estimator of the strategy; ['scripted', seed] -> deterministic pseudo-random non-negative
    errors that depend only on the geometry of the refinement object (so identical structures get identical errors)."""
    from sparseSpACE.ErrorCalculator import ErrorCalculator, ErrorCalculatorSingleDimVolumeGuided, ErrorCalculatorExtendSplit
    mode = case.get('errcalc', 'lib')
    if mode == 'lib':
        if case['strat'] == 'cell':
            from sparseSpACE.ErrorCalculator import ErrorCalculatorSurplusCell
            return ErrorCalculatorSurplusCell()
        return ErrorCalculatorSingleDimVolumeGuided() if case['strat'] == 'dw' else ErrorCalculatorExtendSplit()
    seed = mode[1]

    class Scripted(ErrorCalculator):
        def calc_error(self, refine_object, norm, volume_weights=None):
            st = refine_object.start
            en = refine_object.end
            try:
                key = (tuple(float(x) for x in st), tuple(float(x) for x in en))
            except TypeError:
                key = (float(st), float(en), int(getattr(refine_object, 'this_dim', -1)))
            r = random.Random('%s/%r' % (seed, key))
            x = r.random()
            if x < 0.15:
                return 0.0
            return r.choice([0.125, 0.25, 0.5, 0.5, 1.0, 1.0, 2.0, 4.0])
    return Scripted()

# ---------------------------------------------------------------------------------------------- strategies


def norm_of(case):
    import numpy as np
    return {0: np.inf, 1: 1, 2: 2}[case.get('norm', 0)]


def make_local_grid(case, a, b):
    """fresh local (per-area) grid of the kind named in case['grid'] (default: trapezoidal)"""
    from sparseSpACE import Grid as G
    kind = case.get('grid', 'trap')
    boundary = case.get('boundary', True)
    if kind == 'trap':
        return G.TrapezoidalGrid(a, b, boundary=boundary, modified_basis=False)
    if kind == 'cc':
        return G.ClenshawCurtisGrid(a, b, boundary=boundary)
    if kind == 'simpson':
        return G.SimpsonGrid(a, b, boundary=boundary)
    if kind == 'leja':
        return G.LejaGrid(a, b, boundary=boundary)
    if kind.startswith('lagrange'):
        return G.LagrangeGrid(a, b, boundary=boundary, p=int(kind[-1]))
    if kind.startswith('bspline'):
        return G.BSplineGrid(a, b, boundary=boundary, p=int(kind[-1]))
    raise ValueError(kind)


def make_global_grid(case, a, b, op=None):
    """fresh global (refinement-tree) grid of the kind named in case['ggrid'] (default: trapezoidal) for the dimension-wise strategy"""
    from sparseSpACE import Grid as G
    kind = case.get('ggrid', 'trap')
    boundary = case.get('boundary', True)
    mod = case.get('modified_basis', False)
    if kind == 'trap':
        return G.GlobalTrapezoidalGrid(a, b, boundary=boundary, modified_basis=mod)
    if kind == 'trapw':                   # weighted by the distributions of an UncertaintyQuantification operation
        return G.GlobalTrapezoidalGridWeighted(a, b, op, boundary=boundary)
    if kind == 'simpson':
        return G.GlobalSimpsonGrid(a, b, boundary=boundary, modified_basis=mod)
    if kind == 'romberg':
        return G.GlobalRombergGrid(a, b, boundary=boundary, modified_basis=mod)
    if kind == 'highorder':
        return G.GlobalHighOrderGrid(a, b, boundary=boundary, modified_basis=mod)
    if kind.startswith('lagrange'):
        return G.GlobalLagrangeGrid(a, b, boundary=boundary, modified_basis=mod, p=int(kind[-1]))
    if kind.startswith('bspline'):
        return G.GlobalBSplineGrid(a, b, boundary=boundary, modified_basis=mod, p=int(kind[-1]))
    raise ValueError(kind)


def make_operation(case, f, a, b, integration_cls=None, uq_cls=None, ref=None):
    """the GridOperation of the case: Integration (default) or UncertaintyQuantification (case['op'] = ['uq', distribution]);
    the grid is attached by the caller"""
    opk = case.get('op', 'int')
    if opk == 'int':
        if integration_cls is None:
            from sparseSpACE.GridOperation import Integration as integration_cls
        return integration_cls(f, grid=None, dim=len(a), reference_solution=ref)
    if uq_cls is None:
        from sparseSpACE.GridOperation import UncertaintyQuantification as uq_cls
    distr = opk[1]
    distr = tuple(distr) if isinstance(distr, (list, tuple)) else distr
    return uq_cls(f, distr, a, b, reference_solution=ref)


CALLER_OBJECTS = {}


def build(case, f=None, integration_cls=None, op=None, wrap=None, uq_cls=None):
    """Returns (instance, operation, function, error_calculator). strat: 'dw' | 'es' | 'cell' | 'std' | 'da'.
    op: an existing operation (with its grid and function) to be reused by a new strategy instance, as the repo's tests do.
    wrap: optional function class -> subclass applied to the strategy class (used by C05 to mark the driver's main evaluation).
    Every constructor option of the strategies can be given in the case; absent keys mean the library defaults used so far."""
    import numpy as np
    from sparseSpACE.Grid import TrapezoidalGrid, GlobalTrapezoidalGrid
    from sparseSpACE.GridOperation import Integration
    if integration_cls is not None:
        Integration = integration_cls
    a = np.array([float(x) for x in case['a']])
    b = np.array([float(x) for x in case['b']])
    dim = len(a)
    if f is None:
        f = make_function(case['comps'])
    ref = None if case.get('ref') is None else np.array([float(x) for x in case['ref']])
    strat = case['strat']
    boundary = case.get('boundary', True)
    wrap = wrap or (lambda cls: cls)
    CALLER_OBJECTS.clear()
    CALLER_OBJECTS.update(a=a, b=b, ref=ref)          # the objects the caller hands over (axis (j): the caller may mutate them later)
    if strat == 'dw':
        from sparseSpACE.spatiallyAdaptiveSingleDimension2 import SpatiallyAdaptiveSingleDimensions2
        if op is None:
            op = make_operation(case, f, a, b, integration_cls=Integration, uq_cls=uq_cls, ref=ref)
            op.grid = make_global_grid(case, a, b, op)
        else:
            f = op.f
        eo = make_error_calculator(case)
        kw = {}
        for key, name in (('chebyshev', 'chebyshev_points'), ('dim_adaptive', 'dim_adaptive'), ('volume_weighting', 'use_volume_weighting'),
                          ('force_balanced', 'force_balanced_refinement_tree'), ('margin', 'margin'), ('safety', 'rebalancing_safety_factor')):
            if key in case:
                kw[name] = case[key]
        if case.get('grid_surplusses'):       # as the UQ tests do: the surplus grid is the operation's grid
            kw['grid_surplusses'] = op.get_grid()
        sa = wrap(SpatiallyAdaptiveSingleDimensions2)(a, b, operation=op, norm=norm_of(case), version=case.get('version', 6),
                                                      rebalancing=case.get('rebalancing', True), **kw)
        return sa, op, f, eo
    if op is None:
        op = make_operation(case, f, a, b, integration_cls=Integration, uq_cls=uq_cls, ref=ref)
        op.grid = make_local_grid(case, a, b)
    else:
        f = op.f
    if strat == 'es':
        from sparseSpACE.spatiallyAdaptiveExtendSplit import SpatiallyAdaptiveExtendScheme
        eo = make_error_calculator(case)
        sa = wrap(SpatiallyAdaptiveExtendScheme)(a, b, operation=op, norm=norm_of(case), version=case.get('version', 0),
                                                 number_of_refinements_before_extend=case.get('nrbe', 1),
                                                 automatic_extend_split=case.get('auto', False),
                                                 split_single_dim=case.get('single_dim', False),
                                                 no_initial_splitting=case.get('no_initial_splitting', False),
                                                 dim_adaptive=case.get('es_dim_adaptive', False))
        return sa, op, f, eo
    if strat == 'cell':
        from sparseSpACE.spatiallyAdaptiveCell import SpatiallyAdaptiveCellScheme
        eo = make_error_calculator(case)
        return wrap(SpatiallyAdaptiveCellScheme)(a, b, operation=op, norm=norm_of(case)), op, f, eo
    if strat == 'std':
        from sparseSpACE.StandardCombi import StandardCombi
        return wrap(StandardCombi)(a, b, operation=op, norm=norm_of(case)), op, f, None
    if strat == 'da':
        from sparseSpACE.DimAdaptiveCombi import DimAdaptiveCombi
        return wrap(DimAdaptiveCombi)(a, b, operation=op, norm=norm_of(case)), op, f, None
    raise ValueError(strat)


@contextlib.contextmanager
def quiet():
    with contextlib.redirect_stdout(io.StringIO()):
        yield


def perform(sa, eo, case, tol, min_evaluations, max_evaluations, **kw):
    with quiet():
        return sa.performSpatiallyAdaptiv(case['lmin'], case['lmax'], eo, tol=tol, max_evaluations=max_evaluations,
                                          min_evaluations=min_evaluations, print_output=False, do_plot=False, **kw)


def cont(sa, tol, min_evaluations, max_evaluations):
    with quiet():
        return sa.continue_adaptive_refinement(tol=tol, max_evaluations=max_evaluations, min_evaluations=min_evaluations)

# ---------------------------------------------------------------------------------------------- snapshots


def fl(x):
    """JSON-able exact representation of a float / numpy scalar: hex string (inf/nan survive)."""
    return float(x).hex()


def unfl(s):
    return float.fromhex(s)


def vec(v):
    import numpy as np
    return [fl(x) for x in np.atleast_1d(np.asarray(v, dtype=float)).ravel()]


def all_objects(sa):
    """all refinement objects of the instance (extend-split: areas; dimension-wise: the 1D intervals of all dimensions)"""
    ref = sa.refinement
    if hasattr(ref, 'refinementContainers'):
        out = []
        for c in ref.refinementContainers:
            out.extend(c.get_objects())
        return out
    return list(ref.get_objects())


def structure(sa, case):
    """canonical refinement structure + combination scheme (for C14 comparisons)"""
    strat = case['strat']
    scheme = sorted(([int(x) for x in g.levelvector], fl(g.coefficient)) for g in sa.scheme)
    if strat == 'dw':
        objs = []
        for d, c in enumerate(sa.refinement.refinementContainers):
            objs.append([(fl(o.start), fl(o.end), [int(x) for x in o.levels], int(o.coarsening_level)) for o in c.get_objects()])
        return dict(scheme=scheme, objs=objs, lmax=[int(x) for x in sa.lmax])
    objs = sorted((vec(o.start), vec(o.end), int(o.coarseningValue), int(o.needExtendScheme)) for o in sa.refinement.get_objects())
    return dict(scheme=scheme, objs=objs, lmax=[int(x) for x in sa.lmax])


def point_key(p):
    """a point as a flat list of integers (numerator, denominator per coordinate): exact, usable on the wire"""
    out = []
    for x in p:
        fr = Fraction(float(x))
        out += [fr.numerator, fr.denominator]
    return out


# ---------------------------------------------------------------------------------------------- logging Integration


def make_logging_integration(base=None):
    """Integration (or UncertaintyQuantification, ... : `base`) subclass that records the bookkeeping events of C05 (see
    coq/Model/Accum.v):
    [0] initialize, [1,id] area_preprocessing,
    [2,id,x,to_total,to_container,main] evaluate_area with x = partial*coefficient; main = the call was made inside the driver's
        compute_solutions (the strategy instance sets operation.phase, see mark_main_evaluation), otherwise it is a SIDE evaluation
        (twin errors, temporary parent areas, ...),
    [3,[ids]] process_removed_objects, [4] initialize_evaluation_dimension_wise, [5,x] calculate_operation_dimension_wise,
    [8,id,name] evaluate_area_for_error_estimates (benefit / parent estimates; must not touch any accumulator),
    [9,id,x] compute_subcell_with_interpolation of the cell scheme (x = integral*coefficient), [10] reset_result.
    [12] ... [13] evaluate_final_combi on the live object (appended by mark_main_evaluation).
    ([11] reinit_new_objects is appended by the C05 driver: the container is not an object the operation sees.)"""
    import numpy as np
    from sparseSpACE.GridOperation import Integration
    base = base or Integration

    class LoggingIntegration(base):
        def __init__(self, *a, **k):
            super().__init__(*a, **k)
            self.events = []
            self._ids = {}
            self._keep = []
            self.phase = 'side'

        def aid(self, area):
            k = id(area)
            if k not in self._ids:
                self._ids[k] = len(self._ids) + 1
                self._keep.append(area)          # keeps the object alive so that id() is never reused
            return self._ids[k]

        def _capture(self, grid, call):
            got = []
            orig = grid.integrate

            def integ(*a, **k):
                r = orig(*a, **k)
                got.append(np.array(r, dtype=float, copy=True).ravel())
                return r
            grid.integrate = integ
            try:
                ret = call()
            finally:
                del grid.integrate
            return ret, got

        def initialize(self):
            super().initialize()
            self.events.append([0])

        def reset_result(self):
            super().reset_result()
            self.events.append([10])

        def area_preprocessing(self, area):
            super().area_preprocessing(area)
            self.events.append([1, self.aid(area)])

        def evaluate_area(self, area, levelvector, componentgrid_info, refinement_container, additional_info,
                          apply_to_combi_result=True):
            ret, got = self._capture(self.grid, lambda: base.evaluate_area(
                self, area, levelvector, componentgrid_info, refinement_container, additional_info, apply_to_combi_result))
            x = got[-1] * componentgrid_info.coefficient
            self.events.append([2, self.aid(area), [fl(v) for v in x], bool(apply_to_combi_result), refinement_container is not None,
                                self.phase == 'main'])
            return ret

        def evaluate_area_for_error_estimates(self, area, levelvector, componentgrid_info, refinement_container, additional_info):
            self.events.append([8, self.aid(area), str(getattr(additional_info, 'error_name', None))])
            return super().evaluate_area_for_error_estimates(area, levelvector, componentgrid_info, refinement_container, additional_info)

        def compute_subcell_with_interpolation(self, cell, subcell, coefficient, refinement_container):
            ret = super().compute_subcell_with_interpolation(cell, subcell, coefficient, refinement_container)
            integral, coeff = subcell.sub_integrals[-1]
            x = np.atleast_1d(np.asarray(integral, dtype=float)).ravel() * coeff
            self.events.append([9, self.aid(subcell), [fl(v) for v in x]])
            return ret

        def process_removed_objects(self, removed_objects):
            self.events.append([3, [self.aid(o) for o in removed_objects]])
            super().process_removed_objects(removed_objects)

        def initialize_evaluation_dimension_wise(self, refinement_container):
            super().initialize_evaluation_dimension_wise(refinement_container)
            self.events.append([4])

        def calculate_operation_dimension_wise(self, gridPointCoordsAsStripes, grid_point_levels, component_grid):
            ret, got = self._capture(self.grid, lambda: base.calculate_operation_dimension_wise(
                self, gridPointCoordsAsStripes, grid_point_levels, component_grid))
            x = got[-1] * component_grid.coefficient
            self.events.append([5, [fl(v) for v in x]])
            return ret
    return LoggingIntegration


def mark_main_evaluation(cls):
    """Strategy subclass whose compute_solutions (the driver's evaluation of the new areas on all component grids) sets
    operation.phase = 'main' while it runs: every evaluate_area call outside of it is a side evaluation."""
    class Marked(cls):
        def compute_solutions(self, areas, evaluation_array):
            prev = getattr(self.operation, 'phase', 'side')
            self.operation.phase = 'main'
            try:
                return super().compute_solutions(areas, evaluation_array)
            finally:
                self.operation.phase = prev

        def evaluate_final_combi(self):
            # [12] / [13] bracket a re-evaluation from scratch on THIS object (refinement.value = 0 is not visible to the operation)
            ev = getattr(self.operation, 'events', None)
            if ev is not None:
                ev.append([12])
            try:
                return super().evaluate_final_combi()
            finally:
                if ev is not None:
                    ev.append([13])
    Marked.__name__ = cls.__name__
    Marked.__qualname__ = cls.__qualname__
    return Marked


def guard_dimadaptive(da, events=None):
    """DimAdaptiveCombi.perform_combi never terminates when all surpluses vanish (exactly integrated integrand): argmax keeps
    selecting a non-refinable grid and the outer loop repeats the same state. Raise a harness exception instead of hanging."""
    orig_upd = da.combischeme.update_adaptive_combi
    empty = [0]

    def upd(*a, **k):
        if events is not None:
            events.append(1)
        r = orig_upd(*a, **k)
        empty[0] = empty[0] + 1 if not r else 0
        if empty[0] > 300:
            raise RuntimeError('harness: DimAdaptiveCombi refinement selection does not terminate')
        return r
    da.combischeme.update_adaptive_combi = upd
