"""C13: the adaptive driver honours its stopping rules and reports truthful numbers.

Correspondence: every case is run twice on the real strategies (probe run with generous limits -> observation
stream; test run with limits chosen ON the observed values, i.e. ties).  The extracted model (Model/Driver.v) gets the
observation streams and limits and must reproduce the event trace (evaluate / refine calls), the stop index and the
returned history arrays; get_global_error_estimate, set_benefit and the distinct point count are recomputed by the
model from the result vector, the per-object numbers and the raw log of integrand evaluations."""
import random
from fractions import Fraction

from .. import sx
from ..impl import run_impl
from ..model import run_model
from . import _adaptive as A

ASSUMPTIONS = [
    'max_time (wall clock) stopping condition is not modelled and never used',
    'floating point error values are compared with the exact model value up to 1e-12 relative (tolerance policy); '
    'the stopping decisions themselves are compared exactly (limits are chosen among the observed floats)',
    'norm 2 is modelled as its square (mean of squares), compared after squaring the reported value',
    'StandardCombi is not adaptive: only its reported difference (absolute deviation, no 1/len) and point count are tied',
]

EPS = 1e-12

# ---------------------------------------------------------------------------------------------- generator


def gen_case(rng, quick=True):
    r = rng.random()
    strat = 'dw' if r < 0.38 else 'es' if r < 0.76 else 'da' if r < 0.90 else 'std'
    dim = 2 if rng.random() < (0.8 if strat != 'dw' else 0.7) else 3
    a = [rng.choice([0, 0, -1]) for _ in range(dim)]
    b = [rng.choice([1, 1, 2]) for _ in range(dim)]
    nout = rng.choice([1, 1, 2, 3])
    comps = A.gen_comps(rng, dim, nout)
    if strat == 'da':
        # DimAdaptiveCombi loops forever in its refinement selection when all surpluses vanish (odd integrands on symmetric
        # boxes); that hang is not the subject of this property: positive integrands on [0,b]
        a = [0] * dim
        comps = [[[abs(c), e] for c, e in terms] for terms in comps]
    exact = A.poly_integral(comps, a, b)
    rr = rng.random()
    if rr < 0.55:
        ref = [float(x) for x in exact]
    elif rr < 0.75:     # some other reference (the driver must report the deviation from whatever it is given)
        ref = [float(x) + rng.choice([0.5, -0.25, 1.0, 0.125]) for x in exact]
    elif rr < 0.87:
        ref = [0.0] * nout
    else:
        ref = None
    if ref is not None and any(x == 0.0 for x in ref) and not all(x == 0.0 for x in ref):
        ref = [x if x != 0.0 else 1.0 for x in ref]        # partly-zero references: relative deviation undefined, excluded
    if strat == 'da' and (ref is None or any(x == 0.0 for x in ref)):
        ref = [x if x != 0.0 else 1.0 for x in ([float(x) for x in exact] if ref is None else ref)]   # perform_combi asserts/divides
    case = dict(strat=strat, a=a, b=b, comps=comps, ref=ref, norm=rng.choice([0, 0, 1, 2]), boundary=rng.random() < 0.8,
                lmin=1, lmax=2, seed=rng.randrange(1 << 30))
    if strat in ('dw', 'es'):
        # short histories on one object: the test run reuses the probe's operation (as the repo's tests do) or the instance itself
        case['reuse'] = rng.choice([None, None, 'op', 'op', 'instance'])
    if strat == 'dw':
        case.update(version=rng.choice([6, 6, 3, 7]), rebalancing=rng.random() < 0.6,
                    errcalc='lib' if rng.random() < 0.5 else ['scripted', rng.randrange(1 << 20)])
        case['probe_max'] = rng.choice([40, 60, 90]) if dim == 2 else rng.choice([120, 200])
    elif strat == 'es':
        case.update(lmax=rng.choice([2, 2, 3]), nrbe=rng.choice([1, 1, 2]), auto=rng.random() < 0.3,
                    errcalc='lib' if rng.random() < 0.5 else ['scripted', rng.randrange(1 << 20)])
        case['probe_max'] = rng.choice([100, 160, 250]) if dim == 2 else rng.choice([250, 400])
        case['boundary'] = rng.random() < 0.92     # without boundary points extend-split stops in Function.__call__ (empty batch, see C12)
    elif strat == 'da':
        case['probe_max'] = rng.choice([40, 80, 120]) if dim == 2 else rng.choice([150, 250])
        case['boundary'] = True
    else:
        case['lmax'] = rng.choice([2, 3, 4]) if dim == 2 else rng.choice([2, 3])
    return case


def choose_limits(rng, errs, pts):
    """limits sitting ON observed values; errs/pts = probe stream (floats, ints). Returns (tol, min, max) with max possibly None."""
    n = len(errs)
    j = rng.randrange(n)
    big = max([e for e in errs if e == e and e != float('inf')] + [1.0]) * 2 + 1
    r = rng.random()
    if r < 0.14:
        return (-1.0, 1, pts[j])                       # points == max does not stop, points > max does
    if r < 0.28:
        return (-1.0, 1, pts[j] - 1)
    if r < 0.44:
        return (errs[j], 1, pts[-1] - 1)               # error == tol stops
    if r < 0.54:
        return (errs[j], 1, None) if errs[j] >= 0 else (errs[j], 1, pts[-1] - 1)
    if r < 0.66:
        return (big, pts[j], pts[-1] - 1)              # points == min suffices
    if r < 0.74:
        return (big, pts[j] + 1, pts[-1] - 1)
    if r < 0.82:
        return (big, rng.choice([0, 1, pts[0]]), rng.choice([None, pts[-1]]))     # met at the first evaluation (tolerance)
    if r < 0.88:
        return (-1.0, 1, pts[0] - 1)                   # met at the first evaluation (maximum)
    i, m = rng.randrange(n), rng.randrange(n)
    return (errs[j], pts[i], pts[m] - rng.choice([0, 1]))

# ---------------------------------------------------------------------------------------------- implementation workers


def _run_adaptive(case, limits, keep_points, reuse=None):
    """reuse: None (fresh objects) | ('op', op) new strategy instance on the probe's operation/grid/function (what the repo's
    tests do) | ('instance', sa, op, f, eo) second performSpatiallyAdaptiv on the very same instance"""
    if reuse is None:
        sa, op, f, eo = A.build(case)
    elif reuse[0] == 'op':
        sa, op, f, eo = A.build(case, op=reuse[1])
    else:
        sa, op, f, eo = reuse[1:]
        del sa.evaluate_operation, sa.refine          # remove the wrappers of the previous run
    del f.log[:]                                      # evaluations of THIS run (the function cache is reset by initialize())
    events, evals = [], []
    orig_eval, orig_refine = sa.evaluate_operation, sa.refine
    mark = [0]

    def ev():
        r = orig_eval()
        objs = A.all_objects(sa)
        rec = dict(err=A.fl(r[0]), sur=A.fl(r[1]), distinct=len(set(f.log)), fdict=int(f.get_f_dict_size()),
                   result=A.vec(op.integral), benefit_max=A.fl(sa.benefit_max), total_error=A.fl(sa.total_error),
                   objs=[[A.fl(o.error), A.fl(o.evaluations), A.fl(o.benefit)] for o in objs])
        if keep_points:
            rec['batch'] = [A.point_key(p) for p in f.log[mark[0]:]]
            mark[0] = len(f.log)
        evals.append(rec)
        events.append(0)
        if len(f.log) > 60000:
            raise RuntimeError('harness budget exceeded')
        return r

    def rf():
        events.append(1)
        return orig_refine()
    sa.evaluate_operation = ev
    sa.refine = rf
    tol, mn, mx = limits
    r = A.perform(sa, eo, case, tol, mn, mx)
    return dict(events=events, evals=evals, result=A.vec(r[3]), evaluations=A.fl(r[4]),
                error_array=[A.fl(x) for x in r[5]], num_point_array=[int(x) for x in r[6]],
                surplus_error_array=[A.fl(x) for x in r[7]], total_points=int(sa.get_total_num_points()),
                distinct=len(set(f.log)), evaluationstotal=A.fl(sa.refinement.evaluationstotal), objects=(sa, op, f, eo))


def _run_da(case, tolerance, max_points):
    da, op, f, _ = A.build(case)
    events = []
    grid = op.grid
    orig_int = grid.integrate
    orig_upd = da.combischeme.update_adaptive_combi

    def integ(*a, **k):
        events.append(0)
        return orig_int(*a, **k)

    empty = [0]

    def upd(*a, **k):
        events.append(1)
        r = orig_upd(*a, **k)
        empty[0] = empty[0] + 1 if not r else 0
        if empty[0] > 300:
            # all surpluses vanish (e.g. exactly integrated function): argmax keeps returning a non-refinable grid
            raise RuntimeError('harness: DimAdaptiveCombi refinement selection does not terminate')
        return r
    grid.integrate = integ
    da.combischeme.update_adaptive_combi = upd
    with A.quiet():
        r = da.perform_combi(case['lmin'], case['lmax'], tolerance, max_number_of_points=max_points)
    # collapse runs: evaluation phases / refinement rounds
    trace = []
    for e in events:
        if not trace or trace[-1] != e:
            trace.append(e)
    import numpy as np
    ref = np.array(case['ref'])
    final_err = max(abs(r[2] - ref) / abs(ref))
    return dict(trace=trace, abs_error=A.vec(r[1]), result=A.vec(r[2]), errors=[A.fl(x) for x in r[3]],
                num_points=[int(x) for x in r[4]], total_points=int(da.get_total_num_points()), distinct=len(set(f.log)),
                final_err=A.fl(final_err))


def impl_run(case):
    rng = random.Random(case['seed'])
    strat = case['strat']
    if strat == 'std':
        sc, op, f, _ = A.build(case)
        with A.quiet():
            r = sc.perform_operation(case['lmin'], case['lmax'])
        return dict(error=None if r[1] is None else A.fl(r[1]), result=A.vec(r[2]), total_points=int(sc.get_total_num_points()),
                    distinct=len(set(f.log)), batch=[A.point_key(p) for p in f.log])
    if strat == 'da':
        probe = _run_da(case, -1.0, case['probe_max'])
        n_probe = probe['trace'].count(0)
        errs = ([A.unfl(x) for x in probe['errors']] + [A.unfl(probe['final_err'])])[:max(n_probe, len(probe['errors']))]
        pts = (probe['num_points'] + [probe['total_points']])[:max(n_probe, len(probe['num_points']))]
        errs, pts = errs[:n_probe], pts[:n_probe]
        limits = case.get('limits')
        if limits is None:
            j = rng.randrange(len(errs))
            r = rng.random()
            limits = [errs[j], None, pts[-1] - 1] if r < 0.5 else [-1.0, None, pts[j] - rng.choice([0, 1])] if r < 0.85 \
                else [errs[j] * 1.5 + 1e-9, None, pts[rng.randrange(len(pts))]]
        if not any(e < limits[0] or (limits[2] is not None and p > limits[2]) for e, p in zip(errs, pts)):
            limits = [limits[0], None, pts[-1] - 1]        # the test run must stop inside the probe stream
        test = _run_da(case, limits[0], limits[2])
        return dict(probe=probe, test=test, limits=[A.fl(limits[0]), None, limits[2]])
    probe = _run_adaptive(case, (-1.0, 1, case['probe_max']), False)
    objects = probe.pop('objects')
    errs = [A.unfl(x) for x in probe['error_array']]
    pts = probe['num_point_array']
    limits = case.get('limits')
    if limits is None:
        limits = list(choose_limits(rng, errs, pts))
    else:
        limits = [A.unfl(limits[0]) if isinstance(limits[0], str) else limits[0], limits[1], limits[2]]
    # guard: the test run must stop inside the probe stream (it is deterministic, so it sees the same stream)
    def stops(e, p):
        return (e <= limits[0] and p >= limits[1]) or (limits[2] is not None and p > limits[2])
    if not any(stops(e, p) for e, p in zip(errs, pts)):
        limits[2] = pts[-1] - 1
    mode = case.get('reuse')
    test = _run_adaptive(case, tuple(limits), True,
                         reuse=None if not mode else ('op', objects[1]) if mode == 'op' else ('instance',) + objects)
    test.pop('objects')
    return dict(probe=probe, test=test, limits=[A.fl(limits[0]), limits[1], limits[2]])

# ---------------------------------------------------------------------------------------------- model encoding


def q(hexfloat):
    return sx.rat(A.unfl(hexfloat))


def finite(hexfloat):
    x = A.unfl(hexfloat)
    return x == x and x not in (float('inf'), float('-inf'))


def enc_call(limits, stream):
    tol, mn, mx = limits
    return [q(tol), int(mn if mn is not None else 0), [] if mx is None else [int(mx)], [[q(e), q(s), int(p)] for e, s, p in stream]]


def dec_state(st):
    errs, surs, pts, trace, refines, stopped = st
    return dict(errs=[sx.q(x) for x in errs], surs=[sx.q(x) for x in surs], pts=pts, trace=trace, refines=refines, stopped=bool(stopped))


def py_stop(limits, e, p):
    tol, mn, mx = limits
    return (e <= tol and p >= mn) or (mx is not None and p > mx)

# ---------------------------------------------------------------------------------------------- oracle (implementation only)


def rel_error_py(case, result):
    """the property's own reading of 'relative (absolute for a zero reference) deviation in the chosen norm', in Fractions
    (norm 2: squared)"""
    ref = case['ref']
    if ref is None:
        return None
    refq = [sx.rat(x) for x in ref]
    resq = [sx.rat(A.unfl(x)) for x in result]
    if all(x == 0 for x in refq):
        dev = [abs(x) for x in resq]
    else:
        dev = [abs((r - i) / r) for r, i in zip(refq, resq)]
    nm = case.get('norm', 0)
    if nm == 0:
        return max(dev)
    if nm == 1:
        return sum(dev) / len(dev)
    return sum(x * x for x in dev) / len(dev)


def close(impl_float, exact, nm, scale=1.0):
    v = Fraction(impl_float) if impl_float == impl_float and abs(impl_float) != float('inf') else None
    if v is None:
        return False
    if nm == 2:
        v = v * v
        return abs(v - exact) <= EPS * 4 * (abs(exact) + Fraction(scale) * Fraction(scale) * Fraction(1, 10 ** 4))
    return abs(v - exact) <= Fraction(EPS) * (abs(exact) + Fraction(scale))


def oracle_adaptive(case, limits, run):
    """property predicate on one implementation run; returns list of (kind, detail)"""
    bad = []
    lim = (A.unfl(limits[0]), limits[1], limits[2])
    evs = run['evals']
    n = len(evs)
    errs = [A.unfl(e['err']) for e in evs]
    dist = [e['distinct'] for e in evs]
    # stopping rule on the observed numbers (error the driver saw, distinct points actually evaluated)
    first = next((k for k in range(n) if py_stop(lim, errs[k], dist[k])), None)
    trace = run['events']
    want = [0, 1] * (first if first is not None else n) + ([0] if first is not None else [])
    if first is None:
        bad.append(('stop-index', 'driver returned although no evaluation satisfied the stopping rule (limits %s)' % (lim,)))
    elif trace != want:
        k_impl = trace.count(0) - 1
        bad.append(('stop-index', 'rule first satisfied at evaluation %d (error %r, points %d, limits %s) but the driver performed %d evaluations and %d refinements'
                    % (first, errs[first], dist[first], lim, trace.count(0), trace.count(1))))
    if trace.count(1) != trace.count(0) - 1 or (trace and trace[-1] != 0):
        bad.append(('refine-after-stop', 'trace %s' % trace))
    for name in ('error_array', 'num_point_array', 'surplus_error_array'):
        if len(run[name]) != n:
            bad.append(('history-arrays', '%s has %d entries for %d evaluations' % (name, len(run[name]), n)))
    if run['error_array'] != [e['err'] for e in evs] or run['surplus_error_array'] != [e['sur'] for e in evs]:
        bad.append(('history-arrays', 'error arrays differ from the values the driver decided on'))
    pa = run['num_point_array']
    if any(pa[i] > pa[i + 1] for i in range(len(pa) - 1)):
        bad.append(('points-decrease', str(pa)))
    if pa != dist[:len(pa)] or run['total_points'] != run['distinct']:
        bad.append(('point-count', 'reported %s, distinct integrand evaluations %s' % (pa, dist)))
    for k, e in enumerate(evs):
        vals = [A.unfl(e['err']), A.unfl(e['sur']), A.unfl(e['benefit_max'])] + [A.unfl(x) for o in e['objs'] for x in (o[0], o[2])]
        if any((v < 0) or (v != v) for v in vals):
            bad.append(('negative', 'evaluation %d: negative or nan error/benefit' % k))
            break
    if case['ref'] is not None:
        for k, e in enumerate(evs):
            ex = rel_error_py(case, e['result'])
            if not close(A.unfl(e['err']), ex, case.get('norm', 0)):
                bad.append(('error-value', 'evaluation %d: reported error %r, deviation of the result from the reference %s'
                            % (k, A.unfl(e['err']), float(ex) if case.get('norm', 0) != 2 else float(ex) ** 0.5)))
                break
        if evs and run['result'] != evs[-1]['result']:
            bad.append(('result-differs', 'returned result is not the result the last error was computed from'))
    else:
        if any(e['err'] != e['sur'] for e in evs):
            bad.append(('error-value', 'without reference the error must be the total surplus error'))
    return bad

# ---------------------------------------------------------------------------------------------- check


CORPUS = [
    # limits met at the first evaluation; error == tol tie; points == max tie; vector valued, zero reference
    dict(strat='dw', a=[0, 0], b=[1, 1], comps=[[[1, [2, 0]], [3, [1, 1]]]], ref=[13 / 12], norm=0, boundary=True, lmin=1, lmax=2,
         seed=1, version=6, rebalancing=True, errcalc='lib', probe_max=60, limits=[10.0, 1, None]),
    dict(strat='es', a=[0, 0], b=[1, 1], comps=[[[1, [2, 0]], [3, [1, 1]]], [[2, [0, 2]], [1, [0, 0]]]], ref=[13 / 12, 5 / 3], norm=1,
         boundary=True, lmin=1, lmax=2, seed=2, nrbe=1, auto=False, errcalc='lib', probe_max=100, limits=[-1.0, 1, 65]),
    dict(strat='es', a=[0, 0], b=[1, 1], comps=[[[1, [2, 0]], [3, [1, 1]]], [[2, [0, 2]], [1, [0, 0]]]], ref=[0.0, 0.0], norm=2,
         boundary=True, lmin=1, lmax=2, seed=3, nrbe=1, auto=False, errcalc='lib', probe_max=100, limits=[-1.0, 1, 64]),
    dict(strat='da', a=[0, 0], b=[1, 1], comps=[[[1, [2, 0]], [3, [1, 1]]], [[2, [0, 2]], [1, [0, 0]]]], ref=[13 / 12, 5 / 3], norm=0,
         boundary=True, lmin=1, lmax=2, seed=4, probe_max=80),
    dict(strat='std', a=[0, 0], b=[1, 1], comps=[[[1, [2, 0]], [3, [1, 1]]], [[2, [0, 2]], [1, [0, 0]]]], ref=[13 / 12, 5 / 3], norm=2,
         boundary=True, lmin=1, lmax=3, seed=5),
    # exemplar of C13-dimadaptive-strict-tolerance (tolerance equal to the error of the second evaluation)
    dict(strat='da', a=[-1, -1], b=[1, 1], comps=[[[3, [0, 2]]], [[1, [3, 2]]]], ref=[1.0, 1.0], norm=0, boundary=True, lmin=1, lmax=2,
         seed=176363980, probe_max=40, limits=[3.125, None, 56]),
]


def sig_of(case):
    return {'strat': case['strat']}


def check_adaptive(chk, case, r, mjobs):
    """queue model jobs for one adaptive case; returns closure evaluating them"""
    limits = r['limits']
    probe, test = r['probe'], r['test']
    pstream = list(zip(probe['error_array'], probe['surplus_error_array'], probe['num_point_array']))
    tstream = [(e['err'], e['sur'], e['distinct']) for e in test['evals']]
    ok_numbers = all(finite(e) and finite(s) for e, s, _ in pstream + tstream)
    jobs = {}
    if ok_numbers:
        jobs['probe'] = len(mjobs); mjobs.append((0, [enc_call(limits, pstream)]))
        jobs['test'] = len(mjobs); mjobs.append((0, [enc_call(limits, tstream)]))
    jobs['points'] = len(mjobs); mjobs.append((5, [e['batch'] for e in test['evals']]))
    if case['ref'] is not None:
        jobs['err'] = []
        for e in test['evals']:
            jobs['err'].append(len(mjobs))
            mjobs.append((2, [case.get('norm', 0), [[sx.rat(x) for x in case['ref']]], [q(x) for x in e['result']]]))
    last = test['evals'][-1]
    if all(finite(o[0]) and A.unfl(o[1]) == int(A.unfl(o[1])) for o in last['objs']):
        jobs['benefit'] = len(mjobs)
        mjobs.append((4, [[[q(o[0]), int(A.unfl(o[1]))] for o in last['objs']]]))

    def evaluate(mres):
        sig = sig_of(case)
        fcase = dict(case, limits=limits)
        bad = oracle_adaptive(case, limits, test)
        okinds = {k for k, _ in bad}
        for kind, detail in bad:
            chk.violation('oracle:driver', kind, sig, fcase, dict(why=detail))
        if not ok_numbers:
            chk.count('non-finite-stream')
            return
        # (1) the probe stream + limits predict the whole test run
        mp = mres[jobs['probe']]
        mt = mres[jobs['test']]
        if sx.is_err(mp) or sx.is_err(mt) or isinstance(mp, tuple) or isinstance(mt, tuple):
            chk.violation('corr:C13/driver', 'model-rejects', sig, fcase, dict(model=str(mp)[:300]), failing_input=False)
            return
        sp, st = dec_state(mp[0]), dec_state(mt[0])
        n = len(test['evals'])
        got = dict(errs=[q(x) for x in test['error_array']], surs=[q(x) for x in test['surplus_error_array']],
                   pts=test['num_point_array'], trace=test['events'], refines=test['events'].count(1), stopped=True)
        rerun_differs = (case.get('reuse') == 'instance' and pstream[:1] != tstream[:1])
        if rerun_differs:
            # a second performSpatiallyAdaptiv on the SAME dimension-wise instance may start from another grid than a fresh
            # instance (stale max_level_dict, only reset in refinement_postprocessing): not a statement of this property,
            # the run is then only compared with the model on its own stream and with the property predicate
            chk.count('rerun-on-same-instance-starts-from-different-state')
        for name, pred in (('probe-stream-prediction', sp), ('own-stream', st)):
            if rerun_differs and name == 'probe-stream-prediction':
                continue
            diff = [k for k in got if got[k] != pred[k]]
            if diff:
                chk.violation('corr:C13/driver', 'driver-differs', dict(sig, against=name), fcase,
                              dict(differs=sorted(diff), model={k: str(pred[k])[:300] for k in diff}, impl={k: str(got[k])[:300] for k in diff},
                                   limits=[A.unfl(limits[0]), limits[1], limits[2]]),
                              failing_input=bool(okinds & {'stop-index', 'history-arrays', 'refine-after-stop', 'point-count'}))
        # (2) distinct point counts from the raw evaluation log
        mc = mres[jobs['points']]
        if mc != test['num_point_array']:
            chk.violation('corr:C13/points', 'point-count-differs', sig, fcase,
                          dict(model=str(mc)[:300], impl=str(test['num_point_array'])[:300]), failing_input='point-count' in okinds)
        # (3) error estimate
        for k, j in enumerate(jobs.get('err', [])):
            me = mres[j]
            e = A.unfl(test['evals'][k]['err'])
            if me[0] != 2 or not close(e, sx.q(me[1]), case.get('norm', 0)):
                chk.violation('corr:C13/error', 'error-estimate-differs', dict(sig, norm=case.get('norm', 0)), fcase,
                              dict(evaluation=k, model=str(me), impl=e, result=[A.unfl(x) for x in test['evals'][k]['result']]),
                              failing_input='error-value' in okinds)
                break
        # (4) benefits of all objects at the stop
        if 'benefit' in jobs:
            mb = mres[jobs['benefit']]
            bs = [sx.q(x) for x in mb[0]]
            imp = [A.unfl(o[2]) for o in last['objs']]
            okb = all(abs(Fraction(i) - b) <= Fraction(EPS) * abs(b) for i, b in zip(imp, bs)) and len(imp) == len(bs)
            mx_ok = abs(Fraction(A.unfl(last['benefit_max'])) - sx.q(mb[1])) <= Fraction(EPS) * abs(sx.q(mb[1]))
            te_ok = abs(Fraction(A.unfl(last['total_error'])) - sx.q(mb[2])) <= Fraction(EPS) * 8 * abs(sx.q(mb[2]))
            if not (okb and mx_ok and te_ok):
                chk.violation('corr:C13/benefit', 'benefit-differs', sig, fcase,
                              dict(model=[float(b) for b in bs][:20], impl=imp[:20], max_ok=mx_ok, total_ok=te_ok), failing_input=False)
        chk.traces += 1
    return evaluate


def check_da(chk, case, r, mjobs):
    """DimAdaptiveCombi: the implementation must behave either like the base driver (property-conforming: entries
    recorded before the test, `<=`) or like the faithful model of the present code (dim_drive); in the latter case the
    property predicate below reports the deviations (known findings)."""
    limits = r['limits']
    probe, test = r['probe'], r['test']
    # the probe's own history may or may not contain the final evaluation: rebuild the full stream
    n_probe = probe['trace'].count(0)
    perrs = (probe['errors'] + [probe['final_err']])[:n_probe] if len(probe['errors']) < n_probe else probe['errors']
    ppts = (probe['num_points'] + [probe['total_points']])[:n_probe] if len(probe['num_points']) < n_probe else probe['num_points']
    stream = [(e, e, p) for e, p in zip(perrs, ppts)]
    j = len(mjobs)
    mjobs.append((1, enc_call(limits, stream)))
    mjobs.append((0, [enc_call([limits[0], 0, limits[2]], stream)]))

    def evaluate(mres):
        sig = sig_of(case)
        fcase = dict(case, limits=[A.unfl(limits[0]), None, limits[2]])
        got = dict(errs=[q(x) for x in test['errors']], pts=test['num_points'], trace=test['trace'], stopped=True)
        m_asis = dec_state(mres[j])
        m_conf = dec_state(mres[j + 1][0])
        conforming = all(got[k] == m_conf[k] for k in got)
        diff = [k for k in got if got[k] != m_asis[k]]
        n_eval = test['trace'].count(0)
        tol = A.unfl(limits[0])
        errs = [A.unfl(x) for x in perrs]
        # property: stop at the first evaluation with error <= tol or points > max; one history entry per evaluation
        first = next((k for k in range(len(errs)) if errs[k] <= tol or (limits[2] is not None and ppts[k] > limits[2])), None)
        if diff and not conforming:
            chk.violation('corr:C13/dimadaptive', 'dimadaptive-differs', dict(sig, observable=','.join(sorted(diff))), fcase,
                          dict(model={k: str(m_asis[k])[:300] for k in diff}, impl={k: str(got[k])[:300] for k in diff}), failing_input=False)
        chk.count('dimadaptive-conforming' if conforming else 'dimadaptive-as-is')
        if len(test['errors']) != n_eval or len(test['num_points']) != n_eval:
            chk.violation('oracle:driver', 'history-misses-final-evaluation', sig, fcase,
                          dict(why='%d evaluations, %d entries in errors, %d in num_points' % (n_eval, len(test['errors']), len(test['num_points']))))
        if first is not None and n_eval != first + 1:
            strict = next((k for k in range(len(errs)) if errs[k] < tol or (limits[2] is not None and ppts[k] > limits[2])), None)
            kind = 'strict-tolerance' if strict is not None and n_eval == strict + 1 and errs[first] == tol else 'stop-index'
            chk.violation('oracle:driver', kind, sig, fcase,
                          dict(why='rule first satisfied at evaluation %d (error %r, tolerance %r, points %d, max %s), run performed %d evaluations'
                                   % (first, errs[first], tol, ppts[first], limits[2], n_eval)))
        if test['total_points'] != test['distinct']:
            chk.violation('oracle:driver', 'point-count', sig, fcase, dict(why='reported %d, distinct %d' % (test['total_points'], test['distinct'])))
        chk.traces += 1
    return evaluate


def check_std(chk, case, r, mjobs):
    jp = len(mjobs); mjobs.append((5, [r['batch']]))
    je = None
    if case['ref'] is not None:
        je = len(mjobs); mjobs.append((3, [case.get('norm', 0), [sx.rat(x) for x in case['ref']], [q(x) for x in r['result']]]))

    def evaluate(mres):
        sig = sig_of(case)
        if mres[jp] != [r['total_points']] or r['total_points'] != r['distinct']:
            chk.violation('corr:C13/points', 'point-count-differs', sig, case, dict(model=str(mres[jp]), impl=r['total_points'], distinct=r['distinct']),
                          failing_input=r['total_points'] != r['distinct'])
        if je is not None:
            if not close(A.unfl(r['error']), sx.q(mres[je]), case.get('norm', 0), scale=max(abs(x) for x in case['ref']) + 1):
                chk.violation('corr:C13/error', 'error-estimate-differs', dict(sig, norm=case.get('norm', 0)), case,
                              dict(model=str(mres[je]), impl=A.unfl(r['error'])), failing_input=False)
        elif r['error'] is not None:
            chk.violation('oracle:driver', 'error-value', sig, case, dict(why='error reported without reference'))
        chk.traces += 1
    return evaluate


def run(chk):
    chk.coq_obligations()
    n = chk.n(240, 12000)
    cases = CORPUS + [gen_case(chk.rng, chk.quick) for _ in range(n)]
    impl = run_impl(impl_run, cases, limit=150)
    mjobs, todo = [], []
    keys, samples = [], []
    for c, (st, r) in zip(cases, impl):
        chk.count('strat=' + c['strat']); chk.count('dim=%d' % len(c['a'])); chk.count('norm=%d' % c.get('norm', 0)); chk.count('reuse=%s' % c.get('reuse'))
        chk.count('ref=' + ('none' if c['ref'] is None else 'zero' if all(x == 0 for x in c['ref']) else 'given'))
        if st != 'ok':
            where = r[1] if r else ''
            if st == 'exc' and r[0] == 'RuntimeError' and 'refinement selection does not terminate' in r[2]:
                chk.count('dimadaptive-selection-hang (all surpluses zero; outside this property)')
                continue
            if st == 'exc' and 'spatiallyAdaptiveBase.py' not in where and 'GridOperation.py:32' not in where:
                chk.count('library-exception-outside-driver:%s@%s' % (r[0], where))      # estimator crashes etc.: not this property
                continue
            chk.violation('corr:C13/driver', 'impl-exception', dict(sig_of(c), exc=r[0] if r else st), c, dict(impl=str(r)))
            continue
        if c['strat'] in ('dw', 'es'):
            todo.append(check_adaptive(chk, c, r, mjobs))
            nev = len(r['test']['evals'])
            chk.count('evaluations=%s' % (nev if nev < 6 else '6+'))
            if nev >= 2:
                keys.append((c['strat'], str(c['comps']), str(r['limits']), str(c.get('errcalc')), c.get('version'), c['lmax']))
            if len(samples) < 3 and nev >= 3:
                samples.append(dict(strat=c['strat'], limits=[A.unfl(r['limits'][0]), r['limits'][1], r['limits'][2]],
                                    errors=[A.unfl(x) for x in r['test']['error_array']], points=r['test']['num_point_array'],
                                    trace=r['test']['events']))
        elif c['strat'] == 'da':
            todo.append(check_da(chk, c, r, mjobs))
            if r['test']['trace'].count(0) >= 2:
                keys.append(('da', str(c['comps']), str(r['limits'])))
        else:
            todo.append(check_std(chk, c, r, mjobs))
    mres = run_model(13, mjobs)
    for ev in todo:
        ev(mres)
    chk.record_cases(len(cases), keys,
                     'probe+test run pairs of dimension-wise / extend-split / DimAdaptiveCombi / StandardCombi (d 2..3, lmin 1, lmax 2..4, '
                     'vector polynomial integrands, reference exact/shifted/zero/none, norms inf/1/2, library and scripted error calculators, '
                     'limits placed on observed errors and point counts); non-trivial = the test run performed at least two evaluations; '
                     'distinct by (strategy, integrand, limits, options)', samples)


def replay(chk, rep):
    c = rep['case']
    st, r = run_impl(impl_run, [c], limit=600)[0]
    print('impl:', st, str(r)[:3000])
    if st != 'ok':
        return 1
    mjobs = []
    fn = {'dw': check_adaptive, 'es': check_adaptive, 'da': check_da, 'std': check_std}[c['strat']]
    ev = fn(chk, c, r, mjobs)
    mres = run_model(13, mjobs)
    print('model:', str(mres)[:3000])
    ev(mres)
    for v in chk.violations:
        print('property predicate / correspondence:', v['check'], v['kind'], v['detail'])
    print('verdict:', 'VIOLATED' if chk.violations else 'holds')
    return 1 if chk.violations else 0
