"""C13: the adaptive driver honours its stopping rules and reports truthful numbers.

Correspondence: every adaptive case is a probe run (generous limits -> observation stream) followed by a test HISTORY on one object:
performSpatiallyAdaptiv and 0-3 continue_adaptive_refinement calls whose limits are drawn independently per call (ON observed values =
ties, 0, tighter / looser / equal than the previous call, arguments left to their defaults, positional calls; see _legs.py).  The
extracted model (Model/Driver.v) resolves the arguments of every call itself (defaults of the two entry points) and must reproduce
the event trace (evaluate / refine calls), the stop index and the returned history arrays of every call (a) from the call's own
observed stream (api_run) and (b) for the whole history from the probe stream alone (legs_on_stream: each call re-evaluates the
position the previous one stopped at); get_global_error_estimate, set_benefit and the distinct point count are recomputed by the model
from the result vector, the per-object numbers and the raw log of integrand evaluations.  The property predicate (oracle_adaptive)
judges every call by the limits its own arguments express, on the implementation alone."""
import json
import os
import sys
import random
import time
from fractions import Fraction

from .. import sx
from ..impl import run_impl, CaseTimeout
from ..model import run_model
from . import _adaptive as A
from . import _legs as LG
from . import _c13_gen

ASSUMPTIONS = [
    _c13_gen.ASSUMPTION,
    'max_time (wall clock) stopping condition is not modelled and never used',
    'defaults of the entry points (tol 10**-2 / 10**-3, min_evaluations 1, max_evaluations None) are constants of the model and of the predicate',
    'evaluation_points: analytic reference evaluations (operation.eval_analytic) are not counted as integrand evaluations of the quadrature; '
    'a point count taken before or after the interpolation is accepted',
    'floating point error values are compared with the exact model value up to 1e-12 relative (tolerance policy); '
    'the stopping decisions themselves are compared exactly (limits are chosen among the observed floats)',
    'norm 2 is modelled as its square (mean of squares), compared after squaring the reported value',
    'StandardCombi is not adaptive: only its reported difference (absolute deviation, no 1/len) and point count are tied',
]

EPS = 1e-12

# ---------------------------------------------------------------------------------------------- generator


def gen_case(rng, quick=True):
    r = rng.random()
    strat = 'dw' if r < 0.34 else 'es' if r < 0.68 else 'cell' if r < 0.77 else 'da' if r < 0.90 else 'std'
    dim = 2 if rng.random() < (0.8 if strat != 'dw' else 0.7) else 3
    if strat == 'dw' and rng.random() < 0.10:
        dim = 1              # cheap runs with many single-interval refinements
    a = [rng.choice([0, 0, -1]) for _ in range(dim)]
    b = [rng.choice([1, 1, 2]) for _ in range(dim)]
    nout = rng.choice([1, 1, 2, 3])
    if strat in ('dw', 'es', 'std') and dim == 2 and rng.random() < 0.05:
        nout = rng.choice([17, 65, 130])        # long result vectors (norms over many components; beyond typical block sizes)
    comps = A.gen_comps(rng, dim, nout)
    if strat == 'da':
        # DimAdaptiveCombi loops forever in its refinement selection when all surpluses vanish (odd integrands on symmetric
        # boxes); that hang is not the subject of this property: positive integrands on [0,b]
        a = [0] * dim
        comps = [[[abs(c), e] for c, e in terms] for terms in comps]
    # magnitudes: the property speaks about RELATIVE deviations, for every integrand and reference - components scaled by 2**k
    comps, ks = LG.scale_comps(rng, comps)
    unit = [2.0 ** k for k in ks]
    exact = A.poly_integral(comps, a, b)
    rr = rng.random()
    if rr < 0.55:
        ref = [float(x) for x in exact]
    elif rr < 0.75:     # some other reference (the driver must report the deviation from whatever it is given)
        ref = [float(x) + rng.choice([0.5, -0.25, 1.0, 0.125]) * u for x, u in zip(exact, unit)]
    elif rr < 0.87:
        ref = [0.0] * nout
    else:
        ref = None
    if ref is not None and any(x == 0.0 for x in ref) and not all(x == 0.0 for x in ref):
        ref = [x if x != 0.0 else u for x, u in zip(ref, unit)]        # partly-zero references: relative deviation undefined (division by zero in the code), excluded
    if strat == 'da' and (ref is None or any(x == 0.0 for x in ref)):
        ref = [x if x != 0.0 else u for x, u in zip([float(x) for x in exact] if ref is None else ref, unit)]   # perform_combi asserts/divides
    case = dict(strat=strat, a=a, b=b, comps=comps, ref=ref, norm=rng.choice([0, 0, 1, 2]), boundary=rng.random() < 0.8,
                lmin=1, lmax=2, seed=rng.randrange(1 << 30), scales=ks)
    if strat in ('dw', 'es', 'cell'):
        # histories on one object: the test history reuses the probe's operation (as the repo's tests do) or the instance itself
        # (a second performSpatiallyAdaptiv on the same cell-scheme instance does not terminate: its refinement finds nothing to
        #  refine in the stale class-level cell bookkeeping; outside the driver, excluded)
        case['reuse'] = rng.choice([None, None, 'op', 'op', 'instance'] if strat != 'cell' else [None, 'op'])
        # options of performSpatiallyAdaptiv that must not change what the driver does
        ro = rng.random()
        if ro < 0.12:
            case['reeval'] = True
        elif ro < 0.22:
            case['storage'] = True            # (asserted to exclude reevaluate_at_end)
        if rng.random() < 0.18:
            # recalculate_frequently restarts the computation whenever refinements / refinements_for_recalculate exceeds a counter;
            # the threshold (public attribute, default 100) is lowered so that restarts HAPPEN within short histories; the default is
            # kept for a part of the cases (crossed only by the long runs)
            case['recalc'] = True
            if rng.random() < 0.8:
                case['recalc_every'] = rng.choice([1, 2, 5, 12])
        if rng.random() < 0.10 and strat != 'cell':      # (cell scheme + evaluation_points raises IndexError in the driver: excluded)
            case['evalpts'] = True
        if rng.random() < 0.06:
            case['test_scheme'] = True
    big = rng.random()
    if strat == 'dw':
        case.update(version=rng.choice([6, 6, 3, 7, 2, 8, 1]), rebalancing=rng.random() < 0.6,
                    errcalc='lib' if rng.random() < 0.5 else ['scripted', rng.randrange(1 << 20)])
        case['probe_max'] = (rng.choice([40, 60, 90]) if big < 0.86 else 300 if big < 0.95 else 600) if dim == 2 else rng.choice([120, 200]) if dim == 3 else rng.choice([40, 150, 300])
        if case.get('recalc') and 'recalc_every' not in case and dim <= 2:
            case['probe_max'] = 300 if dim == 1 else 600        # long enough for more than refinements_for_recalculate = 100 refinements
        if rng.random() < 0.22:
            case['ggrid'] = rng.choice(['simpson', 'highorder', 'lagrange2', 'bspline3'])
        if rng.random() < 0.08:
            case['margin'] = 0.5
        if rng.random() < 0.08:
            case['dim_adaptive'] = True
        if rng.random() < 0.08:
            case['volume_weighting'] = True
        if rng.random() < 0.06 and 'ggrid' not in case:
            case.update(op=['uq', 'Uniform'], ggrid='trapw')
    elif strat == 'es':
        case.update(lmax=rng.choice([2, 2, 3]), nrbe=rng.choice([1, 1, 2]), auto=rng.random() < 0.3,
                    errcalc='lib' if rng.random() < 0.5 else ['scripted', rng.randrange(1 << 20)])
        case['probe_max'] = (rng.choice([100, 160, 250]) if big < 0.88 else 600 if big < 0.96 else 1500) if dim == 2 else rng.choice([250, 400])
        case['boundary'] = rng.random() < 0.92     # without boundary points extend-split stops in Function.__call__ (empty batch, see C12)
        case['version'] = rng.choice([0, 0, 0, 1, 2])
        if rng.random() < 0.10:
            case['single_dim'] = True
        if rng.random() < 0.22:
            case['grid'] = rng.choice(['cc', 'simpson', 'leja', 'lagrange2', 'bspline3'])
            if case['grid'] == 'leja' and (dim > 2 or case['probe_max'] > 100 or rng.random() < 0.5):      # Leja points are slow to construct
                case['grid'] = 'cc'
    if case.get('evalpts') and (case.get('grid') or case.get('ggrid')):
        # evaluation_points on non-trapezoidal grids: the interpolation evaluates further integrand points AFTER the append to the
        # point-count array and BEFORE the stopping test (known finding C13-evaluation-points-count-lags, kept as corpus exemplar)
        del case['evalpts']
    if strat == 'cell':
        case.update(errcalc='lib' if rng.random() < 0.6 else ['scripted', rng.randrange(1 << 20)], boundary=True)
        case['probe_max'] = rng.choice([60, 120, 200]) if dim == 2 else rng.choice([150, 300])
    if strat == 'da':
        case['probe_max'] = rng.choice([40, 80, 120]) if dim == 2 else rng.choice([150, 250])
        case['boundary'] = True
    if strat == 'std':
        case['lmax'] = rng.choice([2, 3, 4]) if dim == 2 else rng.choice([2, 3])
    return case


def choose_limits(rng, errs, pts):
    """limits sitting ON observed values; errs/pts = probe stream (floats, ints). Returns (tol, min, max) with max possibly None."""
    n = len(errs)
    j = rng.randrange(n)
    big = max([e for e in errs if e == e and e != float('inf')] + [1.0]) * 2 + 1
    r = rng.random()
    if r < 0.14:
        return (-1.0, 1, pts[j])                       # points == max does not stop, points > max does
    if r < 0.28:
        return (-1.0, 1, pts[j] - 1)
    if r < 0.44:
        return (errs[j], 1, pts[-1] - 1)               # error == tol stops
    if r < 0.54:
        return (errs[j], 1, None) if errs[j] >= 0 else (errs[j], 1, pts[-1] - 1)
    if r < 0.66:
        return (big, pts[j], pts[-1] - 1)              # points == min suffices
    if r < 0.74:
        return (big, pts[j] + 1, pts[-1] - 1)
    if r < 0.82:
        return (big, rng.choice([0, 1, pts[0]]), rng.choice([None, pts[-1]]))     # met at the first evaluation (tolerance)
    if r < 0.88:
        return (-1.0, 1, pts[0] - 1)                   # met at the first evaluation (maximum)
    i, m = rng.randrange(n), rng.randrange(n)
    return (errs[j], pts[i], pts[m] - rng.choice([0, 1]))

# ---------------------------------------------------------------------------------------------- implementation workers


def perform_options(case):
    """non-default options of performSpatiallyAdaptiv that are part of the envelope (they must not change what the driver does)"""
    kw = {}
    if case.get('reeval'):
        kw['reevaluate_at_end'] = True
    if case.get('recalc'):
        kw['recalculate_frequently'] = True
    if case.get('test_scheme'):
        kw['test_scheme'] = True
    if case.get('storage'):
        kw['solutions_storage'] = {}
    if case.get('evalpts'):
        kw['evaluation_points'] = eval_points(case)
    return kw


def eval_points(case):
    """interpolation check points of the evaluation_points option: never grid points (non-dyadic coordinates)"""
    return [tuple(float(aa + (bb - aa) * t) for aa, bb in zip(case['a'], case['b'])) for t in (1 / 3, 0.7, 0.9)]


def _run_adaptive(case, legs, keep_points, reuse=None, options=True):
    """One history on one object: performSpatiallyAdaptiv(legs[0]) then continue_adaptive_refinement(legs[i]) (see _legs.py).
    reuse: None (fresh objects) | ('op', op) new strategy instance on the probe's operation/grid/function (what the repo's
    tests do) | ('instance', sa, op, f, eo) performSpatiallyAdaptiv on the very same instance.
    Returns per-leg records (events, evaluations seen by the driver, returned tuple) of the history."""
    if reuse is None:
        sa, op, f, eo = A.build(case)
    elif reuse[0] == 'op':
        sa, op, f, eo = A.build(case, op=reuse[1])
    else:
        sa, op, f, eo = reuse[1:]
        del sa.evaluate_operation, sa.refine          # remove the wrappers of the previous run
    if options and case.get('recalc_every'):
        sa.refinements_for_recalculate = case['recalc_every']
    del f.log[:]                                      # evaluations of THIS run (the function cache is reset by initialize())
    events, evals = [], []
    t_run = time.time()
    cur_leg = [None]
    orig_eval, orig_refine = sa.evaluate_operation, sa.refine
    mark = [0]
    # evaluation_points: the driver evaluates the ANALYTIC model there (operation.eval_analytic -> f.eval, for the interpolation
    # error arrays); these reference evaluations are not evaluations of the quadrature and are not counted
    skip = set(eval_points(case)) if (options and case.get('evalpts')) else set()

    def nlog():
        return len(set(f.log) - skip) if skip else len(set(f.log))

    def alarm_inside_run():
        leg, last = cur_leg[0], (evals[-1] if evals else None)
        try:
            n = min(last['fdict'], last['distinct']) if last else 0
            overrun = last is not None and leg is not None and (
                (leg.get('max') is not None and n > leg['max']) or
                (A.unfl(last['err']) <= float(leg.get('tol', -1.0)) and n >= leg.get('min', 1)))
        except Exception:
            overrun = True
        if not overrun:
            raise RuntimeError('harness budget exceeded (per-case alarm after %d s, %d evaluations of the driver, stop rule of the leg not met yet)' % (time.time() - t_run, len(evals)))

    def ev():
        t_step = time.time()
        try:
            r = orig_eval()
        except CaseTimeout:
            # the per-case alarm fired while the driver was legitimately still refining (e.g. the B-spline / Lagrange global grids
            # cost O(2^depth) per weight computation on a deep 1D refinement, every step slower than the one before): that is the
            # cost of library steps outside the driver. It is a violation only if the numbers of the LAST completed evaluation
            # already met the stop rule of the current leg (the loop should have stopped and went on) - then 'timeout' stands.
            alarm_inside_run()
            raise
        objs = A.all_objects(sa)
        rec = dict(err=A.fl(r[0]), sur=A.fl(r[1]), distinct=nlog(), fdict=int(f.get_f_dict_size()),
                   result=A.vec(op.integral), benefit_max=A.fl(sa.benefit_max), total_error=A.fl(sa.total_error),
                   objs=[[A.fl(o.error), A.fl(o.evaluations), A.fl(o.benefit)] for o in objs])
        rec['restarts'] = int(getattr(sa, 'counter', 1)) - 1
        if keep_points:
            rec['batch'] = [A.point_key(p) for p in f.log[mark[0]:] if p not in skip]
            mark[0] = len(f.log)
        evals.append(rec)
        events.append(0)
        if len(f.log) > 250000:
            raise RuntimeError('harness budget exceeded')
        return r

    def rf():
        events.append(1)
        if evals:
            evals[-1]['distinct_after'] = nlog()      # incl. what the interpolation at evaluation_points evaluated after the evaluation
        try:
            return orig_refine()
        except CaseTimeout:
            alarm_inside_run()
            raise
    sa.evaluate_operation = ev
    sa.refine = rf
    kw = perform_options(case) if options else {}
    out = []
    for i, leg in enumerate(legs):
        e0, v0 = len(events), len(evals)
        cur_leg[0] = leg
        n_final = len(f.log)
        if i == 0:
            r = LG.call_perform(sa, eo, case, leg, **kw)
        else:
            r = LG.call_continue(sa, leg)
        if evals and not case.get('reeval'):
            evals[-1]['distinct_after'] = nlog()
        rec = dict(events=events[e0:], evals=evals[v0:], result=A.vec(r[3]), evaluations=A.fl(r[4]),
                   error_array=[A.fl(x) for x in r[5]], num_point_array=[int(x) for x in r[6]],
                   surplus_error_array=[A.fl(x) for x in r[7]], interp_l2=len(r[8]), interp_max=len(r[9]),
                   total_points=int(sa.get_total_num_points()), distinct=nlog(),
                   evaluationstotal=A.fl(sa.refinement.evaluationstotal), integral=A.vec(op.integral),
                   restarts=int(getattr(sa, 'counter', 1)) - 1, refinements=int(getattr(sa, 'refinements', 0)))
        if kw.get('solutions_storage') is not None:
            st = kw['solutions_storage']
            rec['storage'] = sorted([int(k), A.vec(v)] for k, v in st.items())
        out.append(rec)
    return dict(legs=out, objects=(sa, op, f, eo))


def _run_da(case, tolerance, max_points):
    da, op, f, _ = A.build(case)
    events = []
    grid = op.grid
    orig_int = grid.integrate
    orig_upd = da.combischeme.update_adaptive_combi

    def integ(*a, **k):
        events.append(0)
        return orig_int(*a, **k)

    empty = [0]

    def upd(*a, **k):
        events.append(1)
        r = orig_upd(*a, **k)
        empty[0] = empty[0] + 1 if not r else 0
        if empty[0] > 300:
            # all surpluses vanish (e.g. exactly integrated function): argmax keeps returning a non-refinable grid
            raise RuntimeError('harness: DimAdaptiveCombi refinement selection does not terminate')
        return r
    grid.integrate = integ
    da.combischeme.update_adaptive_combi = upd
    with A.quiet():
        r = da.perform_combi(case['lmin'], case['lmax'], tolerance, max_number_of_points=max_points)
    # collapse runs: evaluation phases / refinement rounds
    trace = []
    for e in events:
        if not trace or trace[-1] != e:
            trace.append(e)
    import numpy as np
    ref = np.array(case['ref'])
    final_err = max(abs(r[2] - ref) / abs(ref))
    return dict(trace=trace, abs_error=A.vec(r[1]), result=A.vec(r[2]), errors=[A.fl(x) for x in r[3]],
                num_points=[int(x) for x in r[4]], total_points=int(da.get_total_num_points()), distinct=len(set(f.log)),
                final_err=A.fl(final_err))


def impl_run(case):
    t0 = time.time()
    rng = random.Random(case['seed'])
    strat = case['strat']
    if strat == 'std':
        sc, op, f, _ = A.build(case)
        with A.quiet():
            r = sc.perform_operation(case['lmin'], case['lmax'])
        return dict(error=None if r[1] is None else A.fl(r[1]), result=A.vec(r[2]), total_points=int(sc.get_total_num_points()),
                    distinct=len(set(f.log)), batch=[A.point_key(p) for p in f.log])
    if strat == 'da':
        probe = _run_da(case, -1.0, case['probe_max'])
        n_probe = probe['trace'].count(0)
        errs = ([A.unfl(x) for x in probe['errors']] + [A.unfl(probe['final_err'])])[:max(n_probe, len(probe['errors']))]
        pts = (probe['num_points'] + [probe['total_points']])[:max(n_probe, len(probe['num_points']))]
        errs, pts = errs[:n_probe], pts[:n_probe]
        limits = case.get('limits')
        if limits is None:
            j = rng.randrange(len(errs))
            r = rng.random()
            limits = [errs[j], None, pts[-1] - 1] if r < 0.5 else [-1.0, None, pts[j] - rng.choice([0, 1])] if r < 0.85 \
                else [errs[j] * 1.5 + 1e-9, None, pts[rng.randrange(len(pts))]]
        if not any(e < limits[0] or (limits[2] is not None and p > limits[2]) for e, p in zip(errs, pts)):
            limits = [limits[0], None, pts[-1] - 1]        # the test run must stop inside the probe stream
        test = _run_da(case, limits[0], limits[2])
        return dict(probe=probe, test=test, limits=[A.fl(limits[0]), None, limits[2]])
    # (the probe runs with the same options: evaluation_points adds the integrand evaluations of the interpolation to the counts)
    probe = _run_adaptive(case, [{'tol': -1.0, 'min': 1, 'max': case['probe_max']}], False)
    objects = probe.pop('objects')
    probe = probe['legs'][0]
    errs = [A.unfl(x) for x in probe['error_array']]
    pts = probe['num_point_array']
    mode = case.get('reuse')
    history = case.get('history')
    if history is None and case.get('limits') is not None:            # single-leg cases of round 1 (corpus, exemplars, old replays)
        l = case['limits']
        history = [{'tol': A.unfl(l[0]) if isinstance(l[0], str) else l[0], 'min': l[1], 'max': l[2]}]
        if first_stop_py(history, errs, pts) is None:
            history[0]['max'] = pts[-1] - 1
    if history is None:
        # every leg must stop inside the probe stream (the run is deterministic, so it sees the same stream; on a re-used
        # instance it may not, there every leg gets an explicit point budget)
        history = LG.draw_history(rng, errs, pts, force_max=(mode == 'instance'))
    test = _run_adaptive(case, history, True,
                         reuse=None if not mode else ('op', objects[1]) if mode == 'op' else ('instance',) + objects)
    test.pop('objects')
    return dict(probe=probe, test=test, history=history, secs=time.time() - t0)


def first_stop_py(history, errs, pts):
    return LG.first_stop(LG.resolve(history[0], True), errs, pts, 0)

# ---------------------------------------------------------------------------------------------- model encoding


def q(hexfloat):
    return sx.rat(A.unfl(hexfloat))


def finite(hexfloat):
    x = A.unfl(hexfloat)
    return x == x and x not in (float('inf'), float('-inf'))


def enc_call(limits, stream):
    tol, mn, mx = limits
    return [q(tol), int(mn if mn is not None else 0), [] if mx is None else [int(mx)], [[q(e), q(s), int(p)] for e, s, p in stream]]


def dec_state(st):
    errs, surs, pts, trace, refines, stopped = st
    return dict(errs=[sx.q(x) for x in errs], surs=[sx.q(x) for x in surs], pts=pts, trace=trace, refines=refines, stopped=bool(stopped))


def py_stop(limits, e, p):
    tol, mn, mx = limits
    return (e <= tol and p >= mn) or (mx is not None and p > mx)

# ---------------------------------------------------------------------------------------------- oracle (implementation only)


def rel_error_py(case, result):
    """the property's own reading of 'relative (absolute for a zero reference) deviation in the chosen norm', in Fractions
    (norm 2: squared)"""
    ref = case['ref']
    if ref is None:
        return None
    refq = [sx.rat(x) for x in ref]
    resq = [sx.rat(A.unfl(x)) for x in result]
    if all(x == 0 for x in refq):
        dev = [abs(x) for x in resq]
    else:
        dev = [abs((r - i) / r) for r, i in zip(refq, resq)]
    nm = case.get('norm', 0)
    if nm == 0:
        return max(dev)
    if nm == 1:
        return sum(dev) / len(dev)
    return sum(x * x for x in dev) / len(dev)


def close(impl_float, exact, nm, scale=0.0):
    """reported float vs exact value (of the same float inputs): RELATIVE 1e-12 - no absolute slack, the quantities live on any scale
    (|(r - i) / r| is computed with relative rounding only: the subtraction is exact or rounds relatively, sums have non-negative terms)"""
    v = Fraction(impl_float) if impl_float == impl_float and abs(impl_float) != float('inf') else None
    if v is None:
        return False
    if nm == 2:
        v = v * v
        return abs(v - exact) <= Fraction(EPS) * 4 * abs(exact)
    return abs(v - exact) <= Fraction(EPS) * abs(exact)


def oracle_adaptive(case, history, run):
    """property predicate on one implementation history (performSpatiallyAdaptiv + continue_adaptive_refinement calls on one
    object); returns list of (kind, detail).  Every call is judged by the limits ITS OWN arguments express."""
    bad = []
    all_evs, all_events = [], []
    nm = case.get('norm', 0)
    for i, (leg, rec) in enumerate(zip(history, run['legs'])):
        lim = LG.resolve(leg, i == 0)
        what = 'call %d (%s %s)' % (i, 'performSpatiallyAdaptiv' if i == 0 else 'continue_adaptive_refinement',
                                    ', '.join('%s=%r' % (k, leg[k]) for k in ('tol', 'min', 'max') if k in leg) or 'defaults')
        evs = rec['evals']
        n = len(evs)
        errs = [A.unfl(e['err']) for e in evs]
        # stopping rule on the numbers the run reports (error array, point count array); that the reported counts ARE the
        # numbers of distinct integrand evaluations is demanded separately below ('point-count')
        dist = rec['num_point_array'][len(all_evs):len(all_evs) + n]
        if len(dist) != n:
            dist = [e['distinct'] for e in evs]
        first = next((k for k in range(n) if LG.py_stop(lim, errs[k], dist[k])), None)
        trace = rec['events']
        want = [0, 1] * (first if first is not None else n) + ([0] if first is not None else [])
        if first is None:
            bad.append(('stop-index', '%s returned although no evaluation satisfied its stopping rule (limits %s; last error %r, points %s)'
                        % (what, lim, errs[-1] if errs else None, dist[-1] if dist else None)))
        elif trace != want:
            bad.append(('stop-index', '%s: rule first satisfied at its evaluation %d (error %r, points %d, limits %s) but the driver performed %d evaluations and %d refinements'
                        % (what, first, errs[first], dist[first], lim, trace.count(0), trace.count(1))))
        if trace.count(1) != trace.count(0) - 1 or (trace and trace[-1] != 0):
            bad.append(('refine-after-stop', '%s: trace %s' % (what, trace)))
        all_evs += evs
        all_events += trace
        ntot = len(all_evs)
        for name in ('error_array', 'num_point_array', 'surplus_error_array'):
            if len(rec[name]) != ntot:
                bad.append(('history-arrays', '%s: %s has %d entries for %d evaluations since performSpatiallyAdaptiv' % (what, name, len(rec[name]), ntot)))
        if case.get('evalpts') and (rec['interp_l2'] != ntot or rec['interp_max'] != ntot):
            bad.append(('history-arrays', '%s: interpolation error arrays have %d / %d entries for %d evaluations' % (what, rec['interp_l2'], rec['interp_max'], ntot)))
        if rec['error_array'] != [e['err'] for e in all_evs] or rec['surplus_error_array'] != [e['sur'] for e in all_evs]:
            bad.append(('history-arrays', '%s: error arrays differ from the values the driver decided on' % what))
        pa = rec['num_point_array']
        if any(pa[j] > pa[j + 1] for j in range(len(pa) - 1)):
            bad.append(('points-decrease', '%s: %s' % (what, pa)))
        # (with evaluation_points the interpolation evaluates further points right after the evaluation: a count taken before or
        #  after it is truthful at its time)
        okp = len(pa) <= len(all_evs) and all(p == e['distinct'] or (case.get('evalpts') and p == e.get('distinct_after')) for p, e in zip(pa, all_evs))
        if not okp or rec['total_points'] != rec['distinct']:
            bad.append(('point-count', '%s: reported %s (total %d), distinct integrand evaluations %s (total %d)'
                        % (what, pa, rec['total_points'], [e['distinct'] for e in all_evs], rec['distinct'])))
        for k, e in enumerate(evs):
            vals = [A.unfl(e['err']), A.unfl(e['sur']), A.unfl(e['benefit_max'])] + [A.unfl(x) for o in e['objs'] for x in (o[0], o[2])]
            if any((v < 0) or (v != v) for v in vals):
                bad.append(('negative', '%s evaluation %d: negative or nan error/benefit' % (what, k)))
                break
        if case['ref'] is not None:
            for k, e in enumerate(evs):
                ex = rel_error_py(case, e['result'])
                if not close(A.unfl(e['err']), ex, nm):
                    bad.append(('error-value', '%s evaluation %d: reported error %r, deviation of the result from the reference %s'
                                % (what, k, A.unfl(e['err']), float(ex) if nm != 2 else float(ex) ** 0.5)))
                    break
            if evs:
                # the returned result is the one the last error was computed from (bit-identical; with reevaluate_at_end the
                # combination is recomputed from scratch: equal up to rounding)
                same = rec['result'] == evs[-1]['result'] if not case.get('reeval') else \
                    all(abs(A.unfl(x) - A.unfl(y)) <= 1e-12 * (abs(A.unfl(x)) + abs(A.unfl(y)) + LG.magnitude(case)) for x, y in zip(rec['result'], evs[-1]['result']))
                if not same:
                    bad.append(('result-differs', '%s: returned result is not the result the last error was computed from' % what))
        else:
            if any(e['err'] != e['sur'] for e in evs):
                bad.append(('error-value', '%s: without reference the error must be the total surplus error' % what))
        if 'storage' in rec:
            # solutions_storage: one entry per distinct point count seen, holding the result of (the last) evaluation with that count
            want_st = {}
            for e, p in zip(all_evs, pa):
                want_st[p] = e['result']
            if rec['storage'] != sorted([k, v] for k, v in want_st.items()):
                bad.append(('history-arrays', '%s: solutions_storage does not hold the results of the evaluations' % what))
    return bad

# ---------------------------------------------------------------------------------------------- check


CORPUS = [
    # limits met at the first evaluation; error == tol tie; points == max tie; vector valued, zero reference
    dict(strat='dw', a=[0, 0], b=[1, 1], comps=[[[1, [2, 0]], [3, [1, 1]]]], ref=[13 / 12], norm=0, boundary=True, lmin=1, lmax=2,
         seed=1, version=6, rebalancing=True, errcalc='lib', probe_max=60, limits=[10.0, 1, None]),
    dict(strat='es', a=[0, 0], b=[1, 1], comps=[[[1, [2, 0]], [3, [1, 1]]], [[2, [0, 2]], [1, [0, 0]]]], ref=[13 / 12, 5 / 3], norm=1,
         boundary=True, lmin=1, lmax=2, seed=2, nrbe=1, auto=False, errcalc='lib', probe_max=100, limits=[-1.0, 1, 65]),
    dict(strat='es', a=[0, 0], b=[1, 1], comps=[[[1, [2, 0]], [3, [1, 1]]], [[2, [0, 2]], [1, [0, 0]]]], ref=[0.0, 0.0], norm=2,
         boundary=True, lmin=1, lmax=2, seed=3, nrbe=1, auto=False, errcalc='lib', probe_max=100, limits=[-1.0, 1, 64]),
    dict(strat='da', a=[0, 0], b=[1, 1], comps=[[[1, [2, 0]], [3, [1, 1]]], [[2, [0, 2]], [1, [0, 0]]]], ref=[13 / 12, 5 / 3], norm=0,
         boundary=True, lmin=1, lmax=2, seed=4, probe_max=80),
    dict(strat='std', a=[0, 0], b=[1, 1], comps=[[[1, [2, 0]], [3, [1, 1]]], [[2, [0, 2]], [1, [0, 0]]]], ref=[13 / 12, 5 / 3], norm=2,
         boundary=True, lmin=1, lmax=3, seed=5),
    # histories of several calls: tighter, then looser tolerance with a larger budget, then tol=0 (int) and defaults left implicit
    dict(strat='dw', a=[0, 0], b=[1, 1], comps=[[[1, [2, 0]], [3, [1, 3]]]], ref=[0.7083333333333334], norm=0, boundary=True, lmin=1, lmax=2,
         seed=6, version=6, rebalancing=True, errcalc='lib', probe_max=250,
         history=[{'tol': 0.01, 'min': 1, 'max': 150}, {'tol': 0.0005, 'max': 150}, {'tol': 0.01, 'max': 400, 'style': 'pos', 'min': 1}, {'tol': 0, 'max': 200}, {}]),
    dict(strat='es', a=[0, 0], b=[1, 1], comps=[[[1, [2, 0]], [3, [1, 3]]]], ref=[0.7083333333333334], norm=0, boundary=True, lmin=1, lmax=2,
         seed=7, nrbe=1, auto=False, errcalc='lib', probe_max=250,
         history=[{'tol': 1e-07, 'max': 40}, {'tol': 0.01, 'max': 300}, {'max': 100}]),
    dict(strat='es', a=[0, 0], b=[1, 1], comps=[[[1, [2, 0]], [3, [1, 3]]]], ref=[0.7083333333333334], norm=0, boundary=True, lmin=1, lmax=2,
         seed=8, nrbe=1, auto=False, errcalc='lib', probe_max=250, history=[{'max': 100}, {'tol': 0.0, 'max': 160}]),
    # the outcome depends on the default tolerance of continue_adaptive_refinement (10**-3, not performSpatiallyAdaptiv's 10**-2)
    dict(strat='dw', a=[0, 0], b=[1, 1], comps=[[[1, [2, 0]], [3, [1, 3]]]], ref=[0.7083333333333334], norm=0, boundary=True, lmin=1, lmax=2,
         seed=9, version=6, rebalancing=True, errcalc='lib', probe_max=250, history=[{'max': 40}, {'max': 249}, {'tol': 0.01}]),
    # recalculate_frequently with the DEFAULT threshold (100 refinements) crossed by a long cheap 1D run, and with a lowered threshold
    dict(strat='dw', a=[0], b=[1], comps=[[[1, [2]], [3, [3]]]], ref=None, norm=0, boundary=True, lmin=1, lmax=2, seed=10, version=6, rebalancing=True,
         errcalc=['scripted', 7], probe_max=200, recalc=True, history=[{'tol': -1.0, 'max': 90}, {'tol': -1.0, 'max': 150}, {'tol': 0, 'max': 160}]),
    dict(strat='dw', a=[0, 0], b=[1, 1], comps=[[[1, [2, 0]], [3, [1, 3]]]], ref=[0.7083333333333334], norm=0, boundary=True, lmin=1, lmax=2, seed=11,
         version=6, rebalancing=True, errcalc=['scripted', 5], probe_max=120, recalc=True, recalc_every=2,
         history=[{'tol': -1.0, 'max': 60}, {'tol': -1.0, 'max': 100}]),
    # exemplars of the known findings of round 2
    dict(strat='es', a=[0, -1, 0], b=[2, 1, 1], comps=[[[1, [3, 2, 3]], [-2, [2, 1, 3]]]], ref=[0.7916666666666666], norm=0, boundary=True,
         lmin=1, lmax=3, seed=836896836, reuse=None, reeval=True, nrbe=1, auto=True, errcalc='lib', probe_max=400, version=2,
         history=[{'tol': -1.0, 'max': 225}]),
    dict(strat='dw', a=[0, 0], b=[2, 1], comps=[[[1, [1, 0]]]], ref=[2.0], norm=2, boundary=False, lmin=1, lmax=2, seed=613539740, reuse=None,
         version=7, rebalancing=True, errcalc=['scripted', 137552], probe_max=90, ggrid='simpson', history=[{'tol': -1.0, 'max': 43}]),
    dict(strat='es', a=[0, -1], b=[1, 1], comps=[[[2, [2, 1]], [3, [1, 3]], [2, [1, 2]]]], ref=[0.6666666666666666], norm=1, boundary=False, lmin=1,
         lmax=2, seed=37337673, reuse=None, nrbe=1, auto=False, errcalc='lib', probe_max=250, version=2, single_dim=True, grid='cc',
         history=[{'tol': -1.0, 'max': 30}]),
    dict(strat='es', a=[0, -1], b=[1, 1], comps=[[[-1, [1, 3]], [2, [2, 2]]]], ref=[0.4444444444444444], norm=0, boundary=True, lmin=1, lmax=2,
         seed=123648930, reuse=None, evalpts=True, nrbe=1, auto=False, errcalc=['scripted', 931071], probe_max=100, version=2, grid='cc',
         history=[{'tol': 0.04736328124999972, 'min': 97, 'max': 58}]),
    # exemplar of C13-dimadaptive-strict-tolerance (tolerance equal to the error of the second evaluation)
    dict(strat='da', a=[-1, -1], b=[1, 1], comps=[[[3, [0, 2]]], [[1, [3, 2]]]], ref=[1.0, 1.0], norm=0, boundary=True, lmin=1, lmax=2,
         seed=176363980, probe_max=40, limits=[3.125, None, 56]),
]


def sig_of(case):
    return {'strat': case['strat']}


def _approx_states(got, pred):
    """equal up to rounding of the error values (all decisions, counts and traces identical)"""
    for k in ('pts', 'trace', 'refines', 'stopped'):
        if got[k] != pred[k]:
            return False
    for k in ('errs', 'surs'):
        if len(got[k]) != len(pred[k]) or any(abs(a - b) > Fraction(1, 10 ** 9) * (abs(a) + abs(b)) for a, b in zip(got[k], pred[k])):
            return False
    return True


def check_adaptive(chk, case, r, mjobs):
    """queue model jobs for one adaptive history; returns closure evaluating them"""
    history = r['history']
    probe, test = r['probe'], r['test']
    legs = test['legs']
    pstream = list(zip(probe['error_array'], probe['surplus_error_array'], probe['num_point_array']))
    tstreams, n0 = [], 0
    for leg in legs:
        rep = leg['num_point_array'][n0:n0 + len(leg['evals'])]
        if len(rep) != len(leg['evals']):
            rep = [e['distinct'] for e in leg['evals']]
        tstreams.append([(e['err'], e['sur'], p) for e, p in zip(leg['evals'], rep)])
        n0 += len(leg['evals'])
    ok_numbers = all(finite(e) and finite(s) for e, s, _ in pstream + [x for t in tstreams for x in t])
    ok_numbers = ok_numbers and all(finite(A.fl(float(l['tol']))) for l in history if 'tol' in l)
    jobs = {}
    if ok_numbers:
        jobs['probe'] = len(mjobs); mjobs.append((7, [[LG.enc_args(l) for l in history], LG.enc_stream(pstream)]))
        jobs['test'] = len(mjobs); mjobs.append((6, [[LG.enc_args(l), LG.enc_stream(t)] for l, t in zip(history, tstreams)]))
    all_evals = [e for leg in legs for e in leg['evals']]
    jobs['points'] = len(mjobs); mjobs.append((5, [e['batch'] for e in all_evals]))
    if not case.get('evalpts') and sum(len(e['batch']) for e in all_evals) <= 4000:
        # the same through the cache machine of C12 composed with the driver events (Model/DriverCount.v): evaluations and the restarts
        # of recalculate_frequently in the order they happened; the model answers with the counts an observer of the integrand reports
        items, seen = [[0]], 0
        for e in all_evals:
            items += [[2, 0]] * max(0, e.get('restarts', 0) - seen)
            seen = max(seen, e.get('restarts', 0))
            items.append([1, e['batch']])
        jobs['cache'] = len(mjobs); mjobs.append((8, items))
    if case['ref'] is not None:
        jobs['err'] = []
        for e in all_evals:
            jobs['err'].append(len(mjobs))
            mjobs.append((2, [case.get('norm', 0), [[sx.rat(x) for x in case['ref']]], [q(x) for x in e['result']]]))
    if 'storage' in legs[-1] and len(legs[-1]['num_point_array']) == len(all_evals) and all(finite(x) for e in all_evals for x in e['result']):
        jobs['storage'] = len(mjobs)
        mjobs.append((9, [[int(p_), [q(x) for x in e['result']]] for p_, e in zip(legs[-1]['num_point_array'], all_evals)]))
    last = all_evals[-1]
    # (the cell scheme does not use RefinementContainer.set_benefit: its benefits are not part of the model)
    if case['strat'] != 'cell' and all(finite(o[0]) and A.unfl(o[1]) == int(A.unfl(o[1])) for o in last['objs']):
        jobs['benefit'] = len(mjobs)
        mjobs.append((4, [[[q(o[0]), int(A.unfl(o[1]))] for o in last['objs']]]))

    def evaluate(mres):
        sig = sig_of(case)
        fcase = dict(case, history=history)
        fcase.pop('limits', None)
        bad = oracle_adaptive(case, history, test)
        okinds = {k for k, _ in bad}
        for kind, detail in bad:
            osig = dict(sig, calls='one' if len(history) == 1 else 'several')
            if kind in ('point-count', 'stop-index', 'history-arrays'):
                osig.update(grid=case.get('ggrid', case.get('grid', 'trap')), evalpts=bool(case.get('evalpts')))
            if kind == 'result-differs':
                osig.update(version=case.get('version'), reeval=bool(case.get('reeval')))
            chk.violation('oracle:driver', kind, osig, fcase, dict(why=detail))
        if not ok_numbers:
            chk.count('non-finite-stream')
            return
        mp = mres[jobs['probe']]
        mt = mres[jobs['test']]
        if sx.is_err(mp) or sx.is_err(mt) or isinstance(mp, tuple) or isinstance(mt, tuple):
            chk.violation('corr:C13/driver', 'model-rejects', sig, fcase, dict(model=str(mp)[:300] + str(mt)[:300]), failing_input=False)
            return
        # the model resolves the arguments (defaults!) itself: its limits must be the ones the harness' predicate used
        for i, (leg, ml) in enumerate(zip(history, mp[0])):
            if not LG.same_limits(ml, LG.resolve(leg, i == 0)):
                chk.violation('corr:C13/driver', 'limits-resolution-differs', sig, fcase, dict(call=i, model=str(ml), harness=str(LG.resolve(leg, i == 0))), failing_input=False)
                return
        rerun_differs = (case.get('reuse') == 'instance' and pstream[:1] != tstreams[0][:1])
        if rerun_differs:
            # a second performSpatiallyAdaptiv on the SAME dimension-wise instance may start from another grid than a fresh
            # instance (stale max_level_dict, only reset in refinement_postprocessing): not a statement of this property,
            # the run is then only compared with the model on its own stream and with the property predicate
            chk.count('rerun-on-same-instance-starts-from-different-state')
        cum_trace = []
        for i, leg in enumerate(legs):
            cum_trace = cum_trace + leg['events']
            got = dict(errs=[q(x) for x in leg['error_array']], surs=[q(x) for x in leg['surplus_error_array']],
                       pts=leg['num_point_array'], trace=cum_trace, refines=cum_trace.count(1), stopped=True)
            preds = [('own-stream', dec_state(mt[i]))]
            pp = mp[1][i]
            if case.get('evalpts') and i >= 1:
                # the interpolation at the evaluation points evaluates further points after the count of an evaluation is recorded: the
                # re-evaluation of a continuation records a larger count than the probe stream has at that position
                chk.count('evaluation_points: continuation not compared with the probe stream (own stream only)')
            elif not rerun_differs:
                preds.append(('probe-stream-prediction', dec_state(pp[1]) if len(pp) == 2 else None))
            stop_here = False
            for name, pred in preds:
                if pred is None:
                    # (cannot happen for generated histories of a deterministic run: every call is made to stop inside the probe
                    #  stream; if the implementation nevertheless went on, the property predicate above has reported it)
                    chk.count('history leaves the probe stream (prediction skipped from this call on)')
                    stop_here = True
                    break
                diff = [k for k in got if got[k] != pred[k]]
                if diff and pred is not None and name == 'probe-stream-prediction' and case.get('reeval') and i >= 1 and _approx_states(got, pred):
                    chk.count('probe-prediction-equal-up-to-rounding (reevaluate_at_end)')
                    diff = []
                if diff and name == 'probe-stream-prediction' and case.get('reeval') and i >= 1 and 'stop-index' not in okinds:
                    # evaluate_final_combi recomputes the result in another summation order: error values may differ in the last
                    # bits from the uninterrupted probe; if a limit sits on an observed value the decision is a rounding tie
                    chk.count('ambiguous: rounding tie after reevaluate_at_end (excluded from the probe prediction)')
                    stop_here = True
                    break
                if diff:
                    if okinds & {'stop-index', 'history-arrays', 'refine-after-stop', 'point-count'}:
                        chk.count('model/implementation difference already reported by the property predicate (concrete failing input)')
                    else:
                        chk.violation('corr:C13/driver', 'driver-differs', dict(sig, against=name), fcase,
                                      dict(call=i, differs=sorted(diff), model={k: str(pred[k])[:300] for k in diff} if pred else None,
                                           impl={k: str(got[k])[:300] for k in diff if k in got}, limits=str(LG.resolve(history[i], i == 0))),
                                      failing_input=False)
                    stop_here = True
                    break
            if stop_here:
                break
        # (2) distinct point counts from the raw evaluation log
        mc = mres[jobs['points']]
        if case.get('evalpts'):
            # the interpolation at the evaluation points evaluates further points between two evaluations: which evaluation's count
            # they belong to depends on where the driver takes the count (before or after the interpolation); the predicate
            # above accepts both, the batch-wise model count is not compared
            chk.count('evaluation_points: batch-wise distinct count of the model not compared')
        elif mc != legs[-1]['num_point_array'] and 'point-count' not in okinds:      # (reported by the property predicate otherwise)
            chk.violation('corr:C13/points', 'point-count-differs', sig, fcase,
                          dict(model=str(mc)[:300], impl=str(legs[-1]['num_point_array'])[:300]), failing_input='point-count' in okinds)
        if 'storage' in jobs:
            ms = mres[jobs['storage']]
            got = [[k, [q(x) for x in v]] for k, v in legs[-1]['storage']]
            if sx.is_err(ms) or isinstance(ms, tuple) or sorted([k, [sx.q(x) for x in v]] for k, v in ms) != got:
                chk.violation('corr:C13/storage', 'storage-differs', sig, fcase, dict(model=str(ms)[:300], impl=str(got)[:300]),
                              failing_input='history-arrays' in okinds)
            chk.count('solutions_storage compared with the model')
        if 'cache' in jobs:
            mk = mres[jobs['cache']]
            if sx.is_err(mk) or isinstance(mk, tuple) or not mk[0] or (mk[1] != legs[-1]['num_point_array'] and 'point-count' not in okinds):
                chk.violation('corr:C13/points-cache-model', 'point-count-differs', dict(sig, model='cache machine'), fcase,
                              dict(model=str(mk)[:300], impl=str(legs[-1]['num_point_array'])[:300]), failing_input=False)
            chk.count('point counts also through the cache machine of C12 (evaluations + restarts)')
        # (3) error estimate
        for k, j in enumerate(jobs.get('err', [])):
            me = mres[j]
            e = A.unfl(all_evals[k]['err'])
            if me[0] != 2 or not close(e, sx.q(me[1]), case.get('norm', 0)):
                chk.violation('corr:C13/error', 'error-estimate-differs', dict(sig, norm=case.get('norm', 0)), fcase,
                              dict(evaluation=k, model=str(me), impl=e, result=[A.unfl(x) for x in all_evals[k]['result']]),
                              failing_input='error-value' in okinds)
                break
        # (4) benefits of all objects at the stop
        if 'benefit' in jobs:
            mb = mres[jobs['benefit']]
            bs = [sx.q(x) for x in mb[0]]
            imp = [A.unfl(o[2]) for o in last['objs']]
            okb = all(abs(Fraction(i) - b) <= Fraction(EPS) * abs(b) for i, b in zip(imp, bs)) and len(imp) == len(bs)
            mx_ok = abs(Fraction(A.unfl(last['benefit_max'])) - sx.q(mb[1])) <= Fraction(EPS) * abs(sx.q(mb[1]))
            te_ok = abs(Fraction(A.unfl(last['total_error'])) - sx.q(mb[2])) <= Fraction(EPS) * 8 * abs(sx.q(mb[2]))
            if not (okb and mx_ok and te_ok):
                chk.violation('corr:C13/benefit', 'benefit-differs', sig, fcase,
                              dict(model=[float(b) for b in bs][:20], impl=imp[:20], max_ok=mx_ok, total_ok=te_ok), failing_input=False)
        chk.traces += 1
    return evaluate


def check_da(chk, case, r, mjobs):
    """DimAdaptiveCombi: the implementation must behave either like the base driver (property-conforming: entries
    recorded before the test, `<=`) or like the faithful model of the present code (dim_drive); in the latter case the
    property predicate below reports the deviations (known findings)."""
    limits = r['limits']
    probe, test = r['probe'], r['test']
    # the probe's own history may or may not contain the final evaluation: rebuild the full stream
    n_probe = probe['trace'].count(0)
    perrs = (probe['errors'] + [probe['final_err']])[:n_probe] if len(probe['errors']) < n_probe else probe['errors']
    ppts = (probe['num_points'] + [probe['total_points']])[:n_probe] if len(probe['num_points']) < n_probe else probe['num_points']
    stream = [(e, e, p) for e, p in zip(perrs, ppts)]
    j = len(mjobs)
    mjobs.append((1, enc_call(limits, stream)))
    mjobs.append((0, [enc_call([limits[0], 0, limits[2]], stream)]))

    def evaluate(mres):
        sig = sig_of(case)
        fcase = dict(case, limits=[A.unfl(limits[0]), None, limits[2]])
        got = dict(errs=[q(x) for x in test['errors']], pts=test['num_points'], trace=test['trace'], stopped=True)
        m_asis = dec_state(mres[j])
        m_conf = dec_state(mres[j + 1][0])
        conforming = all(got[k] == m_conf[k] for k in got)
        diff = [k for k in got if got[k] != m_asis[k]]
        n_eval = test['trace'].count(0)
        tol = A.unfl(limits[0])
        errs = [A.unfl(x) for x in perrs]
        # property: stop at the first evaluation with error <= tol or points > max; one history entry per evaluation
        first = next((k for k in range(len(errs)) if errs[k] <= tol or (limits[2] is not None and ppts[k] > limits[2])), None)
        if diff and not conforming:
            chk.violation('corr:C13/dimadaptive', 'dimadaptive-differs', dict(sig, observable=','.join(sorted(diff))), fcase,
                          dict(model={k: str(m_asis[k])[:300] for k in diff}, impl={k: str(got[k])[:300] for k in diff}), failing_input=False)
        chk.count('dimadaptive-conforming' if conforming else 'dimadaptive-as-is')
        if len(test['errors']) != n_eval or len(test['num_points']) != n_eval:
            chk.violation('oracle:driver', 'history-misses-final-evaluation', sig, fcase,
                          dict(why='%d evaluations, %d entries in errors, %d in num_points' % (n_eval, len(test['errors']), len(test['num_points']))))
        if first is not None and n_eval != first + 1:
            strict = next((k for k in range(len(errs)) if errs[k] < tol or (limits[2] is not None and ppts[k] > limits[2])), None)
            kind = 'strict-tolerance' if strict is not None and n_eval == strict + 1 and errs[first] == tol else 'stop-index'
            chk.violation('oracle:driver', kind, sig, fcase,
                          dict(why='rule first satisfied at evaluation %d (error %r, tolerance %r, points %d, max %s), run performed %d evaluations'
                                   % (first, errs[first], tol, ppts[first], limits[2], n_eval)))
        if test['total_points'] != test['distinct']:
            chk.violation('oracle:driver', 'point-count', sig, fcase, dict(why='reported %d, distinct %d' % (test['total_points'], test['distinct'])))
        chk.traces += 1
    return evaluate


def check_std(chk, case, r, mjobs):
    jp = len(mjobs); mjobs.append((5, [r['batch']]))
    je = None
    if case['ref'] is not None:
        je = len(mjobs); mjobs.append((3, [case.get('norm', 0), [sx.rat(x) for x in case['ref']], [q(x) for x in r['result']]]))

    def evaluate(mres):
        sig = sig_of(case)
        if mres[jp] != [r['total_points']] or r['total_points'] != r['distinct']:
            chk.violation('corr:C13/points', 'point-count-differs', sig, case, dict(model=str(mres[jp]), impl=r['total_points'], distinct=r['distinct']),
                          failing_input=r['total_points'] != r['distinct'])
        if je is not None:
            if not close(A.unfl(r['error']), sx.q(mres[je]), case.get('norm', 0)):
                chk.violation('corr:C13/error', 'error-estimate-differs', dict(sig, norm=case.get('norm', 0)), case,
                              dict(model=str(mres[je]), impl=A.unfl(r['error'])), failing_input=False)
        elif r['error'] is not None:
            chk.violation('oracle:driver', 'error-value', sig, case, dict(why='error reported without reference'))
        chk.traces += 1
    return evaluate


def run(chk):
    gen_info = _c13_gen.regenerate(chk)      # source-derived driver loop: regenerated BEFORE the obligations are rebuilt
    chk.coq_obligations(extra_props=tuple(_c13_gen.EXTRA_PROPS) + ('C13gendw',))
    gen_problem = _c13_gen.diagnose(chk, gen_info)
    n = chk.n(300, 4000)
    cases = CORPUS + [gen_case(chk.rng, chk.quick) for _ in range(n)]
    impl = run_impl(impl_run, cases, limit=150)
    mjobs, todo = [], []
    keys, samples, slow = [], [], []
    for c, (st, r) in zip(cases, impl):
        chk.count('strat=' + c['strat']); chk.count('dim=%d' % len(c['a'])); chk.count('norm=%d' % c.get('norm', 0)); chk.count('reuse=%s' % c.get('reuse'))
        chk.count('ref=' + ('none' if c['ref'] is None else 'zero' if all(x == 0 for x in c['ref']) else 'given'))
        if st != 'ok':
            where = r[1] if r else ''
            if st == 'exc' and r[0] == 'RuntimeError' and 'refinement selection does not terminate' in r[2]:
                chk.count('dimadaptive-selection-hang (all surpluses zero; outside this property)')
                continue
            if st == 'exc' and r[0] == 'RuntimeError' and 'harness budget exceeded' in r[2]:
                chk.count('skipped: harness evaluation budget exceeded (%s, d=%d, probe_max=%s, grid=%s)' % (c['strat'], len(c['a']), c.get('probe_max'), c.get('grid', c.get('ggrid'))))
                continue
            if st == 'exc' and 'spatiallyAdaptiveBase.py' not in where and 'GridOperation.py:32' not in where:
                chk.count('library-exception-outside-driver:%s@%s' % (r[0], where))      # estimator crashes etc.: not this property
                continue
            chk.violation('corr:C13/driver', 'impl-exception', dict(sig_of(c), exc=r[0] if r else st), c, dict(impl=str(r)))
            continue
        if c['strat'] in ('dw', 'es', 'cell'):
            todo.append(check_adaptive(chk, c, r, mjobs))
            hist = r['history']
            legs = r['test']['legs']
            nev = sum(len(l['evals']) for l in legs)
            chk.count('evaluations=%s' % (nev if nev < 6 else '6+'))
            chk.count('calls-in-history=%d' % len(hist))
            for k in ('version', 'rebalancing', 'nrbe', 'auto', 'grid', 'ggrid', 'modified_basis', 'reeval', 'recalc', 'recalc_every', 'storage', 'evalpts',
                      'test_scheme', 'single_dim', 'no_initial_splitting', 'chebyshev', 'op', 'margin'):
                if k in c:
                    chk.count('%s:%s=%s' % (c['strat'], k, c[k] if not isinstance(c[k], list) else c[k][0]))
            chk.count('nout=%s' % (len(c['comps']) if len(c['comps']) < 4 else '17..130')); chk.count('lmax=%d' % c['lmax'])
            if c.get('recalc'):
                nre = legs[-1].get('restarts', 0)
                chk.count('recalculate_frequently (threshold %s): %s restart(s) happened' % (c.get('recalc_every', 'default 100'), nre if nre < 4 else '4+'))
                chk.count('restarts of recalculate_frequently (total)', nre)
                pre = r['probe'].get('restarts', 0)
                chk.count('recalculate_frequently (threshold %s): probe run had %s restart(s)' % (c.get('recalc_every', 'default 100'), pre if pre < 4 else '4+'))
            zero_ev = sum(1 for l in legs for e in l['evals'][-1:] for o in e['objs'] if A.unfl(o[1]) == 0)
            chk.count('set_benefit: objects with 0 evaluations at a stop: %s' % ('some' if zero_ev else 'none'))
            if c.get('volume_weighting'):
                chk.count('volume weights gate |value| > 1e-10: %s' % ('below (tiny values)' if LG.magnitude(c) < 1e-10 else 'above'))
            sc = c.get('scales') or [0]
            chk.count('integrand scale 2^k: %s' % ('k=0' if set(sc) == {0} else 'mixed over components' if len(set(sc)) > 1 else 'k=%d' % sc[0]))
            if c['ref'] is not None and any(x != 0 for x in c['ref']):
                mx = max(abs(x) for x in c['ref'])
                chk.count('non-zero reference, largest component %s' % ('<= 1e-8 (tiny)' if mx <= 1e-8 else '< 1e-3' if mx < 1e-3 else '<= 1e3' if mx <= 1e3 else '> 1e3'))
            slow.append((round(r.get('secs', 0), 1), c['strat'], str(c.get('grid', c.get('ggrid'))), len(c['a']), c['probe_max'], len(hist)))
            chk.count('probe-points=%s' % ('<100' if r['probe']['num_point_array'][-1] < 100 else '<400' if r['probe']['num_point_array'][-1] < 400 else '<1100' if r['probe']['num_point_array'][-1] < 1100 else '1100+'))
            prev = None
            for i, (leg, rec) in enumerate(zip(hist, legs)):
                lim = LG.resolve(leg, i == 0)
                chk.count('leg-arguments ' + LG.leg_key(leg)); chk.count('leg-call-style=%s' % leg.get('style', 'keywords'))
                chk.count('leg-tol=%s' % ('negative' if lim[0] < 0 else 'zero-int' if lim[0] == 0 and isinstance(lim[0], int) else 'zero-float' if lim[0] == 0 else 'positive'))
                e0 = rec['evals'][0]
                first_met = LG.py_stop(lim, A.unfl(e0['err']), e0['distinct'])
                chk.count('leg %s: %s' % ('first' if i == 0 else 'continuation', 'limits met at its first evaluation' if first_met else 'refines %d time(s)' % min(3, rec['events'].count(1)) + ('+' if rec['events'].count(1) > 3 else '')))
                laste = rec['evals'][-1]
                by_tol = A.unfl(laste['err']) <= lim[0] and laste['distinct'] >= lim[1]
                by_max = lim[2] is not None and laste['distinct'] > lim[2]
                chk.count('leg stopped by %s' % ('tolerance+maximum' if by_tol and by_max else 'tolerance' if by_tol else 'maximum' if by_max else 'NOTHING'))
                if prev is not None:
                    rel = 'equal' if lim[0] == prev[0] else 'tighter' if lim[0] < prev[0] else 'looser'
                    chk.count('continuation tolerance vs previous call: %s' % rel)
                    if lim[0] == 0 and prev[0] > 0 and prev_by_tol:
                        chk.count('continuation with tol=0 after a tolerance stop' + (' (goes on)' if rec['events'].count(1) else ' (stops at once)'))
                    chk.count('continuation max vs previous call: %s' % ('equal' if lim[2] == prev[2] else 'none' if lim[2] is None else 'larger' if prev[2] is not None and lim[2] > prev[2] else 'smaller-or-first'))
                prev, prev_by_tol = lim, by_tol
            if nev >= 2:
                keys.append((c['strat'], str(c['comps']), json.dumps(hist, sort_keys=True), str(c.get('errcalc')), c.get('version'), c['lmax']))
            if len(samples) < 3 and nev >= 3 and len(hist) >= 2:
                samples.append(dict(strat=c['strat'], history=hist, errors=[A.unfl(x) for x in legs[-1]['error_array']],
                                    points=legs[-1]['num_point_array'], trace_per_call=[l['events'] for l in legs]))
        elif c['strat'] == 'da':
            todo.append(check_da(chk, c, r, mjobs))
            if r['test']['trace'].count(0) >= 2:
                keys.append(('da', str(c['comps']), str(r['limits'])))
        else:
            todo.append(check_std(chk, c, r, mjobs))
    chk.extra['slowest_cases'] = sorted(slow, reverse=True)[:8]
    mres = run_model(13, mjobs)
    for ev in todo:
        ev(mres)
    _c13_gen.finish(chk, gen_info, gen_problem)     # broken source-derived obligation and no concrete failing input found above
    chk.record_cases(len(cases), keys,
                     'probe run + test HISTORY (performSpatiallyAdaptiv followed by 0-3 continue_adaptive_refinement calls on the same object, limits '
                     'drawn independently per call: on observed errors / point counts, 0, tighter / looser / equal, arguments left implicit) of '
                     'dimension-wise / extend-split, probe/test pairs of DimAdaptiveCombi / StandardCombi (d 2..3, lmin 1, lmax 2..4, vector polynomial '
                     'integrands, reference exact/shifted/zero/none, norms inf/1/2, library and scripted error calculators, constructor and '
                     'performSpatiallyAdaptiv options); non-trivial = the test history performed at least two evaluations; '
                     'distinct by (strategy, integrand, history, options)', samples)


def replay(chk, rep):
    c = rep['case']
    st, r = run_impl(impl_run, [c], limit=600)[0]
    print('impl:', st, str(r)[:3000])
    if st != 'ok':
        return 1
    mjobs = []
    fn = {'dw': check_adaptive, 'es': check_adaptive, 'cell': check_adaptive, 'da': check_da, 'std': check_std}[c['strat']]
    ev = fn(chk, c, r, mjobs)
    mres = run_model(13, mjobs)
    print('model:', str(mres)[:3000])
    ev(mres)
    for v in chk.violations:
        print('property predicate / correspondence:', v['check'], v['kind'], v['detail'])
    print('verdict:', 'VIOLATED' if chk.violations else 'holds')
    return 1 if chk.violations else 0
