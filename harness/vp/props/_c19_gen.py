"""C19: source-derived model of the classification logic of class Classification (DESIGN.md 0.5 scheme).
coq/Gen/ClassifyGen.v is regenerated from the working tree ($VERIF_REPO) by harness/translate/py2gallina_c19.py (own small front end in
the pattern of py2gallina_c18.py) under the build lock, before the proof obligations are (re)built; Props/C19gen.v holds the equivalence
theorems (generated = classificate / classify_learned / internal_scaling_o true of the hand-written model) and their consequences."""
import fcntl
import hashlib
import os
import re
import subprocess
import sys
from ..core import ROOT, COQ
from .. import gen

TRANSLATOR = os.path.join(ROOT, 'harness', 'translate', 'py2gallina_c19.py')
GEN_FILE = 'ClassifyGen.v'
GEN_CHAIN = ['Gen/ClassifyGen.v', 'Proofs/GenClassifyEq.v', 'Props/C19gen.v']
EXTRA_PROPS = ('C19gen',)
ASSUMPTION = (
    'source-derived model of the classification logic (py2gallina_c19.py): Python `ast` and the translation scheme are trusted; Classification._classificate '
    'and Classification._internal_scaling are translated statement by statement (source of the label table np.array(self._learning_data.get_labels()), '
    'result = table indexed by the row-wise arg-max; branch on is_scaled(), acceptance `not same_scaling or not _same_affine_scaling` of self._scaled_data, '
    'the three shift/scale calls with their arguments and order, the out-of-range comprehension with its float literals read as exact binary64 values, '
    'remove_samples, the returned object); the numpy / DataSet primitives are PARAMETERS of the generated Section, accepted only in their exact source forms '
    'and instantiated by hand with Model/DataSet.v / Model/DataSetOff.v; logging and the _densities_testset bookkeeping are skipped; anything else is rejected')


def regenerate(chk):
    with open(os.path.join(ROOT, '.buildlock'), 'w') as lk:
        fcntl.flock(lk, fcntl.LOCK_EX)
        p = subprocess.run([sys.executable, TRANSLATOR], capture_output=True, text=True)
    msg = '\n'.join(l for l in p.stderr.splitlines() if 'conda' not in l).strip()
    chk.checker_cmds.append('/venv/bin/python harness/translate/py2gallina_c19.py  (regenerates coq/Gen/%s from sparseSpACE/DEMachineLearning.py)' % GEN_FILE)
    info = dict(rc=p.returncode, message=msg, target='classify')
    try:
        src = open(os.path.join(COQ, 'Gen', GEN_FILE)).read()
        info['generated_sha256'] = hashlib.sha256(src.encode()).hexdigest()
        info['translated'] = re.findall(r'^\(\* (\S+:\d+-\d+)  (\S+) \*\)$', src, re.M)
    except OSError:
        pass
    chk.extra['source_derived_model'] = info
    return info


def diagnose(chk, info):
    """after coq_obligations: None when the generated model is in place and proved equivalent, else the reason"""
    problem = gen.gen_diagnosis(chk, info, GEN_CHAIN)
    gen.report(chk, info, problem, 'C19_gen_*')
    return problem


def finish(chk, info, problem):
    gen.finish_gen(chk, info, problem)
