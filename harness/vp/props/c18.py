"""C18: DataSet transformations preserve the labelled samples.

Correspondence: random operation sequences on a store of DataSet objects (sparseSpACE/DEMachineLearning.py) against the
extracted Coq model (coq/Model/DataSet.v through coq/Entry/C18.v), plus the property's own predicates (oracle) evaluated
on the implementation alone after every operation."""
import random
from fractions import Fraction
from .. import sx
from ..impl import run_impl
from ..model import run_model
from . import _c18_gen

ASSUMPTIONS = [
    _c18_gen.ASSUMPTION,
    'the model is the repaired code (variant [1,1,1,1]: remove_samples de-duplication, same_scaling full comparison, accumulated offset, concatenate '
    'comparing the accumulated maps); the implementation is probed for the four repairs and a missing one is reported as repair-regressed',
    'remove_labels: the rnd.sample index list is read off the implementation (labels that became -1) and validated by the model; '
    'split_one_vs_others: the CPython set order of the labels is read off the implementation and validated by the model; its result sets (rational labels) '
    'are compared with the model but not kept in the store; calls on float-dtype label arrays (list-index TypeError) are judged by the predicates only',
    'non-integer labels (only produced by split_one_vs_others) and labels < -1 (rejected by the constructor) are outside the envelope',
    'object identity: the model is a function of values; every ndarray handed to a constructor or an operation is compared with a snapshot after '
    'every operation (argument-mutated) and all live data sets are re-snapshotted after every operation (operation-changes-other-dataset); '
    'float32 constructor arrays are only driven through operations that are exact in single precision (no scale_range)',
    'floats modelled as exact rationals; implementation values are compared exactly and, where float rounding occurred, '
    'within 1e-9*(1+|v|) (counted as "rounded" in the histogram)',
    'value-semantics model: numpy array sharing between derived data sets is not modelled; the harness detects an '
    'operation on one data set changing another one (oracle "non-interference") and re-synchronises the model',
    'the shuffle permutation and the iteration order of the Python set in move_boundaries_to_front are read off the '
    'implementation; split_labels results are compared in ascending label order',
    'cases with near-ties (relative gap < 1e-9, not exact) in a column are cut before scale_range/move_boundaries_to_front',
    'zero scaling factors, 1-element array arguments for d>1 and percentages whose product with the length lies within 1e-6 of '
    'a half-integer are outside the generated envelope',
]

TOL = Fraction(1, 10 ** 9)
PINNED_VARIANT = (1, 1, 1, 1)
OPN = {'scale_range': 1, 'scale_factor': 2, 'shift_value': 3, 'revert': 4, 'shuffle': 5, 'mbf': 6, 'split_labels': 7,
       'split_pieces': 8, 'split_without_labels': 9, 'remove_samples': 10, 'concatenate': 11, 'same_scaling': 12, 'copy': 14,
       'remove_labels': 15, 'getters': 16}
MUTATING = ('scale_range', 'scale_factor', 'shift_value', 'revert', 'shuffle', 'mbf', 'remove_samples', 'remove_labels')
OPKINDS = ['scale_range', 'scale_factor', 'shift_value', 'revert', 'shuffle', 'mbf', 'split_labels', 'split_pieces',
           'split_without_labels', 'remove_samples', 'concatenate', 'same_scaling', 'copy', 'remove_labels', 'getters', 'one_vs_others']
OPWEIGHTS = [14, 9, 9, 11, 6, 8, 6, 10, 6, 10, 10, 4, 4, 4, 4, 2]
# label pools: contiguous, with unlabelled samples, non-contiguous / unsorted / CPython-set-order-sensitive, large
LABEL_POOLS = {'unlabelled': [-1], 'one': [0], '0..k': [0, 1, 2, 3], 'mixed': [-1, 0, 0, 1, 1, 2, 3], 'noncontig': [5, 17, 9],
               'setorder': [8, 0, 1], 'gap': [3, 10, -1], 'large': [1000000, 7, 123456789012], 'twoclass': [2, 9]}
BIG_SIZES = [63, 64, 65, 128, 129, 200, 201, 257, 1023, 1024, 1025, 1100, 2049]

RANGES = [(0, 1), (0, 1), (-1, 1), (0.005, 0.995), (0, 2), (0.25, 0.75), (-2, 6), (0.5, 1.5), (-1.0, 0.0)]
BAD_RANGES = [(1, 1), (2, 0), (0.5, 0.25)]
FACTORS = [2.0, 0.5, -2.0, -1.0, 4.0, 0.25, 3.0, -0.5, 1.5, 1.0, 8.0]
SHIFTS = [1.0, -1.0, 0.5, 0.125, -3.0, 0.005, 0.0, 2.0, -0.25]
PERCENT = [0.0, 0.125, 0.25, 0.375, 0.5, 0.5, 0.625, 0.75, 0.875, 1.0, 1.5, -0.25, 0.8, 0.3, 0.1, 0.9]


# --------------------------------------------------------------------------------------------- generation
def gen_case(rng, tier):
    return dict(seed=rng.randrange(1 << 30), nops=rng.choice([3, 6, 9, 12, 15, 15]), kind='random')


def gen_big_case(rng, tier):
    """few operations on sets with sizes beyond typical block sizes (64, 128, 200, 256, 1024, 2048)"""
    return dict(seed=rng.randrange(1 << 30), nops=rng.choice([4, 6, 8]), kind='big', big=rng.choice(BIG_SIZES))


def big_ops(rng, inits):
    """scripted history on the big first data set: every scaling method in its non-overriding branch, the in-place and the
    rebuilding sample-moving operations, removal of samples beyond the block sizes, revert of the set and of a piece"""
    n, d = len(inits[0][0]), len(inits[0][0][0])
    cnt = len(inits)
    arr = lambda pool: [rng.choice(pool) for _ in range(d)]
    first = rng.choice([['scale_range', 0] + list(rng.choice(RANGES)) + [0], ['scale_factor', 0, rng.choice([2.0, 0.5, -2.0, 4.0]), 0],
                        ['shift_value', 0, rng.choice(SHIFTS), 0], ['scale_factor', 0, arr([2.0, 0.5, -4.0]), 0]])
    ops = [first]
    pool = [['scale_factor', 0, rng.choice([2.0, 0.5, -2.0, 0.25]), 0], ['scale_factor', 0, arr([2.0, 0.5, -2.0]), 0],
            ['shift_value', 0, rng.choice(SHIFTS), 0], ['shift_value', 0, arr(SHIFTS), 0],
            ['scale_range', 0] + list(rng.choice(RANGES)) + [0], ['scale_range', 0] + list(rng.choice(RANGES)) + [1],
            ['mbf', 0], ['getters', 0], ['copy', 0], ['remove_labels', 0, rng.choice([0.25, 0.5, 1.0])],
            ['remove_samples', 0, sorted(set([n - 1, n // 2, rng.randrange(n), 0]))[:rng.choice([2, 3, 4])]],
            ['split_pieces', 0, rng.choice([0.5, 0.25, 0.75, 0.8, 0.9])], ['split_without_labels', 0]]
    if n <= 300:
        pool.append(['shuffle', 0])
    rng.shuffle(pool)
    for op in pool[:rng.choice([6, 7, 8])]:
        if op[0] == 'remove_samples':
            op[2] = [i for i in op[2] if i < n]
            n -= len(set(op[2]))
            ops.append(op)
            cnt += 1
        elif op[0] == 'split_pieces':
            fr = (Fraction(n) * Fraction(op[2])) % 1
            if abs(fr - Fraction(1, 2)) < Fraction(1, 10 ** 6) and Fraction(op[2]).denominator > 64:
                op[2] = 0.75            # float product n*p rounds onto a half-integer: outside the exact model (see ASSUMPTIONS)
            ops.append(op)
            ops.append(['getters', cnt + 1])
            ops.append(['revert', cnt + rng.choice([0, 1])])
            cnt += 2
        elif op[0] == 'split_without_labels':
            ops.append(op)
            cnt += 2
        elif op[0] == 'copy':
            ops.append(op)
            ops.append(['scale_factor', cnt, 2.0, 0])
            cnt += 1
        else:
            ops.append(op)
    ops += [['getters', 0], ['revert', 0]]
    if rng.random() < 0.6:
        ops.append(['split_labels', 0])
    if rng.random() < 0.6:
        ops.append(['concatenate', 0, 0])
    return ops


def gen_shared_case(rng, tier):
    """several DataSets built from ONE ndarray object / from views of one parent array; operations interleaved on them"""
    return dict(seed=rng.randrange(1 << 30), nops=rng.choice([4, 6, 9, 12]), kind='shared', shared=1)


def gen_shared_inits(rng):
    """initial sets [X, y, spec] whose spec['share'] says from which parent array (values, dtype, memory order) and through which
    row/column selection the constructor argument is taken; the label array is its own object or the one of an earlier set"""
    dtype = rng.choice(['float64', 'float64', 'float64', 'float32', 'int64'])
    order = rng.choice(['C', 'C', 'F'])
    d = rng.choice([1, 2, 2, 3])
    D = d + rng.choice([0, 0, 1, 2])                       # parent columns (a column slice is a non-contiguous view)
    N = rng.randrange(6, 33)
    step = 1.0 if dtype == 'int64' else 8.0
    cols = []
    for j in range(D):
        r = rng.random()
        pool = [rng.randrange(-16, 17) / step] if r < 0.1 else [rng.randrange(-16, 17) / step for _ in range(rng.randrange(2, 5))] if r < 0.5 \
            else [k / step for k in range(-32, 33)]
        cols.append([rng.choice(pool) for _ in range(N)])
    P = [[cols[j][i] for j in range(D)] for i in range(N)]
    lk = rng.choice(['0..k', 'mixed', 'noncontig', 'unlabelled'])
    pool = LABEL_POOLS[lk]
    inits = []
    nsets = rng.choice([2, 2, 3, 4])
    c0 = rng.randrange(0, D - d + 1)
    for si in range(nsets):
        mode = rng.choice(['same', 'same', 'rows', 'rows', 'step', 'overlap']) if si else 'same'
        if mode == 'same':
            a, b, st = 0, N, 1
        elif mode == 'step':
            a, b, st = rng.randrange(0, 2), N, 2
        else:
            a = rng.randrange(0, N - 2)
            b = rng.randrange(a + 2, N + 1)
            st = 1
        rows = list(range(a, b, st))
        X = [[float(P[i][c0 + j]) for j in range(d)] for i in rows]
        lab = 'own'
        same_len = [k for k, it in enumerate(inits) if len(it[0]) == len(X)]
        if same_len and rng.random() < 0.35:
            lab = same_len[0]
            y = list(inits[lab][1])
        else:
            y = [rng.choice(pool) for _ in rows]
        share = dict(dtype=dtype, order=order, rows=[a, b, st], cols=[c0, c0 + d], lab=lab, mode=mode)
        if si == 0:
            share['parent'] = P
        inits.append([X, y, dict(ctor='shared', labels=lk, values='int' if dtype == 'int64' else 'lattice', share=share)])
    return inits


def size_bucket(n):
    return '0' if n == 0 else '1' if n == 1 else '2-12' if n <= 12 else '13-40' if n <= 40 else '41-300' if n <= 300 else '>1000' if n > 1000 else '301-1000'


def gen_inits(rng, big=None):
    """initial data sets: [X, y, spec]; spec = dict(ctor=..., labels=..., values=...) describes how the DataSet object is constructed"""
    nsets = rng.choice([1, 1, 2, 2, 3])
    d0 = rng.choice([1, 2, 2, 3, 4]) if rng.random() < 0.93 else rng.choice([5, 6, 8])
    if big:
        d0 = min(d0, 3)
    inits = []
    for si in range(nsets):
        d = d0 if rng.random() < 0.9 else rng.choice([1, 2, 3, 4])
        r = rng.random()
        n = 0 if r < 0.05 else 1 if r < 0.12 else rng.randrange(2, 13) if r < 0.70 else rng.randrange(13, 41) if r < 0.93 else rng.randrange(41, 131)
        if big and si == 0:
            n = big
        if n == 0:
            inits.append([[], [], dict(ctor='tuple', labels='none', values='none')])
            continue
        # value lattice: k/8 in [-4, 4], optionally integer-valued, scaled by a power of two and moved away from the origin
        vkind = rng.choices(['lattice', 'int', 'scaled', 'far', 'negative'], [55, 12, 13, 10, 10])[0]
        mul, add, step = 1.0, 0.0, 8.0
        if vkind == 'int':
            step = 1.0
        elif vkind == 'scaled':
            mul = 2.0 ** rng.choice([-3, -2, 3, 6, 10])
        elif vkind == 'far':
            add = rng.choice([100.0, -100.0, 1000.0, 4096.0])
        elif vkind == 'negative':
            add = -8.0
        cols = []
        for j in range(d):
            r = rng.random()
            if r < 0.12:
                pool = [rng.randrange(-16, 17) / step]                      # constant column
            elif r < 0.55:
                pool = [rng.randrange(-16, 17) / step for _ in range(rng.randrange(2, 5))]   # many ties
            else:
                pool = [k / step for k in range(-32, 33)]
            cols.append([rng.choice(pool) * mul + add for _ in range(n)])
        X = [[cols[j][i] for j in range(d)] for i in range(n)]
        lk = rng.choices(list(LABEL_POOLS), [8, 5, 22, 30, 10, 8, 7, 5, 5])[0]
        pool = LABEL_POOLS[lk]
        if lk == '0..k':
            pool = pool[:rng.choice([2, 3, 4])]
        y = [rng.choice(pool) for _ in range(n)]
        ctors = ['tuple', 'tuple', 'tuple', 'floatlabels']
        if all(l == -1 for l in y):
            ctors += ['ndarray', 'ndarray', 'ndarray']
        if d == 1:
            ctors += ['flat1d', 'flat1d']
        if vkind == 'int':
            ctors += ['intsamples', 'intsamples', 'intsamples']
        inits.append([X, y, dict(ctor=rng.choice(ctors), labels=lk, values=vkind)])
    return inits


FACTORS_EXACT = [2.0, 0.5, -2.0, -1.0, 4.0, 0.25, 1.0, 8.0]
SHIFTS_EXACT = [1.0, -1.0, 0.5, 0.125, -3.0, 0.0, 2.0, -0.25]


def choose_op(rng, info, last=None, exact=False):
    """info: list of (n, d, scaled) per live handle; last: the previous operation (histories on ONE object: the next operation goes to the
    same or to a freshly derived data set with a good share, and sometimes repeats the previous call verbatim)."""
    live = list(range(len(info)))
    nonempty = [h for h in live if info[h][0] > 0]
    if last is not None and rng.random() < 0.07 and last[0] in ('scale_range', 'scale_factor', 'shift_value', 'mbf', 'remove_samples', 'split_pieces', 'getters'):
        return list(last)                                       # verbatim repetition on the same object
    for _ in range(20):
        r = rng.random()
        if last is not None and r < 0.30 and last[1] < len(info):
            h = last[1]                                         # same object again
        elif last is not None and r < 0.45 and last[0] in ('split_labels', 'split_pieces', 'split_without_labels', 'remove_samples', 'concatenate', 'copy'):
            h = len(info) - 1 - rng.randrange(min(2, len(info)))    # a data set derived by the previous call
        else:
            h = rng.choice(nonempty) if nonempty and rng.random() < 0.88 else rng.choice(live)
        n, d, scaled = info[h]
        k = rng.choices(OPKINDS, OPWEIGHTS)[0]
        if k in ('split_labels', 'split_pieces', 'split_without_labels', 'copy') and len(info) > 11:
            continue
        if k in ('split_labels', 'one_vs_others', 'shuffle') and n > 300 and rng.random() < 0.7:
            continue
        if k == 'revert' and not scaled and rng.random() < 0.85:
            continue
        if exact and k == 'scale_range':
            continue                                            # float32 samples: only operations that are exact in single precision
        if k == 'scale_range':
            lo, hi = rng.choice(BAD_RANGES) if rng.random() < 0.04 else rng.choice(RANGES)
            return [k, h, lo, hi, int(rng.random() < 0.25)]
        if k in ('scale_factor', 'shift_value'):
            pool = (FACTORS_EXACT if exact else FACTORS) if k == 'scale_factor' else (SHIFTS_EXACT if exact else SHIFTS)
            ov = int(rng.random() < 0.2)
            if rng.random() < 0.3 and d >= 1:
                ln = d
                if scaled and not ov and rng.random() < 0.15:
                    ln = d + rng.choice([1, 2])          # explicit ValueError branch
                a = [rng.choice(pool) for _ in range(ln)]
            else:
                a = rng.choice(pool)
            return [k, h, a, ov]
        if k in ('split_pieces', 'remove_labels'):
            p = rng.choice(PERCENT)
            fr = (Fraction(n) * Fraction(p)) % 1
            if abs(fr - Fraction(1, 2)) < Fraction(1, 10 ** 6) and Fraction(p).denominator > 64:
                p = 0.5
            if k == 'remove_labels' and Fraction(p).denominator > 64:
                p = rng.choice([0.0, 0.25, 0.5, 0.75, 1.0, 1.5])     # the labelled count is not known here: dyadic percentages only
            return [k, h, p]
        if k == 'remove_samples':
            r = rng.random()
            if r < 0.09 or n == 0 and r < 0.5:
                idx = []
            elif r < 0.24:
                idx = [rng.randrange(0, max(n, 1)) for _ in range(rng.randrange(0, 3))] + [rng.choice([n, n + 1, -1, n + 5])]
                rng.shuffle(idx)
            elif r < 0.31 and n >= 1:
                i = rng.randrange(n)
                idx = [i, i] + [rng.randrange(n) for _ in range(rng.randrange(0, 2))]
            elif r < 0.40 and n >= 2:
                idx = [n - 1] + ([0] if rng.random() < 0.5 else [])          # the last sample (stale-length bugs)
            elif r < 0.46 and n >= 3:
                idx = rng.sample(range(n), n - 1 if rng.random() < 0.5 else n)   # (almost) everything
                if n > 60:
                    idx = idx[:40]
            else:
                idx = rng.sample(range(n), min(n, rng.randrange(1, 4))) if n else [0]
            return [k, h, idx]
        if k in ('concatenate', 'same_scaling'):
            return [k, h, rng.choice(live)]
        return [k, h]
    return ['same_scaling', 0, 0]


# --------------------------------------------------------------------------------------------- implementation side
def _flt(x):
    return float(x)


def snap(d):
    """Canonical observable state of a DataSet through its public getters (floats stay floats)."""
    from typing import Iterable
    X, y = d.get_data()
    vals = [[_flt(v) for v in r] for r in X] if getattr(X, 'ndim', 0) == 2 else [[_flt(v)] for v in X]
    labs = [int(l) if float(l) == int(l) else _flt(l) for l in y]
    rg = d.get_scaling_range()
    if rg is None:
        r = []
    elif isinstance(rg[0], Iterable):
        r = [1, [_flt(v) for v in rg[0]], [_flt(v) for v in rg[1]]]
    else:
        r = [0, _flt(rg[0]), _flt(rg[1])]
    fc = d.get_scaling_factor()
    f = [] if fc is None else [1, [_flt(v) for v in fc]] if isinstance(fc, Iterable) else [0, _flt(fc)]
    mn, mx = d.get_original_min(), d.get_original_max()
    return [vals, labs, int(d.get_dim()), int(getattr(X, 'ndim', 2) == 1), int(bool(d.is_shuffled())), int(bool(d.is_scaled())), r, f,
            [] if mn is None else [[_flt(v) for v in mn]], [] if mx is None else [[_flt(v) for v in mx]]]


def snapo(d):
    """snap(d) followed by the accumulated scaling offset (get_scaling_offset(), present once fixes/C18-revert-accumulated-offset is applied)"""
    from typing import Iterable
    g = getattr(d, 'get_scaling_offset', None)
    off = g() if g is not None else None
    o = [] if off is None else [1, [_flt(v) for v in off]] if isinstance(off, Iterable) else [0, _flt(off)]
    return snap(d) + [o]


def build(spec_init):
    """construct the DataSet of an initial-set description [X, y(, spec)] in the way its spec says"""
    import numpy as np
    from sparseSpACE.DEMachineLearning import DataSet
    X, y = spec_init[0], spec_init[1]
    ctor = (spec_init[2] if len(spec_init) > 2 else {}).get('ctor', 'tuple')
    if len(X) == 0:
        return DataSet((np.array([]), np.array([], dtype=np.int64)))
    A = np.array(X, dtype=np.float64).reshape(len(X), len(X[0]))
    L = np.array(y, dtype=np.int64)
    if ctor == 'ndarray':
        return DataSet(A)                                   # samples only: all labels -1
    if ctor == 'flat1d':
        return DataSet((A.reshape(len(X)), L))              # 1-dimensional samples given as a vector
    if ctor == 'intsamples':
        return DataSet((A.astype(np.int64), L))
    if ctor == 'floatlabels':
        return DataSet((A, L.astype(np.float64)))
    return DataSet((A, L))


def build_all(inits):
    """DataSets of all initial-set descriptions + the list of every ndarray object handed to a constructor (name, array)"""
    import numpy as np
    from sparseSpACE.DEMachineLearning import DataSet
    H, args, parent, labs = [], [], None, []
    for k, it in enumerate(inits):
        X, y = it[0], it[1]
        spec = it[2] if len(it) > 2 else {}
        sh = spec.get('share')
        if sh is None:
            ctor = spec.get('ctor', 'tuple')
            if len(X) == 0:
                H.append(DataSet((np.array([]), np.array([], dtype=np.int64))))
                labs.append(None)
                continue
            A = np.array(X, dtype=np.float64).reshape(len(X), len(X[0]))
            L = np.array(y, dtype=np.int64)
            if ctor == 'flat1d':
                A = A.reshape(len(X))
            elif ctor == 'intsamples':
                A = A.astype(np.int64)
            elif ctor == 'floatlabels':
                L = L.astype(np.float64)
            args.append(('constructor-samples', A))
            if ctor == 'ndarray':
                H.append(DataSet(A))                        # samples only: all labels -1
            else:
                args.append(('constructor-labels', L))
                H.append(DataSet((A, L)))
            labs.append(L)
            continue
        if 'parent' in sh:
            parent = np.array(sh['parent'], dtype=np.dtype(sh['dtype']), order=sh['order'])
            args.append(('constructor-parent', parent))
        a, b, st = sh['rows']
        V = parent[a:b:st, sh['cols'][0]:sh['cols'][1]]
        if sh['lab'] == 'own':
            L = np.array(y, dtype=np.int64)
            args.append(('constructor-labels', L))
        else:
            L = labs[sh['lab']]
        labs.append(L)
        H.append(DataSet((V, L)))
    return H, args


def pairs(s):
    return sorted((tuple(r), l) for r, l in zip(s[0], s[1]))


SC = 5          # index of the `scaled` flag in a snapshot; the scaling attributes are s[SC:SC+5]
FIELDS = ('samples', 'labels', 'dim', 'ndim1', 'shuffled', 'scaled', 'scaling_range', 'scaling_factor', 'original_min', 'original_max')


def attrs(s):
    return s[SC:SC + 5] + s[10:11]


def eff_map(s):
    """accumulated affine map (factor, offset) of a snapshot broadcast to the dimension, or None when it is not available"""
    d = s[2]
    if not s[SC] or not s[SC + 2] or len(s) < 11 or not s[10]:
        return None
    def bc(x):
        v = x[1] if x[0] == 1 else [x[1]] * d
        return tuple(v) if len(v) == d else tuple(v) * d if len(v) == 1 else None
    f, o = bc(s[SC + 2]), bc(s[10])
    return None if f is None or o is None else (f, o)


def near_tie(s):
    """True when a column holds two values that differ by a relative gap < 1e-9 without being equal."""
    if not s[0]:
        return False
    for j in range(len(s[0][0])):
        col = sorted(set(r[j] for r in s[0]))
        for a, b in zip(col, col[1:]):
            if b - a < 1e-9 * (1.0 + abs(a)):
                return True
    return False


def match_refs(outs, srcs):
    """outs: list of (row tuple, label); srcs: list of ((row tuple, label), ref). Greedy content matching.
    Returns list of refs (or 'U' when ambiguous / unmatched)."""
    pool = {}
    for k, ref in srcs:
        pool.setdefault(k, []).append(ref)
    res = []
    for k in outs:
        cands = pool.get(k)
        if not cands:
            res.append('U')
            continue
        if any(c != cands[0] for c in cands):
            res.append('U')
            cands.pop()
        else:
            res.append(cands.pop())
    return res


def close(a, b, tol=1e-9):
    return abs(a - b) <= tol * (1.0 + abs(b))


def impl_run(case):
    """Runs one operation sequence on the implementation. Ops are either given (case['ops']) or drawn while running."""
    import numpy as np
    from sparseSpACE.DEMachineLearning import DataSet
    import random as pyrandom
    rng = random.Random(case['seed'])
    np.random.seed(case['seed'] % (2 ** 32))
    pyrandom.seed(case['seed'])
    inits = case.get('inits')
    if inits is None:
        inits = gen_shared_inits(rng) if case.get('shared') else gen_inits(rng, case.get('big'))
    H, args = build_all(inits)
    args = [(nm, a, a.copy()) for nm, a in args]   # every array handed to the library, with its content at hand-over
    exact = any((it[2] if len(it) > 2 else {}).get('share', {}).get('dtype') == 'float32' for it in inits)
    snap = snapo                                   # all snapshots of this run carry the offset field
    has_off = hasattr(DataSet, 'get_scaling_offset')
    last = None
    S = [snap(d) for d in H]                       # current snapshots
    ref = [None] * len(H)                          # per handle: list of original rows (when scaled) or None
    flags = [dict(sub=False, mixed=False, taint=False, zero=False) for _ in H]
    fixed = case.get('ops')
    if fixed is None and case.get('big') and inits and inits[0][0]:
        fixed = big_ops(rng, inits)
    nops = len(fixed) if fixed is not None else case['nops']
    trace, viol = [], []
    stop = None

    def cur_ref(h, s):
        """reference rows of handle h aligned with the samples of its snapshot s (the rows themselves when unscaled)."""
        if ref[h] is None or len(ref[h]) != len(s[0]):
            return [tuple(r) if not s[SC] else 'U' for r in s[0]]
        return ref[h]

    def new_handle(obj, src_handles, kind):
        H.append(obj)
        s = snap(obj)
        S.append(s)
        srcs = []
        for sh in src_handles:
            cr = cur_ref(sh, Sb[sh])
            srcs += [((tuple(r), l), cr[i]) for i, (r, l) in enumerate(zip(Sb[sh][0], Sb[sh][1]))]
        rf = match_refs([(tuple(r), l) for r, l in zip(s[0], s[1])], srcs)
        scaled_src = any(Sb[sh][SC] for sh in src_handles)
        ref.append(rf if s[SC] else None)
        flags.append(dict(sub=bool(scaled_src), mixed=any(flags[sh]['mixed'] for sh in src_handles),
                          taint=any(flags[sh]['taint'] for sh in src_handles), zero=any(flags[sh]['zero'] for sh in src_handles)))
        return len(H) - 1

    for step in range(nops):
        info = [(len(s[0]), s[2], s[SC]) for s in S]
        op = list(fixed[step]) if fixed is not None else choose_op(rng, info, last, exact)
        last = op
        k, h = op[0], op[1]
        if h >= len(H) or (k in ('concatenate', 'same_scaling') and op[2] >= len(H)):
            stop = 'bad-handle'
            break
        if k in ('scale_range', 'mbf') and not case.get('no_guard') and near_tie(S[h]):
            stop = 'near-tie'
            break
        Sb = [s for s in S]                        # snapshots before the operation
        Db = [x.get_data() for x in H]             # the arrays the data sets hold before the operation (memory sharing)
        d = H[h]
        oparg = None
        if k in ('scale_factor', 'shift_value') and isinstance(op[2], list):
            oparg = np.array(op[2], dtype=np.float64)
            args.append(('operation-argument', oparg, oparg.copy()))
        ent = dict(op=op, viol=[], resync=[])
        exc = None
        out = None
        try:
            # non-overriding calls rely on the default of override_scaling (a changed default must not slip through)
            if k == 'scale_range':
                d.scale_range((op[2], op[3]), **(dict(override_scaling=True) if op[4] else {}))
            elif k == 'scale_factor':
                d.scale_factor(oparg if oparg is not None else op[2], **(dict(override_scaling=True) if op[3] else {}))
            elif k == 'shift_value':
                d.shift_value(oparg if oparg is not None else op[2], **(dict(override_scaling=True) if op[3] else {}))
            elif k == 'revert':
                d.revert_scaling()
            elif k == 'shuffle':
                d.shuffle()
            elif k == 'mbf':
                Xb = d.get_data()[0]
                if d.is_empty():
                    order = []
                else:
                    order = [int(i) for i in list(set(np.where(Xb == d.get_min_data())[0]) | set(np.where(Xb == d.get_max_data())[0]))]
                ent['order'] = order
                d.move_boundaries_to_front()
            elif k == 'split_labels':
                out = d.split_labels()
            elif k == 'split_pieces':
                out = d.split_pieces(op[2])
            elif k == 'split_without_labels':
                out = d.split_without_labels()
            elif k == 'remove_samples':
                out = d.remove_samples(list(op[2]))
            elif k == 'concatenate':
                out = d.concatenate(H[op[2]])
            elif k == 'same_scaling':
                out = d.same_scaling(H[op[2]])
            elif k == 'copy':
                out = d.copy()
            elif k == 'remove_labels':
                d.remove_labels(op[2])
            elif k == 'getters':
                mn, mx = d.get_min_data(), d.get_max_data()
                out = [[] if mn is None else [[_flt(v) for v in mn]], [] if mx is None else [[_flt(v) for v in mx]], int(d.get_length()),
                       sorted(int(l) for l in d.get_labels()), int(d.get_number_labels()), int(bool(d.has_labelless_samples())),
                       int(bool(d.is_empty()))]
            elif k == 'one_vs_others':
                out = d.split_one_vs_others()
            else:
                raise RuntimeError('unknown op ' + str(k))
        except BaseException as e:
            if isinstance(e, (KeyboardInterrupt, SystemExit)) or type(e).__name__ == 'CaseTimeout':
                raise
            exc = (type(e).__name__, str(e)[:120])
        ent['exc'] = exc
        raised = int(exc is not None)
        # ---- refresh snapshots of all existing handles, detect interference
        nold = len(H)
        S2 = [snap(x) for x in H]
        changed = [i for i in range(nold) if S2[i] != Sb[i]]
        for i in range(nold):
            S[i] = S2[i]
        allowed = {h} if k in MUTATING else set()
        for i in changed:
            if i not in allowed:
                what = [nm for nm, a, b in zip(FIELDS, Sb[i], S2[i]) if a != b]
                shared = int(any(np.shares_memory(x, y) for x, y in zip(Db[i], Db[h])))
                ent['viol'].append(dict(kind='operation-changes-other-dataset',
                                        sig=dict(op=k, changed=','.join(what), target_is_source=int(i == h), shared_memory=shared),
                                        why='%s on data set %d changed %s of data set %d%s' % (
                                            k, h, what, i, ' (the two hold views of the same array)' if shared else '')))
                ent['resync'].append([i, S2[i]])
                flags[i]['taint'] = True
                if ref[i] is not None:
                    cr = ref[i]
                    ref[i] = None if len(cr) != len(Sb[i][0]) else match_refs(
                        [(tuple(r), 0) for r in S2[i][0]], [((tuple(r), 0), cr[j]) for j, r in enumerate(Sb[i][0])])
        # ---- argument immutability: no operation may write into an array the caller handed over (constructor or operation argument)
        mut = [ai for ai, (nm, arr, cp) in enumerate(args) if arr.shape != cp.shape or not np.array_equal(arr, cp)]
        if mut:
            nm, arr, cp = args[mut[0]]
            ent['viol'].append(dict(kind='argument-mutated', sig=dict(op=k, arg=','.join(sorted(set(args[ai][0] for ai in mut)))),
                                    why='%s on data set %d wrote into the caller\'s %s array (%s %s)' % (k, h, nm, arr.dtype, arr.shape)))
            for ai in mut:
                args[ai] = (args[ai][0], args[ai][1], args[ai][1].copy())
        sb, sa = Sb[h], S[h]
        # ---- observation + oracle per operation
        if k in ('scale_range', 'scale_factor', 'shift_value', 'revert'):
            ent['obs'] = [raised, sa]
            if raised:
                if (sa[0], sa[1]) != (sb[0], sb[1]):
                    ent['viol'].append(dict(kind='failed-operation-modifies-data', sig=dict(op=k), why='%s raised %s but changed the data' % (k, exc)))
                if k == 'revert' and ref[h] is not None and sb[0] and not flags[h]['zero'] and not flags[h]['taint']:
                    # a scaling call succeeded on this (non-empty) data set since its last revert: revert_scaling has to work
                    ent['viol'].append(dict(kind='revert-raises-on-scaled-set', sig=dict(exc=exc[0]), why='revert_scaling raised %s on a scaled data set with %d samples' % (exc, len(sb[0]))))
            else:
                if sa[1] != sb[1] or len(sa[0]) != len(sb[0]):
                    ent['viol'].append(dict(kind='scaling-changes-labels', sig=dict(op=k), why='labels or sample count changed by ' + k))
                if k == 'scale_range' and sb[0] and len(sa[0]) == len(sb[0]):
                    lo, hi = float(op[2]), float(op[3])
                    for j in range(len(sb[0][0])):
                        cb = [r[j] for r in sb[0]]
                        ca = [r[j] for r in sa[0]]
                        rg = max(cb) - min(cb)
                        want_hi = hi if rg > 1e-9 * (1 + abs(max(cb))) else lo
                        if rg != 0 and want_hi == lo:
                            continue      # nearly constant column: rounding-level range, not judged
                        if not close(min(ca), lo) or not close(max(ca), want_hi):
                            ent['viol'].append(dict(kind='scale-range-extremes', sig=dict(constant=int(rg == 0)),
                                                    why='dimension %d: min/max after scale_range(%s,%s) are %r/%r' % (j, lo, hi, min(ca), max(ca))))
                            break
                if k in ('scale_factor', 'shift_value') and sb[0]:
                    a = op[2] if isinstance(op[2], list) else [op[2]] * len(sb[0][0])
                    f = (lambda x, c: x * c) if k == 'scale_factor' else (lambda x, c: x + c)
                    bad = [(i, j) for i in range(len(sb[0])) for j in range(len(a)) if not close(sa[0][i][j], f(sb[0][i][j], a[j]))]
                    if bad:
                        i, j = bad[0]
                        ent['viol'].append(dict(kind='scaling-wrong-values', sig=dict(op=k), why='sample %d dim %d is %r after %s(%r), was %r' % (
                            i, j, sa[0][i][j], k, op[2], sb[0][i][j])))
                if k == 'scale_range' and sb[0]:
                    lo, hi = float(op[2]), float(op[3])
                    for j in range(len(sb[0][0])):
                        cb = [r[j] for r in sb[0]]
                        mnb, mxb = min(cb), max(cb)
                        if mxb - mnb <= 1e-9 * (1 + abs(mxb)):
                            continue
                        bad = [i for i in range(len(cb)) if not close(sa[0][i][j], lo + (cb[i] - mnb) / (mxb - mnb) * (hi - lo))]
                        if bad:
                            ent['viol'].append(dict(kind='scaling-wrong-values', sig=dict(op=k), why='sample %d dim %d is %r after scale_range(%s,%s), was %r in [%r,%r]' % (
                                bad[0], j, sa[0][bad[0]][j], lo, hi, cb[bad[0]], mnb, mxb)))
                            break
                if k == 'revert':
                    rf = ref[h]
                    fl = flags[h]
                    cause = 'interfered' if fl['taint'] else 'mixed-scaling' if fl['mixed'] else 'membership-changed' if fl['sub'] else 'none'
                    if rf is not None and not fl['zero'] and 'U' not in rf and len(rf) == len(sa[0]):
                        bad = [(i, j) for i in range(len(rf)) for j in range(len(rf[i])) if not close(sa[0][i][j], rf[i][j])]
                        if bad:
                            i, j = bad[0]
                            ent['viol'].append(dict(kind='revert-not-restoring', sig=dict(cause=cause),
                                                    why='sample %d dim %d is %r after revert_scaling, was %r before scaling' % (i, j, sa[0][i][j], rf[i][j])))
                    if any(sa[SC:SC + 5]):
                        ent['viol'].append(dict(kind='revert-keeps-attributes', sig={}, why='scaling attributes not cleared: %r' % (attrs(sa),)))
                    ref[h] = None
                    flags[h] = dict(sub=False, mixed=False, taint=False, zero=False)
                else:
                    ov = bool(op[4] if k == 'scale_range' else op[3])
                    if not sb[SC] or ov:
                        ref[h] = [tuple(r) for r in sb[0]]
                        flags[h] = dict(sub=False, mixed=False, taint=False, zero=False)
                    if k == 'scale_factor':
                        a = op[2]
                        if (a == 0) if not isinstance(a, list) else any(v == 0 for v in a):
                            flags[h]['zero'] = True
        elif k in ('shuffle', 'mbf'):
            if k == 'shuffle' and not raised:
                # read the permutation off the implementation (content matching; equal pairs are interchangeable)
                pool = {}
                for i, kv in enumerate(zip(map(tuple, sb[0]), sb[1])):
                    pool.setdefault(kv, []).append(i)
                perm = []
                for kv in zip(map(tuple, sa[0]), sa[1]):
                    c = pool.get(kv)
                    perm.append(c.pop(0) if c else -1)
                ent['perm'] = perm
            ent['obs'] = [raised, sa]
            if pairs(sa) != pairs(sb):
                ent['viol'].append(dict(kind='multiset-changed', sig=dict(op=k), why='%s changed the multiset of (sample,label) pairs' % k))
            if attrs(sa) != attrs(sb):
                ent['viol'].append(dict(kind='attributes-not-carried', sig=dict(op=k), why='%s changed scaling attributes' % k))
            if ref[h] is not None:
                cr = ref[h]
                ref[h] = match_refs([(tuple(r), l) for r, l in zip(sa[0], sa[1])],
                                    [((tuple(r), l), cr[i] if i < len(cr) else 'U') for i, (r, l) in enumerate(zip(sb[0], sb[1]))])
        elif k in ('split_labels', 'split_pieces', 'split_without_labels'):
            if raised:
                ent['obs'] = [1]
            else:
                outs = list(out)
                hs = []
                if k == 'split_labels':
                    outs.sort(key=lambda o: (int(o.get_data()[1][0]) if len(o.get_data()[1]) else -99))
                for o in outs:
                    hs.append(new_handle(o, [h], k))
                so = [S[i] for i in hs]
                if k == 'split_labels':
                    ent['obs'] = [0, [s[1][0] if s[1] else -99 for s in so], so]
                    for s in so:
                        if len(set(s[1])) > 1:
                            ent['viol'].append(dict(kind='split-labels-mixed', sig={}, why='a split_labels piece holds labels %s' % sorted(set(s[1]))))
                else:
                    ent['obs'] = [0] + so
                if k == 'split_without_labels' and so and (any(l != -1 for l in so[0][1]) or any(l < 0 for l in so[1][1])):
                    ent['viol'].append(dict(kind='split-without-labels-wrong-side', sig={}, why='labelled/unlabelled samples on the wrong side'))
                un = sorted(sum([pairs(s) for s in so], []))
                if un != pairs(sb):
                    ent['viol'].append(dict(kind='multiset-changed', sig=dict(op=k), why='%s pieces do not cover the source multiset' % k))
                for s in so:
                    if attrs(s) != attrs(sb):
                        ent['viol'].append(dict(kind='attributes-not-carried', sig=dict(op=k), why='%s piece has attributes %r, source %r' % (k, attrs(s), attrs(sb))))
                        break
        elif k == 'remove_samples':
            idx = list(op[2])
            n = len(sb[0])
            oob = any(i < 0 or i >= n for i in idx)
            if raised:
                ent['obs'] = [1, sa]
                if not oob:
                    ent['viol'].append(dict(kind='remove-valid-indices-raises',
                                            sig=dict(exc=exc[0], modified=int((sa[0], sa[1]) != (sb[0], sb[1])), dim=sb[2],
                                                     array_range=int(bool(sb[SC + 1]) and sb[SC + 1][0] == 1)),
                                            why='remove_samples(%s) raised %s on %d samples%s' % (
                                                idx, exc, n, ' AFTER deleting them from the data set (samples lost)' if (sa[0], sa[1]) != (sb[0], sb[1]) else '')))
            else:
                rh = new_handle(out, [h], k)
                sr = S[rh]
                ent['newh'] = rh
                ent['obs'] = [0, sa, sr]
                if oob:
                    ent['viol'].append(dict(kind='remove-out-of-range-accepted', sig={}, why='remove_samples(%s) accepted on %d samples' % (idx, n)))
                elif sorted(pairs(sa) + pairs(sr)) != pairs(sb):
                    ent['viol'].append(dict(kind='multiset-changed', sig=dict(op=k, duplicate_indices=int(len(set(idx)) != len(idx))),
                                            why='remove_samples(%s): removed + remaining != original multiset' % idx))
                if idx and attrs(sr) != attrs(sb):
                    ent['viol'].append(dict(kind='attributes-not-carried', sig=dict(op=k), why='removed set has attributes %r, source %r' % (attrs(sr), attrs(sb))))
                if attrs(sa) != attrs(sb):
                    ent['viol'].append(dict(kind='attributes-not-carried', sig=dict(op=k + '/self'), why='remove_samples changed the attributes of self'))
                if ref[h] is not None:
                    cr = ref[h]
                    ref[h] = match_refs([(tuple(r), l) for r, l in zip(sa[0], sa[1])],
                                        [((tuple(r), l), cr[i] if i < len(cr) else 'U') for i, (r, l) in enumerate(zip(sb[0], sb[1]))])
                    if idx:
                        flags[h]['sub'] = True
            if raised and (sa[0], sa[1]) != (sb[0], sb[1]) and ref[h] is not None:
                # the call raised after deleting samples: the membership of the (scaled) set changed
                cr = ref[h]
                ref[h] = match_refs([(tuple(r), l) for r, l in zip(sa[0], sa[1])],
                                    [((tuple(r), l), cr[i] if i < len(cr) else 'U') for i, (r, l) in enumerate(zip(sb[0], sb[1]))])
                flags[h]['sub'] = True
            if raised and oob and (sa[0], sa[1]) != (sb[0], sb[1]):
                ent['viol'].append(dict(kind='remove-out-of-range-modifies', sig={}, why='remove_samples(%s) raised but modified the data' % idx))
        elif k == 'concatenate':
            h2 = op[2]
            sb2 = Sb[h2]
            if raised:
                ent['obs'] = [1]
            elif out is H[h]:
                ent['obs'] = [0, 1]
            elif out is H[h2]:
                ent['obs'] = [0, 2]
            else:
                # the property's refusal clause: judged by the accumulated affine maps (factor, offset) when the implementation keeps
                # them, else with the implementation's own scaling comparison
                ma, mb = eff_map(sb), eff_map(sb2)
                if has_off and (not sb[SC] or ma is not None) and (not sb2[SC] or mb is not None):
                    same = bool(sb[SC]) == bool(sb2[SC]) and ma == mb
                    ent['judge'] = 'affine-map'
                else:
                    try:
                        same = bool(H[h].same_scaling(H[h2]))
                    except Exception:
                        same = None
                    ent['judge'] = 'same_scaling' 
                rh = new_handle(out, [h, h2], k)
                sr = S[rh]
                ent['obs'] = [0, 0, sr]
                if sorted(pairs(sb) + pairs(sb2)) != pairs(sr):
                    ent['viol'].append(dict(kind='multiset-changed', sig=dict(op=k), why='concatenate result != union of the operands'))
                if same is False and sb2[0]:      # (an EMPTY other set adds nothing; an empty self still stamps its scaling on the other's samples)
                    ent['viol'].append(dict(kind='concatenate-different-scaling-accepted', sig={},
                                            why='same_scaling is False (attributes %r vs %r) but concatenate returned a joined set' % (attrs(sb), attrs(sb2))))
                    flags[rh]['mixed'] = True
                if attrs(sr) != attrs(sb):
                    ent['viol'].append(dict(kind='attributes-not-carried', sig=dict(op=k), why='concatenated set has attributes %r, self %r' % (attrs(sr), attrs(sb))))
                if sb[SC] or sb2[SC]:
                    flags[rh]['sub'] = True
        elif k == 'same_scaling':
            ent['obs'] = [1] if raised else [0, int(bool(out))]
            sb2 = Sb[op[2]]
            if not raised:
                # the answer must agree with the observable scaling attributes whenever range and factor have the same shapes on both sides
                if bool(sb[SC]) != bool(sb2[SC]):
                    want = False
                elif not sb[SC]:
                    want = True
                elif sb[SC + 1] and sb2[SC + 1] and sb[SC + 2] and sb2[SC + 2] and sb[SC + 1][0] == sb2[SC + 1][0] and sb[SC + 2][0] == sb2[SC + 2][0]:
                    want = sb[SC + 1] == sb2[SC + 1] and sb[SC + 2] == sb2[SC + 2]
                else:
                    want = None
                if want is not None and bool(out) != want:
                    ent['viol'].append(dict(kind='same-scaling-wrong', sig=dict(want=int(want), dim=sb[2]),
                                            why='same_scaling returned %r for attributes %r vs %r' % (bool(out), attrs(sb), attrs(sb2))))
        elif k == 'copy':
            if raised:
                ent['obs'] = [1]
            else:
                ch = new_handle(out, [h], k)
                ent['obs'] = [0, S[ch]]
                if S[ch] != sb:
                    what = [nm for nm, a, b in zip(FIELDS, sb, S[ch]) if a != b]
                    ent['viol'].append(dict(kind='copy-differs', sig=dict(changed=','.join(what)), why='copy() differs from its source in %s' % what))
                if ref[h] is not None and len(ref[h]) == len(S[ch][0]):
                    ref[ch] = list(ref[h])
                flags[ch] = dict(flags[h])
        elif k == 'remove_labels':
            m = sum(1 for l in sb[1] if l != -1)
            # rnd.sample index list read off the result: positions (among the labelled samples, in their order) whose label became -1
            ent['idx'] = [i for i in range(min(m, len(sa[1]))) if sa[1][i] == -1] if not raised else []
            ent['obs'] = [raised, sa]
            if not raised:
                p = op[2] if 0 <= op[2] < 1 else 1.0
                if sorted(map(tuple, sa[0])) != sorted(map(tuple, sb[0])):
                    ent['viol'].append(dict(kind='multiset-changed', sig=dict(op=k), why='remove_labels changed the multiset of samples'))
                else:
                    before, after = pairs(sb), pairs(sa)
                    kept = [q for q in after if q[1] != -1]
                    pool = list(before)
                    okk = True
                    for q in kept:
                        if q in pool:
                            pool.remove(q)
                        else:
                            okk = False
                    nnew = sum(1 for l in sa[1] if l == -1) - sum(1 for l in sb[1] if l == -1)
                    if not okk:
                        ent['viol'].append(dict(kind='remove-labels-relabels', sig={}, why='remove_labels attached a label to another sample'))
                    elif nnew != round(p * m):
                        ent['viol'].append(dict(kind='remove-labels-count', sig={}, why='remove_labels(%r) removed %d of %d labels' % (op[2], nnew, m)))
                if attrs(sa) != attrs(sb):
                    ent['viol'].append(dict(kind='attributes-not-carried', sig=dict(op=k), why='remove_labels changed scaling attributes'))
                if ref[h] is not None:
                    cr = ref[h]
                    ref[h] = match_refs([(tuple(r), -1) for r in sa[0]],
                                        [((tuple(r), -1), cr[i] if i < len(cr) else 'U') for i, r in enumerate(sb[0])])
        elif k == 'getters':
            ent['obs'] = [1] if raised else out
            if not raised:
                n = len(sb[0])
                want = [[[min(r[j] for r in sb[0]) for j in range(len(sb[0][0]))]] if n else [],
                        [[max(r[j] for r in sb[0]) for j in range(len(sb[0][0]))]] if n else [],
                        n, sorted(set(sb[1])), len(set(l for l in sb[1] if l >= 0)), int(-1 in sb[1]), int(n == 0)]
                if out != want:
                    what = [nm for nm, a, b in zip(('min', 'max', 'length', 'labels', 'number_labels', 'has_labelless', 'is_empty'), out, want) if a != b]
                    ent['viol'].append(dict(kind='getter-wrong', sig=dict(getter=','.join(what)), why='getters return %r, the data say %r' % (out, want)))
        elif k == 'one_vs_others':
            # CPython set order of the labels (an input of the model, validated there); float label dtype: list index TypeError (not modelled)
            try:
                ent['order'] = [int(l) for l in H[h].get_labels()]
            except Exception:
                ent['order'] = []
            ent['obs'] = [1]
            if raised and exc[0] == 'TypeError':
                ent['obs'] = None
            if not raised:
                labs = ent['order']
                so = [snap(o) for o in out]
                ent['obs'] = [0, [[s2[0], [float(l) for l in s2[1]]] for s2 in so]]
                for j, s2 in enumerate(so):
                    if s2[0] != sb[0]:
                        ent['viol'].append(dict(kind='multiset-changed', sig=dict(op=k), why='split_one_vs_others set %d does not hold the samples of its source in order' % j))
                        break
                    if attrs(s2) != attrs(sb):
                        ent['viol'].append(dict(kind='attributes-not-carried', sig=dict(op=k), why='split_one_vs_others set has attributes %r, source %r' % (attrs(s2), attrs(sb))))
                        break
                    if j < len(labs) and [int(l == 1) for l in s2[1]] != [int(l == labs[j]) for l in sb[1]]:
                        ent['viol'].append(dict(kind='one-vs-others-labels', sig={}, why='split_one_vs_others set %d does not mark exactly the samples of class %r with 1' % (j, labs[j])))
                        break
        trace.append(ent)
        if len(H) > 40:
            stop = 'too-many-handles'
            break
    return dict(inits=inits, trace=trace, stop=stop)


def probe_variant(_case):
    """Which of the two proposed repairs (fixes/C18-remove-samples-unique, fixes/C18-same-scaling-full-arrays) are present in the
    implementation under test?  Selects the model variant (coq/Model/DataSet.v, record `variant`)."""
    import numpy as np
    from sparseSpACE.DEMachineLearning import DataSet
    d = DataSet((np.array([[0.0], [1.0], [2.0]]), np.array([0, 1, 2], dtype=np.int64)))
    try:
        dedup = int(d.remove_samples([1, 1]).get_length() == 1)
    except Exception:
        dedup = 0
    try:
        a = DataSet((np.array([[0.0], [1.0]]), np.array([0, 1], dtype=np.int64)))
        a.shift_value(1.0)
        ok1 = bool(a.same_scaling(a))
        b = DataSet((np.array([[0.0, 0.0, 0.0], [1.0, 1.0, 1.0]]), np.array([0, 1], dtype=np.int64)))
        c = DataSet((np.array([[0.0, 0.0, 0.0], [1.0, 1.0, 1.0]]), np.array([0, 1], dtype=np.int64)))
        b.shift_value(np.array([0.0, 0.0, 1.0]))
        c.shift_value(0.0)
        full = int(ok1 and not bool(b.same_scaling(c)))
    except Exception:
        full = 0
    return [dedup, full, int(hasattr(DataSet, 'get_scaling_offset')), int(hasattr(DataSet, '_same_affine_scaling'))]


# --------------------------------------------------------------------------------------------- model side
def model_ops(trace):
    """Wire operations for the model, including permutations/orders read off the implementation and re-synchronisations."""
    mops, owner = [], []
    for i, ent in enumerate(trace):
        op = ent['op']
        k, h = op[0], op[1]
        if k == 'scale_range':
            m = [1, h, float(op[2]), float(op[3]), int(op[4])]
        elif k in ('scale_factor', 'shift_value'):
            a = [1, [float(v) for v in op[2]]] if isinstance(op[2], list) else [0, float(op[2])]
            m = [OPN[k], h, a, int(op[3])]
        elif k == 'revert':
            m = [4, h]
        elif k == 'shuffle':
            perm = ent.get('perm')
            m = [5, h, perm if perm is not None and -1 not in perm else []]
        elif k == 'mbf':
            m = [6, h, ent.get('order', [])]
        elif k == 'split_pieces':
            m = [8, h, float(op[2])]
        elif k == 'remove_samples':
            m = [10, h, [int(v) for v in op[2]]]
        elif k in ('concatenate', 'same_scaling'):
            m = [OPN[k], h, int(op[2])]
        elif k == 'remove_labels':
            m = [15, h, float(op[2]), [int(v) for v in ent.get('idx', [])]]
        elif k == 'one_vs_others':
            if ent.get('obs') is None:
                continue
            m = [17, h, [int(v) for v in ent.get('order', [])]]
        else:
            m = [OPN[k], h]
        mops.append(m); owner.append(i)
        for hh, s in ent.get('resync', []) + ent.get('resync_soft', []):
            mops.append([13, hh, s]); owner.append(None)
    return mops, owner


def cmp_obs(impl, model, path=''):
    """Compare an implementation observation (floats/ints/lists) with a decoded model value. Returns (status, path):
    status 0 exact, 1 equal up to rounding, 2 different."""
    if isinstance(impl, float):
        try:
            mq = sx.q(model)
        except Exception:
            return 2, path
        iq = sx.rat(impl)
        if iq == mq:
            return 0, path
        return (1, path) if abs(iq - mq) <= TOL * (1 + abs(mq)) else (2, path)
    if isinstance(impl, int):
        return (0, path) if (isinstance(model, int) and model == impl) else (2, path)
    if isinstance(impl, (list, tuple)):
        if not isinstance(model, list) or len(model) != len(impl):
            return 2, path
        worst = 0
        for i, (a, b) in enumerate(zip(impl, model)):
            st, p = cmp_obs(a, b, path + '/%d' % i)
            if st == 2:
                return 2, p
            worst = max(worst, st)
        return worst, path
    return 2, path


def sorted_snapshot(s, model=False):
    """snapshot with its (sample, label) pairs in ascending order (model values are rationals on the wire)"""
    key = (lambda rl: ([sx.q(v) for v in rl[0]], rl[1])) if model else (lambda rl: ([sx.rat(v) for v in rl[0]], rl[1]))
    prs = sorted(zip(s[0], s[1]), key=key)
    return [[r for r, _ in prs], [l for _, l in prs]] + list(s[2:])


CORPUS = [
    # exemplars of the known findings (kept first)
    dict(seed=1, kind='corpus', name='concat-different-scaling',
         inits=[[[[0.0, 1.0], [2.0, 5.0], [4.0, 3.0]], [0, 1, 0]], [[[1.0, 1.0], [3.0, 2.0]], [1, 1]]],
         ops=[['scale_range', 0, 0, 1, 0], ['concatenate', 0, 1], ['concatenate', 1, 0], ['scale_range', 1, 0, 2, 0], ['concatenate', 0, 1],
              ['revert', 2]]),
    dict(seed=2, kind='corpus', name='split-pieces-label-view',
         inits=[[[[0.0], [1.0], [2.0], [3.0]], [0, 1, 2, 3]]],
         ops=[['split_pieces', 0, 0.5], ['mbf', 2], ['mbf', 0]]),
    dict(seed=3, kind='corpus', name='shared-scaling-factor',
         inits=[[[[0.0, 1.0], [2.0, 5.0], [4.0, 3.0], [1.0, 1.0]], [0, 1, 0, 1]]],
         ops=[['scale_range', 0, 0, 1, 0], ['split_pieces', 0, 0.5], ['scale_factor', 1, 2.0, 0], ['revert', 0]]),
    dict(seed=4, kind='corpus', name='revert-after-split',
         inits=[[[[0.0, 1.0], [2.0, 5.0], [4.0, 3.0], [1.0, 2.0]], [0, 1, 0, 1]]],
         ops=[['scale_range', 0, 0, 1, 0], ['split_pieces', 0, 0.5], ['revert', 2]]),
    dict(seed=5, kind='corpus', name='remove-duplicate-indices',
         inits=[[[[0.0], [1.0], [2.0]], [0, 1, -1]]],
         ops=[['remove_samples', 0, [1, 1]]]),
    dict(seed=11, kind='corpus', name='same-scaling-index-1',
         inits=[[[[0.0], [1.0], [2.0], [3.0]], [0, 1, 0, 1]]],
         ops=[['shift_value', 0, 1.0, 0], ['remove_samples', 0, [0, 2]], ['concatenate', 0, 0]]),
    # the flows of Classification._initialize and Classification.test_data
    dict(seed=6, kind='corpus', name='classification-initialize',
         inits=[[[[0.5, -1.0], [1.5, 0.25], [-0.75, 2.0], [0.0, 0.0], [2.0, 1.0], [1.0, -0.5], [0.25, 0.75], [-0.5, 1.5]], [0, 1, 0, 1, 1, 0, -1, 1]]],
         ops=[['split_without_labels', 0], ['scale_range', 2, 0.005, 0.995, 1], ['shift_value', 1, [0.75, 1.0], 1],
              ['scale_factor', 1, [0.36, 0.33], 1], ['shift_value', 1, 0.005, 1], ['shuffle', 2], ['mbf', 2], ['split_labels', 2],
              ['split_pieces', 3, 0.8], ['split_pieces', 4, 0.8], ['concatenate', 5, 7], ['concatenate', 6, 8]]),
    dict(seed=7, kind='corpus', name='classification-test-data',
         inits=[[[[0.5, -1.0], [1.5, 0.25], [-0.75, 2.0], [9.0, 0.0]], [0, 1, -1, 1]], [[], []]],
         ops=[['shift_value', 0, [0.75, 1.0], 0], ['scale_factor', 0, [0.25, 0.25], 0], ['shift_value', 0, 0.005, 0],
              ['remove_samples', 0, [3]], ['split_without_labels', 0], ['concatenate', 1, 3], ['concatenate', 1, 4], ['revert', 4]]),
    # degenerate inputs
    dict(seed=8, kind='corpus', name='empty-and-single',
         inits=[[[], []], [[[1.0, 2.0]], [3]]],
         ops=[['scale_range', 0, 0, 1, 0], ['scale_factor', 0, 2.0, 0], ['shift_value', 0, 1.0, 1], ['shuffle', 0], ['mbf', 0], ['split_labels', 0],
              ['split_pieces', 0, 0.5], ['remove_samples', 0, []], ['remove_samples', 0, [0]], ['revert', 0], ['concatenate', 0, 1],
              ['concatenate', 1, 0], ['scale_range', 1, 0, 1, 0], ['scale_factor', 1, -2.0, 0], ['revert', 1]]),
    dict(seed=9, kind='corpus', name='same-scaling-array-ranges',
         inits=[[[[1.0], [2.0]], [0, 1]], [[[1.0, 1.0, 1.0], [2.0, 3.0, 5.0]], [0, 1]]],
         ops=[['split_pieces', 0, 0.5], ['shift_value', 0, 1.0, 0], ['shift_value', 2, 1.0, 0], ['same_scaling', 0, 2], ['same_scaling', 0, 0],
              ['split_pieces', 1, 0.5], ['shift_value', 1, [0.0, 0.0, 1.0], 0], ['shift_value', 5, 0.0, 0], ['same_scaling', 1, 5]]),
    dict(seed=12, kind='corpus', name='same-scaling-later-dimension',
         inits=[[[[0.0, 0.0, 0.0], [1.0, 1.0, 1.0]], [0, 1]], [[[0.0, 0.0, 0.0], [1.0, 1.0, 2.0]], [0, 1]],
                [[[0.0, 0.0, 0.0, 5.0], [1.0, 1.0, 1.0, 6.0]], [0, 1]], [[[0.0, 0.0, 0.0, 5.0], [1.0, 1.0, 1.0, 7.0]], [0, 1]]],
         ops=[['shift_value', 0, 0.0, 0], ['shift_value', 1, 0.0, 0], ['same_scaling', 0, 1], ['same_scaling', 1, 0],
              ['scale_factor', 2, [1.0, 1.0, 1.0, 1.0], 0], ['scale_factor', 3, [1.0, 1.0, 1.0, 2.0], 0], ['scale_factor', 3, [1.0, 1.0, 1.0, 0.5], 0],
              ['same_scaling', 2, 3], ['same_scaling', 2, 2]]),
    # two data sets built from ONE sample array (own label arrays): each has to behave as if built from a private copy
    dict(seed=13, kind='corpus', name='shared-constructor-array',
         inits=[[[[1.0, 5.0], [0.0, 2.0], [3.0, 1.0], [2.0, 9.0]], [0, 1, 2, 3],
                 dict(ctor='shared', labels='corpus', values='corpus',
                      share=dict(dtype='float64', order='C', rows=[0, 4, 1], cols=[0, 2], lab='own', mode='same',
                                 parent=[[1.0, 5.0], [0.0, 2.0], [3.0, 1.0], [2.0, 9.0]]))],
                [[[1.0, 5.0], [0.0, 2.0], [3.0, 1.0], [2.0, 9.0]], [0, 1, 2, 3],
                 dict(ctor='shared', labels='corpus', values='corpus',
                      share=dict(dtype='float64', order='C', rows=[0, 4, 1], cols=[0, 2], lab='own', mode='same'))]],
         ops=[['scale_factor', 0, 2.0, 0], ['getters', 1], ['shift_value', 1, [1.0, 0.5], 0], ['scale_factor', 1, [2.0, 4.0], 0], ['revert', 0],
              ['revert', 1], ['mbf', 0], ['getters', 1]]),
    dict(seed=10, kind='corpus', name='near-constant-column', no_guard=True,
         inits=[[[[1.0, 0.0], [1.0000000000000002, 1.0]], [0, 1]]],
         ops=[['scale_factor', 0, 1.0, 0], ['scale_range', 0, 0, 1, 0]]),
]


def run(chk):
    gen_info = _c18_gen.regenerate(chk)
    chk.coq_obligations(extra_props=_c18_gen.EXTRA_PROPS)
    gen_problem = _c18_gen.diagnose(chk, gen_info)
    n = chk.n(3000, 30000)
    nbig = chk.n(52, 400)
    try:                                           # import once in the parent: the forked workers inherit the loaded library
        import warnings
        with warnings.catch_warnings():
            warnings.simplefilter('ignore')
            import sparseSpACE.DEMachineLearning  # noqa: F401
    except Exception:
        pass
    nsh = chk.n(500, 5000)
    cases = [dict(c) for c in CORPUS] + [gen_big_case(chk.rng, chk.tier) for _ in range(nbig)] + [gen_shared_case(chk.rng, chk.tier) for _ in range(nsh)] \
        + [gen_case(chk.rng, chk.tier) for _ in range(n)]
    impl = run_impl(impl_run, cases, limit=240)
    judge(chk, cases, impl, get_variant(chk))
    _c18_gen.finish(chk, gen_info, gen_problem)


def get_variant(chk=None):
    st, v = run_impl(probe_variant, [None])[0]
    v = v if st == 'ok' else [0, 0, 0, 0]
    probed = list(v)
    v = list(PINNED_VARIANT)            # all four repairs are in the repository: the model IS the repaired code
    if chk is not None and probed != v:
        names = ['remove_samples de-duplicates its indices', 'same_scaling compares the whole arrays', 'DataSet.get_scaling_offset (accumulated offset)',
                 'DataSet._same_affine_scaling (concatenate compares the accumulated maps)']
        chk.violation('probe:C18/repairs', 'repair-regressed', {'probe': ''.join(map(str, probed))}, dict(kind='probe', probed=probed),
                      dict(missing=[n for n, a, b in zip(names, probed, v) if a != b],
                           note='the behavioural / structural probe of the implementation no longer shows a committed repair; the model stays the repaired code'),
                      failing_input=False)
    if chk is not None:
        chk.extra['model_variant'] = dict(remove_samples_dedup=v[0], same_scaling_full_arrays=v[1], accumulated_offset=v[2],
                                          concatenate_compares_affine_maps=v[3],
                                          probed=probed, note='pinned to the repaired code [1,1,1,1]; the probe of the implementation is recorded and a deviation is a violation')
    return v


def judge(chk, cases, impl, variant):
    # model runs (with soft re-synchronisation rounds for order deviations in move_boundaries_to_front)
    todo = [i for i, (st, r) in enumerate(impl) if st == 'ok']
    mres = {}
    for rnd in range(16):
        if not todo:
            break
        batch = []
        for i in todo:
            mops, owner = model_ops(impl[i][1]['trace'])
            batch.append((1, [[it[:2] for it in impl[i][1]['inits']], mops, variant]))
        out = run_model(18, batch)
        again = []
        for i, o in zip(todo, out):
            mres[i] = o
            tr = impl[i][1]['trace']
            mops, owner = model_ops(tr)
            if sx.is_err(o) or isinstance(o, tuple):
                continue
            for m, ow, ob in zip(mops, owner, o):
                if ow is None:
                    continue
                ent = tr[ow]
                if ent['op'][0] == 'mbf' and not ent.get('resync_soft') and not sx.is_err(ob):
                    st, _ = cmp_obs(ent['obs'], ob[:2])
                    if st == 2 and not any(v['kind'] == 'multiset-changed' for v in ent['viol']) and ent['obs'][0] == 0 == ob[0]:
                        # the implementation moved the samples differently but kept the multiset: not a C18 matter
                        ent['resync_soft'] = [[ent['op'][1], ent['obs'][1]]]
                        ent['soft'] = True
                        again.append(i)
                        break
                if (ent['op'][0] == 'remove_samples' and not ent.get('resync_soft') and not sx.is_err(ob) and ent['obs'][0] == 0 == ob[0]
                        and len(ob) == 3 and 'newh' in ent and cmp_obs(ent['obs'], ob)[0] == 2):
                    # the removed samples come back in another order (e.g. sorted indices) with the same content: not a C18 matter
                    if cmp_obs(ent['obs'][1], ob[1])[0] != 2 and cmp_obs(sorted_snapshot(ent['obs'][2]), sorted_snapshot(ob[2], model=True))[0] != 2:
                        ent['resync_soft'] = [[ent['newh'], ent['obs'][2]]]
                        ent['soft'] = True
                        again.append(i)
                        break
        todo = again
    keys, samples = [], []
    for i, (c, (st, r)) in enumerate(zip(cases, impl)):
        chk.count('kind=' + c.get('kind', 'random'))
        if st != 'ok':
            chk.violation('corr:C18/run', 'harness-or-impl-failure', {'status': st}, c, dict(impl=str(r)[:600]), failing_input=False)
            continue
        tr = r['trace']
        base = dict(seed=c['seed'], kind=c.get('kind', 'random'), inits=r['inits'])
        if r['stop']:
            chk.count('stopped:' + r['stop'])
        chk.traces += 1
        chk.count('ops=%d' % len(tr))
        for s in r['inits']:
            chk.count('init_n=%s' % size_bucket(len(s[0])))
            sp = s[2] if len(s) > 2 else {}
            chk.count('ctor=%s' % sp.get('ctor', 'tuple'))
            chk.count('labels=%s' % sp.get('labels', 'corpus'))
            chk.count('values=%s' % sp.get('values', 'corpus'))
            if sp.get('share'):
                sh = sp['share']
                chk.count('shared:mode=%s' % sh['mode'])
                chk.count('shared:dtype=%s/order=%s' % (sh['dtype'], sh['order']))
                chk.count('shared:labels=%s' % ('own' if sh['lab'] == 'own' else 'same-object'))
                chk.count('shared:%s' % ('column-slice' if 'parent' in sh and len(sh['parent'][0]) != sh['cols'][1] - sh['cols'][0] else 'all-columns') if 'parent' in sh else 'shared:view')
            if s[0]:
                chk.count('d=%d' % len(s[0][0]))
        # oracle verdicts (implementation alone)
        for j, ent in enumerate(tr):
            chk.count('op=' + ent['op'][0])
            if j and ent['op'][1] == tr[j - 1]['op'][1]:
                chk.count('history:same-object-as-previous-op')
            if j and ent['op'] == tr[j - 1]['op']:
                chk.count('history:verbatim-repetition')
            if ent['op'][0] in ('scale_range', 'scale_factor', 'shift_value'):
                chk.count('override=%d' % ent['op'][-1])
                if ent['op'][0] != 'scale_range':
                    chk.count('argument=%s' % ('array' if isinstance(ent['op'][2], list) else 'float'))
            if ent.get('judge'):
                chk.count('concatenate-judged-by=' + ent['judge'])
            if ent.get('exc'):
                chk.count('raised:%s/%s' % (ent['op'][0], ent['exc'][0]))
            for v in ent['viol']:
                chk.violation('oracle:' + v['kind'], v['kind'], v['sig'], dict(base, ops=[e['op'] for e in tr[:j + 1]]),
                              dict(step=j, op=ent['op'], why=v['why']))
        # correspondence
        o = mres.get(i)
        mops, owner = model_ops(tr)
        if o is None or sx.is_err(o) or isinstance(o, tuple) or len(o) != len(mops):
            chk.violation('corr:C18/run', 'model-failure', {}, dict(base, ops=[e['op'] for e in tr]), dict(model=str(o)[:400]), failing_input=False)
            continue
        rounded = False
        for m, ow, ob in zip(mops, owner, o):
            if ow is None:
                if sx.is_err(ob) or ob != [0]:
                    chk.violation('corr:C18/resync', 'model-failure', {}, dict(base, ops=[e['op'] for e in tr]), dict(model=str(ob)[:300]), failing_input=False)
                    break
                continue
            ent = tr[ow]
            k = ent['op'][0]
            mob = ob
            if k == 'one_vs_others':
                if isinstance(ob, list) and len(ob) == 3 and ob[2] != 1:
                    chk.violation('corr:C18/one_vs_others', 'label-order-inadmissible', {}, dict(base, ops=[e['op'] for e in tr[:ow + 1]]),
                                  dict(step=ow, order=ent.get('order'), note='get_labels() is not an enumeration of the distinct labels'), failing_input=False)
                    break
                mob = ob[:len(ent['obs'])] if isinstance(ob, list) else ob
            if k == 'remove_labels' and isinstance(ob, list) and len(ob) == 3:
                mob = ob[:2]
                if ob[2] != 1 and ob[0] == 0:
                    chk.violation('corr:C18/remove_labels', 'remove-labels-index-list-inadmissible', {}, dict(base, ops=[e['op'] for e in tr[:ow + 1]]),
                                  dict(step=ow, idx=ent.get('idx'), note='the labels removed are not a rnd.sample of round(p*labelled) labelled samples'),
                                  failing_input=False)
                    break
            if k == 'mbf' and isinstance(ob, list) and len(ob) == 3:
                mob = ob[:2]
                if ob[2] != 1 and ob[0] == 0 and not ent.get('soft'):
                    chk.violation('corr:C18/mbf', 'boundary-index-set-differs', {}, dict(base, ops=[e['op'] for e in tr[:ow + 1]]),
                                  dict(step=ow, impl_order=ent.get('order'), note='model boundary index set differs from the implementation\'s'),
                                  failing_input=False)
                    break
            if ent.get('soft'):
                chk.count(k + '-order-deviation')
                continue
            st2, path = cmp_obs(ent['obs'], mob)
            if st2 == 1:
                rounded = True
            if st2 == 2 and k == 'same_scaling' and rounded:
                # equality of attributes that carry float rounding (exact in the model): not decidable by the exact model
                chk.count('ambiguous:same_scaling-on-rounded-values')
                continue
            if st2 == 2 and k == 'concatenate' and rounded and variant[3] and ent['obs'][0] != (mob[0] if isinstance(mob, list) and mob else None):
                # refusal decided by exact equality of accumulated maps that carry float rounding: not decidable by the exact model;
                # the stores diverge here, the rest of this history is judged by the implementation-side predicates only
                chk.count('ambiguous:concatenate-refusal-on-rounded-maps')
                break
            if st2 == 2:
                chk.violation('corr:C18/' + k, 'model-differs', {'op': k, 'raised_impl': ent['obs'][0] if ent['obs'] else None,
                                                                 'raised_model': mob[0] if isinstance(mob, list) and mob else None},
                              dict(base, ops=[e['op'] for e in tr[:ow + 1]]),
                              dict(step=ow, op=ent['op'], path=path, exc=ent.get('exc'), impl=str(ent['obs'])[:700], model=str(mob)[:700]),
                              failing_input=False)
                break
        chk.count('rounded' if rounded else 'exact')
        nmove = sum(1 for e in tr if e['op'][0] not in ('same_scaling',) and not e.get('exc'))
        nsc = sum(1 for e in tr if e['op'][0] in ('scale_range', 'scale_factor', 'shift_value', 'revert') and not e.get('exc'))
        if nmove >= 3 and nsc >= 1 and any(len(s[0]) >= 2 for s in r['inits']):
            keys.append((str(r['inits']), str([e['op'] for e in tr])))
        if len(samples) < 3 and nmove >= 5 and nsc >= 2 and c.get('kind') == 'random':
            samples.append(dict(inits=str(r['inits'])[:300], ops=[e['op'] for e in tr], last_observation=str(tr[-1]['obs'])[:300]))
    chk.record_cases(len(cases), keys,
                     'random DataSet operation sequences (1-3 initial sets built through 5 constructor forms, d 1..8, 0..130 samples on dyadic lattices '
                     '(k/8, integers, scaled, far from the origin, negative) with ties/constant columns, 9 label pools incl. non-contiguous/unsorted/large labels '
                     'and unlabelled samples, <=15 operations out of 16 kinds incl. rejected ones, 30% on the same object as the previous operation) + scripted '
                     'histories on 63..2049 samples + fixed corpus; non-trivial = at least 3 successful operations, at least one successful scaling operation '
                     'and an initial set with >= 2 samples; distinct by (initial sets, operations)',
                     samples)


def replay(chk, rep):
    c = rep['case']
    cases = [c]
    impl = run_impl(impl_run, cases)
    st, r = impl[0]
    print('impl status:', st)
    if st != 'ok':
        print(r)
        return 1
    bad = 0
    for j, ent in enumerate(r['trace']):
        print('step', j, ent['op'], 'raised' if ent.get('exc') else 'ok', ent.get('exc') or '')
        print('   impl observation:', str(ent['obs'])[:500])
        for v in ent['viol']:
            bad += 1
            print('   PROPERTY PREDICATE FAILS:', v['kind'], v['sig'], v['why'])
    mops, owner = model_ops(r['trace'])
    o = run_model(18, [(1, [[it[:2] for it in r['inits']], mops, get_variant()])])[0]
    for m, ow, ob in zip(mops, owner, o if isinstance(o, list) else []):
        if ow is not None:
            st2, path = cmp_obs(r['trace'][ow]['obs'], ob[:2] if r['trace'][ow]['op'][0] in ('mbf', 'remove_labels') else ob)
            print('   model step', ow, ['agrees', 'agrees up to rounding', 'DIFFERS at ' + path][st2], str(ob)[:300] if st2 == 2 else '')
    print('property predicate:', 'violated' if bad else 'holds')
    return 1 if bad else 0
