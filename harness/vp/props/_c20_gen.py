"""C20: source-derived model of the entry computation of Regression.build_C_matrix (DESIGN.md 0.5.1 scheme).
coq/Gen/RegressGen.v is regenerated from the working tree ($VERIF_REPO) by harness/translate/py2gallina_c20.py (a front end of the
shared translator, which is imported, not modified) under the build lock, before the proof obligations are (re)built;
Props/C20gen.v holds the equivalence theorems (generated = C_val false of Model/Regress.v = gradient Gram entry)."""
import fcntl
import hashlib
import os
import re
import subprocess
import sys
from ..core import ROOT, COQ
from .. import gen

TRANSLATOR = os.path.join(ROOT, 'harness', 'translate', 'py2gallina_c20.py')
GEN_FILE = 'RegressGen.v'
GEN_CHAIN = ['Gen/RegressGen.v', 'Proofs/GenRegressEq.v', 'Props/C20gen.v']
EXTRA_PROPS = ('C20gen',)
ASSUMPTION = gen.ASSUMPTION + (
    '; C20 front end (py2gallina_c20.py): the statements of Regression.build_C_matrix that compute the entry `res` for fixed grid points '
    'i, j (from `res = 0.0` to the end of `for k in range(dim)`) are cut out of the AST and translated as two synthetic methods '
    '(c20_C_factor = the loop over m, whose `break` becomes `return temp_res` of the fragment; c20_C_entry = the loop over k calling it); '
    'VIEWS that are part of the trusted scheme: index_list[i][m] -> iv[m], index_list[j][m] -> jv[m], dim = len(levelvec) as a parameter; '
    'the statements around the loop nest (np.zeros, index_list = .. + 1, `for i in range(grid_size)`, `for j in range(i, grid_size)`, '
    'C[i, j] = C[j, i] = res, logging, return C) are checked textually (anything else - a cache, a banded j loop - is rejected) and are '
    'covered by the correspondence implementation matrix = model matrix of every run')


def regenerate(chk):
    with open(os.path.join(ROOT, '.buildlock'), 'w') as lk:
        fcntl.flock(lk, fcntl.LOCK_EX)
        p = subprocess.run([sys.executable, TRANSLATOR], capture_output=True, text=True)
    msg = '\n'.join(l for l in p.stderr.splitlines() if 'conda' not in l).strip()
    chk.checker_cmds.append('/venv/bin/python harness/translate/py2gallina_c20.py  (regenerates coq/Gen/%s from sparseSpACE/GridOperation.py)' % GEN_FILE)
    info = dict(rc=p.returncode, message=msg, target='regress')
    try:
        src = open(os.path.join(COQ, 'Gen', GEN_FILE)).read()
        info['generated_sha256'] = hashlib.sha256(src.encode()).hexdigest()
        info['translated'] = re.findall(r'^\(\* (\S+:\d+-\d+)  (\S+) \*\)$', src, re.M)
    except OSError:
        pass
    chk.extra['source_derived_model'] = info
    return info


def diagnose(chk, info):
    """after coq_obligations: None when the generated model is in place and proved equivalent, else the reason"""
    problem = gen.gen_diagnosis(chk, info, GEN_CHAIN)
    gen.report(chk, info, problem, 'C20_gen_*')
    return problem


def finish(chk, info, problem):
    gen.finish_gen(chk, info, problem)
