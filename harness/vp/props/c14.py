"""C14: interrupted, saved or resumed refinement ends where an uninterrupted run ends.

Per case: one uninterrupted run U = performSpatiallyAdaptiv(final limits Lf) (Lf placed on the values of a probe run; expressed with
explicit arguments or arguments left to their defaults), then for EVERY evaluation index k of U (<= 6 per case, always first and last)
an interrupted HISTORY on a fresh object: 1-3 legs whose limits are drawn independently of each other but all "grow" to Lf (smaller
or equal budget, looser or equal tolerance, smaller or equal minimum) - stopped by max_evaluations, by the tolerance (tie on an observed
error or strictly between two), by min_evaluations, or with limits identical to Lf -, then the final continue_adaptive_refinement(Lf)
(explicit arguments, defaults left implicit, tol=0 after a tolerance stop, positional call), optionally with save_to_file /
restore_from_file before any continuation.  Compared with U: refinement structure, combination scheme, result, point count.

Model (Entry/C14.v sub 1): the arguments are resolved by the model (defaults of the two entry points), `all_growb` (verified checker
for limits_grow) must accept every leg, the single run's limits must be the last leg's limits, and legs_on_stream on U's observation
stream predicts the stop position of every leg and the history arrays / event trace of the whole history (proved to be what the
abstract-state loop does under the idempotence hypothesis: C14_legs_follow_trajectory; with all legs growing the last position is
the single run's stop: C14_legs_grow_end_at_single_stop).  The hypothesis `evaluate (evaluate s) = evaluate s` is checked on the
implementation at every stop (evaluate_operation once more on a deep copy).  dill persistence is a RUNTIME COMPARISON (restored
vs saved instance: result, interpolation, structure, point count), not a proof."""
import copy
import json
import os
import random
from fractions import Fraction

from .. import sx
from ..impl import run_impl
from ..model import run_model
from . import _adaptive as A
from . import _legs as LG
from . import _c14_gen
from .c13 import choose_limits, q, finite

ASSUMPTIONS = [
    'the resume theorems are proved over an abstract deterministic evaluate/refine; their idempotence hypothesis is CHECKED on the '
    'implementation per stop (deep copy, evaluate_operation once more), not proved',
    'dill save/restore: runtime comparison of restored vs saved instance and of the continuation after restore',
    'max_time not modelled; results compared with 1e-12 relative tolerance, structures/schemes/point counts exactly',
    'defaults of the entry points (tol 10**-2 / 10**-3, min_evaluations 1, max_evaluations None) are constants of the model',
    _c14_gen.ASSUMPTION,
]

TOL = 1e-12

# ---------------------------------------------------------------------------------------------- generator


def gen_case(rng, quick=True):
    r = rng.random()
    strat = 'dw' if r < 0.46 else 'es' if r < 0.92 else 'cell'
    dim = 2 if rng.random() < 0.8 else 3
    a = [rng.choice([0, 0, -1]) for _ in range(dim)]
    b = [rng.choice([1, 1, 2]) for _ in range(dim)]
    nout = rng.choice([1, 1, 2])
    comps = A.gen_comps(rng, dim, nout)
    comps, ks = LG.scale_comps(rng, comps)          # magnitudes (resume equality is scale-free)
    exact = A.poly_integral(comps, a, b)
    rr = rng.random()
    if rr < 0.55:
        ref = [float(x) if x != 0 else 2.0 ** k for x, k in zip(exact, ks)]
    elif rr < 0.7:
        ref = [0.0] * nout
    else:
        ref = None
    case = dict(strat=strat, a=a, b=b, comps=comps, ref=ref, norm=rng.choice([0, 0, 1, 2]), boundary=True, lmin=1, lmax=2,
                seed=rng.randrange(1 << 30), errcalc='lib' if rng.random() < 0.5 else ['scripted', rng.randrange(1 << 20)], scales=ks)
    case['reeval'] = rng.random() < 0.4        # performSpatiallyAdaptiv(reevaluate_at_end=True): evaluate_final_combi at every stop
    big = rng.random()
    if strat == 'dw':
        case.update(version=rng.choice([6, 6, 3, 7, 2, 8]), rebalancing=rng.random() < 0.6, boundary=rng.random() < 0.85)
        case['probe_max'] = (rng.choice([35, 50, 70]) if big < 0.9 else 220) if dim == 2 else rng.choice([120, 180])
        if rng.random() < 0.15:
            case['ggrid'] = rng.choice(['lagrange2', 'bspline3'])
        if rng.random() < 0.08:
            case['margin'] = 0.5
    elif strat == 'es':
        # (coarsening version 2 accumulates a result that is not the combination - see the C13 finding on version 2 with
        #  reevaluate_at_end; a re-evaluation at a stop then changes the result the continuation builds on: excluded here)
        case.update(lmax=rng.choice([2, 2, 3]), nrbe=rng.choice([1, 1, 2]), auto=rng.random() < 0.25, version=rng.choice([0, 0, 1]))
        if case['reeval']:
            case['version'] = 0             # (version 1 is rarely stale in the same way: not combined with a re-evaluation at the stops)
        case['probe_max'] = (rng.choice([60, 100, 140]) if big < 0.9 else 450) if dim == 2 else rng.choice([250])
        if rng.random() < 0.1:
            case['single_dim'] = True
        if rng.random() < 0.15:
            case['grid'] = rng.choice(['simpson', 'lagrange2', 'bspline3'])
    else:
        case.update(errcalc='lib' if rng.random() < 0.6 else case['errcalc'], reeval=False)
        case['probe_max'] = rng.choice([50, 90, 140]) if dim == 2 else 200
    return case


def express(rng, lim, first):
    """a leg that MEANS the limits lim = (tol, min, max): arguments equal to the default of the entry point may be left implicit"""
    leg = {'tol': lim[0], 'min': lim[1], 'max': lim[2]}
    default_tol = LG.PERFORM_DEFAULT_TOL if first else LG.CONTINUE_DEFAULT_TOL
    if lim[0] == default_tol and rng.random() < 0.75:
        del leg['tol']
    if lim[1] == 1 and rng.random() < 0.5:
        del leg['min']
    if lim[2] is None and rng.random() < 0.6:
        del leg['max']
    if rng.random() < 0.15:
        leg['style'] = 'pos'
    assert LG.resolve(leg, first) == tuple(lim)
    return leg


def draw_final(rng, case, errs, pts):
    """final limits Lf on the probe's values, incl. tol=0 (refine until the budget is used up) and the two default tolerances"""
    if case.get('reeval') and rng.random() < 0.5:
        # re-evaluation at every stop: runs limited by max_evaluations, final limit on / just below / just above an observed count
        j = rng.randrange(max(1, len(pts) // 2), len(pts)) if len(pts) > 1 else 0
        lf = [-1.0, 1, max(0, pts[j] + rng.choice([-1, -1, 0, 0, 1, 2, -3]))]
    else:
        lf = list(choose_limits(rng, errs, pts))
    r = rng.random()
    j = rng.randrange(len(pts) // 2, len(pts))
    if r < 0.22:
        lf = [rng.choice([0, 0.0]), rng.choice([1, lf[1]]), pts[j] - rng.choice([0, 1])]
    elif r < 0.30:
        lf = [LG.CONTINUE_DEFAULT_TOL, lf[1], pts[j] - rng.choice([0, 1]) if rng.random() < 0.7 else None]
    elif r < 0.38:
        lf = [LG.PERFORM_DEFAULT_TOL, lf[1], pts[j] - rng.choice([0, 1]) if rng.random() < 0.7 else None]
    if LG.first_stop(tuple(lf), errs, pts) is None:
        lf[2] = pts[-1] - 1
    return tuple(lf)


def draw_interruption(rng, lf, errs, pts, pos, t, first):
    """limits of a leg that starts at stream position pos, stops at position t and grows to lf; returns (kind, leg) or None"""
    tolf, mnf, mxf = lf
    finite_errs = [e for e in errs if e == e and abs(e) != float('inf')]
    big = max(finite_errs + [1.0, tolf]) * 2 + 1
    default_tol = LG.PERFORM_DEFAULT_TOL if first else LG.CONTINUE_DEFAULT_TOL
    cands = [('max', (tolf, mnf, pts[t] - 1)), ('max', (max(tolf, -1.0), min(mnf, 1), pts[t] - 1)), ('same', (tolf, mnf, mxf))]
    e = errs[t]
    if e == e and abs(e) != float('inf'):
        for mn in {mnf, min(mnf, 1), min(mnf, pts[t])}:
            for mx in {mxf, pts[-1] if mxf is None else mxf}:
                cands.append(('tol-tie', (e, mn, mx)))
                cands.append(('tol-above', (e * 1.25 + 1e-9, mn, mx)))
    for mx in {mxf, pts[t] + 3}:
        cands.append(('min', (big, pts[t], mx)))
        cands.append(('tol-default', (default_tol, min(mnf, 1), mx)))
    rng.shuffle(cands)
    kinds = {}
    for kind, lim in cands:
        if LG.grows(lim, lf) and LG.first_stop(lim, errs, pts, pos) == t:
            kinds.setdefault(kind, lim)
    if not kinds:
        return None
    order = [k for k in ('tol-tie', 'tol-above', 'min', 'tol-default', 'same', 'max') if k in kinds]
    # prefer the rarer ways of stopping, keep max_evaluations (always available) at about a third
    kind = 'max' if ('max' in kinds and (rng.random() < 0.34 or len(order) == 1)) else rng.choice([k for k in order if k != 'max'] or order)
    return kind, express(rng, kinds[kind], first)


def draw_chain(rng, lf, errs, pts, k, K, allow_save=True, allow_restart=True):
    """interrupted history ending with continue(Lf): 1-3 interruptions, the last one at stream position k (0 <= k <= K)"""
    r = rng.random()
    n = 1 if r < 0.62 else 2 if r < 0.9 else 3
    targets = sorted(rng.randrange(0, k + 1) for _ in range(n - 1)) + [k]
    legs, kinds, pos = [], [], 0
    for t in targets:
        t = max(t, pos)
        got = draw_interruption(rng, lf, errs, pts, pos, t, first=not legs)
        if got is None:
            continue                                       # position t cannot be a stop position of growing limits (e.g. counts repeat)
        kinds.append(got[0])
        legs.append(got[1])
        pos = t
    if not legs:
        legs.append(express(rng, lf, True)); kinds.append('same')
    if allow_restart and rng.random() < 0.15:
        # the other documented way to continue: performSpatiallyAdaptiv(..., refinement_container=<refinement of the stopped run>)
        final = dict(express(rng, lf, True), restart=True)
    else:
        final = express(rng, lf, False)
    legs.append(final)
    for leg in legs[1:]:
        if allow_save and rng.random() < 0.45:
            leg['save'] = True
    return legs, kinds

# ---------------------------------------------------------------------------------------------- implementation


def structure(sa, case):
    if case['strat'] != 'cell':
        return A.structure(sa, case)
    scheme = sorted(([int(x) for x in g.levelvector], A.fl(g.coefficient)) for g in sa.scheme)
    objs = sorted((A.vec(o.start), A.vec(o.end)) for o in sa.refinement.get_objects())
    return dict(scheme=scheme, objs=objs, lmax=[int(x) for x in sa.lmax])


def snapshot(sa, op, case, ret):
    return dict(structure=structure(sa, case), result=A.vec(ret[3]), integral=A.vec(op.integral), points=int(sa.get_total_num_points()),
                distinct=len(set(op.f.log)),      # distinct integrand evaluations of the WHOLE run (the log is saved/restored with f)
                errors=[A.fl(x) for x in ret[5]], surplus=[A.fl(x) for x in ret[7]], num_points=[int(x) for x in ret[6]])


class Runaway(Exception):
    pass


def wrap_events(sa, events, cap=None):
    """cap: a resumed run that double counts may never reach its tolerance again; stop it once it has used far more points than
    the uninterrupted run (it has then certainly left the uninterrupted run's path)"""
    oe, orf = sa.evaluate_operation, sa.refine

    def ev():
        events.append(0)
        return oe()

    def rf():
        if cap is not None and sa.get_total_num_points() > cap:
            raise Runaway()
        events.append(1)
        return orf()
    sa.evaluate_operation, sa.refine = ev, rf


def unwrap(sa):
    for name in ('evaluate_operation', 'refine'):
        sa.__dict__.pop(name, None)


def reevaluation_changes(sa, op, case, ret):
    """the theorem's hypothesis on the implementation: evaluate_operation on the evaluated state changes nothing observable"""
    sc = copy.deepcopy(sa)
    unwrap(sc)
    before = dict(result=A.vec(sc.operation.integral), points=int(sc.get_total_num_points()), structure=structure(sc, case))
    with A.quiet():
        err, sur = sc.evaluate_operation()
    after = dict(result=A.vec(sc.operation.integral), points=int(sc.get_total_num_points()), structure=structure(sc, case))
    changed = [k for k in ('points', 'structure') if before[k] != after[k]]
    if not close_vec(before['result'], after['result'], LG.magnitude(case)):
        changed.append('result')
    e0, e1 = float(ret[5][-1]), float(err)
    if not (abs(e0 - e1) <= 1e-9 * (abs(e0) + abs(e1)) or e0 == e1):
        changed.append('error')             # the error the stopping rule looks at
    elif not (abs(float(sur) - float(ret[7][-1])) <= 1e-9 * (abs(float(sur)) + abs(float(ret[7][-1]))) or float(sur) == float(ret[7][-1])):
        changed.append('surplus')           # only the surplus estimate that is reported next to it
    return changed, dict(error_before=e0, error_after=e1, result_before=[A.unfl(x) for x in before['result']],
                         result_after=[A.unfl(x) for x in after['result']])


def compare_restored(saved, restored, case, rng):
    import numpy as np
    diffs = []
    if A.vec(saved.operation.integral) != A.vec(restored.operation.integral):
        diffs.append('result')
    if int(saved.get_total_num_points()) != int(restored.get_total_num_points()):
        diffs.append('points')
    if structure(saved, case) != structure(restored, case):
        diffs.append('structure')
    for name in ('error_array', 'num_point_array', 'surplus_error_array', 'tolerance', 'reevaluate_at_end', 'lmax', 'lmin'):
        if repr(getattr(saved, name, None)) != repr(getattr(restored, name, None)):
            diffs.append(name)
    pts = [tuple(float(Fraction(rng.randrange(0, 33), 32)) * (bb - aa) + aa for aa, bb in zip(case['a'], case['b'])) for _ in range(5)]
    try:
        # (on deep copies: interpolation may evaluate, through the cache, integrand points the quadrature has not used - the instance
        #  that is continued must not be touched by the comparison)
        with A.quiet():
            v1 = np.asarray(copy.deepcopy(saved)(pts)); v2 = np.asarray(copy.deepcopy(restored)(pts))
        if not np.array_equal(v1, v2):
            diffs.append('interpolation')
    except Exception as e:
        diffs.append('interpolation-exc:' + type(e).__name__)
    return diffs


def run_history(case, legs, rng, tag, cap, check_hypothesis=True):
    """one history on a fresh object; per leg: snapshot at its stop, hypothesis check, save/restore before a continuation"""
    from sparseSpACE.StandardCombi import StandardCombi
    sa, op, f, eo = A.build(case)
    events = []
    wrap_events(sa, events, cap)
    out = []
    for i, leg in enumerate(legs):
        rec = dict(saved=bool(leg.get('save')) and i > 0)
        if rec['saved']:
            unwrap(sa)                                    # closures of the harness are not part of the instance
            path = os.path.join(os.environ.get('VERIF_WORK', '/verif/.work/C14'), 'inst-%s-%d-%d.dill' % (tag, i, os.getpid()))
            with A.quiet():
                sa.save_to_file(path)
                restored = StandardCombi.restore_from_file(path)
            os.remove(path)
            rec['restore_diffs'] = compare_restored(sa, restored, case, rng)
            sa, op = restored, restored.operation
            wrap_events(sa, events, cap)
        e0 = len(events)
        try:
            if i == 0:
                r = LG.call_perform(sa, eo, case, leg, reevaluate_at_end=bool(case.get('reeval')))
            elif leg.get('restart'):
                r = LG.call_perform(sa, sa.errorEstimator, case, leg, reevaluate_at_end=bool(case.get('reeval')), refinement_container=sa.refinement)
            else:
                r = LG.call_continue(sa, leg)
        except Runaway:
            r = (None, None, None, op.integral, None, sa.error_array, sa.num_point_array, sa.surplus_error_array)
            rec['runaway'] = True
        rec['events'] = events[e0:]
        rec['snap'] = snapshot(sa, op, case, r)
        if check_hypothesis and not rec.get('runaway'):
            rec['reevaluation_changes'], rec['reevaluation_detail'] = reevaluation_changes(sa, op, case, r)
        out.append(rec)
        if rec.get('runaway'):
            break
    return out


CK_KINDS = ['restore-continue-restore', 'two-restores-continue-each', 'saved-continued-then-restore', 'resave-same-path', 'two-checkpoints']


def interp_points(case):
    return [tuple(float(Fraction(n, 32)) * (bb - aa) + aa for aa, bb in zip(case['a'], case['b'])) for n in (3, 11, 16, 22, 29)]


def observables(sa, case):
    """the state of an instance as data (the instance itself is not touched: interpolation on a deep copy)"""
    import numpy as np
    d = dict(structure=structure(sa, case), integral=A.vec(sa.operation.integral), points=int(sa.get_total_num_points()),
             errors=[A.fl(x) for x in sa.error_array], num_points=[int(x) for x in sa.num_point_array],
             surplus=[A.fl(x) for x in sa.surplus_error_array], cache=len(sa.operation.f.f_dict), log=len(set(sa.operation.f.log)),
             attrs=repr([getattr(sa, n, None) for n in ('tolerance', 'reevaluate_at_end', 'lmax', 'lmin', 'refinements', 'counter')]))
    try:
        sc = copy.deepcopy(sa)
        unwrap(sc)
        with A.quiet():
            d['interpolation'] = [A.vec(v) for v in np.asarray(sc(interp_points(case)))]
    except Exception as e:
        d['interpolation'] = 'exc:' + type(e).__name__
    return d


def obs_diff(a, b):
    return sorted(k for k in a if a[k] != b.get(k))


def shared_state(x, y):
    """objects two instances have in common (a restored instance must share NOTHING mutable with any other instance)"""
    out = []
    if x is y:
        return ['instance']
    for name, get in (('refinement', lambda s: s.refinement), ('operation', lambda s: s.operation), ('function', lambda s: s.operation.f),
                      ('function-cache', lambda s: s.operation.f.f_dict), ('scheme', lambda s: s.scheme), ('grid', lambda s: s.grid),
                      ('error_array', lambda s: s.error_array), ('num_point_array', lambda s: s.num_point_array)):
        try:
            if get(x) is get(y):
                out.append(name)
        except AttributeError:
            pass
    try:
        ids = {id(o) for o in A.all_objects(y)}
        if any(id(o) in ids for o in A.all_objects(x)):
            out.append('refinement-objects')
    except Exception:
        pass
    return out


def checkpoint_scenario(case, spec, lf, single_snap, rng, cap):
    """several restores of ONE checkpoint file in one process, interleaved with continuations; every restored object is compared
    with the instance AS SAVED (observables recorded at save time), every continuation with the uninterrupted run / its stream.
    spec: dict(kind, l1 (first call, stops at stream position k), lm (intermediate continuation, stops at p) | None, k, p)"""
    from sparseSpACE.StandardCombi import StandardCombi
    work = os.environ.get('VERIF_WORK', '/verif/.work/C14')
    base = 'ckpt-%d-%d' % (os.getpid(), rng.randrange(1 << 30))
    checks, steps = [], []
    final = {'tol': lf[0], 'min': lf[1], 'max': lf[2]}
    lm = spec.get('lm') or final
    nrestores = [0]

    def spelling(name):
        """the same file under different spellings of its path (the workers' current directory is the work directory)"""
        i = nrestores[0]
        nrestores[0] += 1
        return [os.path.join(work, name), name, './' + name, os.path.join(work, '.', name)][i % 4]

    def save(inst, name):
        unwrap(inst)
        with A.quiet():
            inst.save_to_file(spelling(name))
        steps.append('save(%s)' % name)

    def restore(name, label):
        with A.quiet():
            r = StandardCombi.restore_from_file(spelling(name))
        steps.append('%s=restore(%s)' % (label, name))
        return r

    def cont(inst, leg, label):
        ev = []
        wrap_events(inst, ev, cap)
        try:
            LG.call_continue(inst, leg)
            ok = True
        except Runaway:
            ok = False
        unwrap(inst)
        steps.append('continue(%s, %s)' % (label, ', '.join('%s=%r' % (k, leg[k]) for k in ('tol', 'min', 'max') if k in leg) or 'defaults'))
        return ok

    def expect_saved(inst, obs, what):
        d = obs_diff(obs, observables(inst, case))
        checks.append(dict(check='restored-equals-saved', what=what, ok=not d, differs=d, after=list(steps)))

    def expect_independent(objs):
        for i in range(len(objs)):
            for j in range(i + 1, len(objs)):
                sh = shared_state(objs[i][1], objs[j][1])
                checks.append(dict(check='independent', what='%s / %s' % (objs[i][0], objs[j][0]), ok=not sh, differs=sh, after=list(steps)))

    def expect_unmoved(inst, obs, what):
        d = obs_diff(obs, observables(inst, case))
        checks.append(dict(check='unmoved', what=what, ok=not d, differs=d, after=list(steps)))

    def expect_end(inst, ok, what, calls):
        snap = dict(structure=structure(inst, case), result=A.vec(inst.operation.get_result()), points=int(inst.get_total_num_points()))
        d = same_end(snap, single_snap, LG.magnitude(case)) if ok else ['does-not-stop']
        if int(inst.get_total_num_points()) != len(set(inst.operation.f.log)):
            d.append('point-count!=distinct-evaluations')
        checks.append(dict(check='ends-where-uninterrupted-run-ends', what=what, ok=not d, differs=d, after=list(steps),
                           position=len(inst.error_array) - calls, points=int(inst.get_total_num_points())))

    def expect_position(inst, ok, what, calls):
        pos = len(inst.error_array) - calls
        d = [] if (ok and pos == spec['p']) else ['position %s, expected %s' % (pos if ok else 'none (does not stop)', spec['p'])]
        checks.append(dict(check='intermediate-stop-position', what=what, ok=not d, differs=d, after=list(steps), position=pos))

    sa, op, f, eo = A.build(case)
    ev0 = []
    wrap_events(sa, ev0, cap)
    LG.call_perform(sa, eo, case, spec['l1'], reevaluate_at_end=bool(case.get('reeval')))
    unwrap(sa)
    steps.append('sa=perform(%s)' % ', '.join('%s=%r' % (k, spec['l1'][k]) for k in ('tol', 'min', 'max') if k in spec['l1']))
    obs0 = observables(sa, case)
    kind = spec['kind']
    P = base + '.dill'
    try:
        if kind == 'restore-continue-restore':
            save(sa, P)
            r1 = restore(P, 'r1'); expect_saved(r1, obs0, 'r1 (first restore)')
            ok1 = cont(r1, lm, 'r1'); expect_position(r1, ok1, 'r1 continued with intermediate limits', 2)
            o1 = observables(r1, case)
            r2 = restore(P, 'r2'); expect_saved(r2, obs0, 'r2 (restore after r1 was continued)')
            expect_independent([('saved', sa), ('r1', r1), ('r2', r2)])
            ok2 = cont(r2, final, 'r2'); expect_end(r2, ok2, 'r2 continued with the final limits', 2)
            expect_unmoved(r1, o1, 'r1 while r2 was continued'); expect_unmoved(sa, obs0, 'the saved instance while its copies were continued')
        elif kind == 'two-restores-continue-each':
            save(sa, P)
            r1 = restore(P, 'r1'); r2 = restore(P, 'r2')
            expect_saved(r1, obs0, 'r1'); expect_saved(r2, obs0, 'r2 (second restore of the same file)')
            expect_independent([('saved', sa), ('r1', r1), ('r2', r2)])
            ok1 = cont(r1, final, 'r1'); expect_end(r1, ok1, 'r1 continued with the final limits', 2)
            expect_unmoved(r2, obs0, 'r2 while r1 was continued')
            ok2 = cont(r2, lm, 'r2'); expect_position(r2, ok2, 'r2 continued with intermediate limits', 2)
            ok2 = ok2 and cont(r2, final, 'r2'); expect_end(r2, ok2, 'r2 continued again with the final limits', 3)
        elif kind == 'saved-continued-then-restore':
            save(sa, P)
            ok0 = cont(sa, final, 'sa'); expect_end(sa, ok0, 'the saved instance itself continued with the final limits', 2)
            r1 = restore(P, 'r1'); expect_saved(r1, obs0, 'r1 (restore after the saved instance was continued)')
            expect_independent([('saved', sa), ('r1', r1)])
            ok1 = cont(r1, final, 'r1'); expect_end(r1, ok1, 'r1 continued with the final limits', 2)
        elif kind == 'resave-same-path':
            save(sa, P)
            r1 = restore(P, 'r1'); expect_saved(r1, obs0, 'r1')
            ok1 = cont(r1, lm, 'r1'); expect_position(r1, ok1, 'r1 continued with intermediate limits', 2)
            o1 = observables(r1, case)
            save(r1, P)                                      # the same file, rewritten at once (same second) with another state
            r2 = restore(P, 'r2'); expect_saved(r2, o1, 'r2 (restore of the rewritten file)')
            expect_independent([('saved', sa), ('r1', r1), ('r2', r2)])
            ok2 = cont(r2, final, 'r2'); expect_end(r2, ok2, 'r2 continued with the final limits', 3)
            expect_unmoved(r1, o1, 'r1 while r2 was continued')
        else:                                                # two checkpoint files of different states written within the same second
            P2 = base + '-b.dill'
            save(sa, P)
            ok0 = cont(sa, lm, 'sa'); expect_position(sa, ok0, 'the saved instance continued with intermediate limits', 2)
            o1 = observables(sa, case)
            save(sa, P2)
            ra = restore(P, 'ra'); rb = restore(P2, 'rb')
            expect_saved(ra, obs0, 'ra (first checkpoint)'); expect_saved(rb, o1, 'rb (second checkpoint)')
            expect_independent([('saved', sa), ('ra', ra), ('rb', rb)])
            oka = cont(ra, final, 'ra'); expect_end(ra, oka, 'ra continued with the final limits', 2)
            okb = cont(rb, final, 'rb'); expect_end(rb, okb, 'rb continued with the final limits', 3)
            os.remove(os.path.join(work, P2))
    finally:
        for name in (P,):
            try:
                os.remove(os.path.join(work, name))
            except OSError:
                pass
    return dict(spec=spec, checks=checks, steps=steps, first_stop=len(obs0['errors']) - 1)


def draw_checkpoint_spec(rng, lf, uerrs, upts, K):
    k = rng.randrange(0, K + 1)
    got = draw_interruption(rng, lf, uerrs, upts, 0, k, True)
    if got is None:
        k = K
        got = ('same', express(rng, lf, True))
    l1 = {x: v for x, v in got[1].items() if x != 'style'}
    k = LG.first_stop(LG.resolve(l1, True), uerrs, upts, 0)
    p = rng.randrange(k, K + 1)
    gm = draw_interruption(rng, lf, uerrs, upts, k, p, False)
    lm = None
    if gm is not None:
        lm = {x: v for x, v in gm[1].items() if x != 'style'}
        p = LG.first_stop(LG.resolve(lm, False), uerrs, upts, k)
    else:
        p = K
    return dict(kind=rng.choice(CK_KINDS), l1=l1, lm=lm, k=k, p=p)


def impl_run(case):
    rng = random.Random(case['seed'])
    # probe: values on which the final limits are placed
    sp, opp, fp, eop = A.build(case)
    rp = LG.call_perform(sp, eop, case, {'tol': -1.0, 'min': 1, 'max': case['probe_max']})
    errs = [float(x) for x in rp[5]]
    pts = [int(x) for x in rp[6]]
    if case.get('l2') is not None and case.get('final') is None:           # cases of round 1 (corpus, exemplars, old replays)
        l2 = case['l2']
        lf = (A.unfl(l2[0]) if isinstance(l2[0], str) else l2[0], l2[1], l2[2])
        single_leg = {'tol': lf[0], 'min': lf[1], 'max': lf[2]}
    elif case.get('single') is not None:
        single_leg = case['single']
        lf = LG.resolve(single_leg, True)
    else:
        lf = draw_final(rng, case, errs, pts)
        single_leg = express(rng, lf, True)
    # uninterrupted run with the final limits
    single = run_history(case, [single_leg], rng, 'single', cap=None, check_hypothesis=False)[0]
    ssnap = single['snap']
    uerrs = [A.unfl(x) for x in ssnap['errors']]
    upts = ssnap['num_points']
    K = len(uerrs) - 1
    chains = case.get('chains')
    if chains is None:
        ks = case.get('ks')
        if ks is None:
            ks = list(range(K + 1))
            if len(ks) > 6:
                ks = sorted(set([0, K] + rng.sample(range(1, K), 4)))
        chains = []
        for k in ks:
            if case.get('l2') is not None and case.get('final') is None:
                # round-1 shape: one interruption by max_evaluations (identical limits at the last index), explicit arguments
                l1 = dict(single_leg) if k >= K else {'tol': lf[0], 'min': lf[1], 'max': upts[k] - 1}
                legs = [l1, dict(single_leg, **({'save': True} if case.get('save', (k + case['seed']) % 2 == 1) else {}))]
                kinds = ['same' if k >= K else 'max']
            else:
                legs, kinds = draw_chain(rng, lf, uerrs, upts, k, K, allow_restart=(case['strat'] != 'cell'))
            chains.append(dict(k=k, legs=legs, kinds=kinds))
    runs = []
    for ci, ch in enumerate(chains):
        recs = run_history(case, ch['legs'], rng, 'c%d' % ci, cap=4 * ssnap['points'] + 200)
        runs.append(dict(k=ch.get('k'), legs=ch['legs'], kinds=ch.get('kinds', []), recs=recs))
    # several restores of ONE checkpoint file in one process
    ck = None
    spec = case.get('checkpoint')
    if spec is None and case.get('chains') is None and case.get('l2') is None and rng.random() < 0.8:
        spec = draw_checkpoint_spec(rng, lf, uerrs, upts, K)
    if spec is not None:
        ck = checkpoint_scenario(case, spec, lf, ssnap, rng, cap=4 * ssnap['points'] + 200)
    return dict(lf=[A.fl(float(lf[0])), lf[1], lf[2]], lf_tol_is_int=isinstance(lf[0], int), single_leg=single_leg, single=single, runs=runs, checkpoint=ck)

# ---------------------------------------------------------------------------------------------- comparison


def close_vec(a, b, mag=1.0):
    """equal up to rounding RELATIVE to the magnitude of the problem (mag: bound for the size of the terms that are summed)"""
    for x, y in zip(a, b):
        u, v = A.unfl(x), A.unfl(y)
        if not (abs(u - v) <= TOL * (abs(u) + abs(v) + mag)):
            return False
    return len(a) == len(b)


def same_end(fin, single, mag=1.0):
    diffs = []
    if fin['structure']['objs'] != single['structure']['objs'] or fin['structure']['lmax'] != single['structure']['lmax']:
        diffs.append('structure')
    if fin['structure']['scheme'] != single['structure']['scheme']:
        diffs.append('scheme')
    if not close_vec(fin['result'], single['result'], mag):
        diffs.append('result')
    if fin['points'] != single['points']:
        diffs.append('points')
    return diffs


def leg_text(leg, first, legs=None):
    args = ', '.join('%s=%r' % (k, leg[k]) for k in ('tol', 'min', 'max') if k in leg)
    if leg.get('restart') and not first:
        return 'performSpatiallyAdaptiv(%s)%s' % (', '.join(x for x in (args, 'refinement_container=<refinement of the stopped run>') if x),
                                                 ' after save/restore' if leg.get('save') else '')
    return '%s(%s)%s' % ('performSpatiallyAdaptiv' if first else 'continue_adaptive_refinement', args or 'defaults',
                         ' after save/restore' if leg.get('save') and not first else '')


def check_case(chk, case, r, mjobs):
    single = r['single']['snap']
    stream = list(zip(single['errors'], single['surplus'], single['num_points']))
    numbers_ok = all(finite(e) and finite(s) for e, s, _ in stream)
    base = len(mjobs)
    if numbers_ok:
        for run in r['runs']:
            mjobs.append((1, [[LG.enc_args(l, j) for j, l in enumerate(run['legs'])], LG.enc_args(r['single_leg']), LG.enc_stream(stream)]))

    ck_job = None
    if numbers_ok and r.get('checkpoint'):
        sp = r['checkpoint']['spec']
        lfin = LG.resolve(r['single_leg'], True)
        ck_legs = [sp['l1']] + ([sp['lm']] if sp.get('lm') else []) + [{'tol': lfin[0], 'min': lfin[1], 'max': lfin[2]}]
        ck_job = len(mjobs)
        mjobs.append((1, [[LG.enc_args(l, j) for j, l in enumerate(ck_legs)], LG.enc_args(r['single_leg']), LG.enc_stream(stream)]))

    def evaluate(mres):
        K = len(single['errors']) - 1
        lf = LG.resolve(r['single_leg'], True)
        ck = r.get('checkpoint')
        if ck is not None and ck_job is not None:
            # the stop positions the scenario expects (checkpoint at k, intermediate continuation at p, final continuation at K) are the
            # ones the proved stream function computes for the calls of one copy: perform(l1); continue(lm); continue(final)
            m = mres[ck_job]
            sp = ck['spec']
            want = [sp['k']] + ([sp['p']] if sp.get('lm') else []) + [K]
            got = None if (sx.is_err(m) or isinstance(m, tuple)) else [x[0] for x in m[3]]
            if got != want or not m[0] or not m[1]:
                chk.violation('corr:C14/checkpoint', 'checkpoint-positions-differ', {'strat': case['strat']}, dict(case, single=r['single_leg'], chains=[], checkpoint=sp),
                              dict(model=str(m)[:300], expected=want), failing_input=False)
        if ck is not None:
            kinds = {'restored-equals-saved': ('oracle:restore', 'restore-differs'), 'independent': ('oracle:restore', 'restore-shares-state'),
                     'unmoved': ('oracle:restore', 'instance-moved-by-another'), 'ends-where-uninterrupted-run-ends': ('oracle:resume', 'resume-differs'),
                     'intermediate-stop-position': ('oracle:resume', 'resume-position-differs')}
            ckcase = dict(case, single=r['single_leg'], chains=[], checkpoint=ck['spec'])
            for key in ('l2', 'ks', 'save'):
                ckcase.pop(key, None)
            for c in ck['checks']:
                chk.count('checkpoint check %s: %s' % (c['check'], 'ok' if c['ok'] else 'FAILS'))
                if not c['ok']:
                    check, kind = kinds[c['check']]
                    sg = {'strat': case['strat'], 'scenario': ck['spec']['kind']}
                    if kind == 'resume-differs':
                        sg.update(reevaluation_changes='none', restart=False)
                    else:
                        sg['what'] = ','.join(c['differs'])[:80]
                    chk.violation(check, kind, sg, ckcase, dict(what=c['what'], differs=c['differs'], history=' ; '.join(c['after']),
                                                               uninterrupted_run=leg_text(r['single_leg'], True), stops_at=K))
        for i, run in enumerate(r['runs']):
            legs, recs = run['legs'], run['recs']
            changed_any = []
            for rec in recs:
                ch = rec.get('reevaluation_changes') or []
                if 'surplus' in ch:
                    chk.count('re-evaluation changes only the reported surplus error (%s)' % case['strat'])
                changed_any += [x for x in ch if x != 'surplus']
            cause = 'none' if not changed_any else 'result' if 'result' in changed_any else 'error' if 'error' in changed_any else changed_any[0]
            restart = any(l.get('restart') for l in legs)
            sig = {'strat': case['strat'], 'reevaluation_changes': cause, 'restart': restart}
            fcase = dict(case, single=r['single_leg'], chains=[dict(legs=legs, kinds=run['kinds'], k=run['k'])])
            for key in ('l2', 'ks', 'save'):
                fcase.pop(key, None)
            final = recs[-1]['snap']
            complete = len(recs) == len(legs) and not recs[-1].get('runaway')
            diffs = same_end(final, single, LG.magnitude(case)) + ([] if complete else ['does-not-stop (aborted by the harness at 4x the points)'])
            # stream position of every stop (every continuation re-evaluates the position it starts from; a restart empties the arrays)
            stops, off = [], 0
            for j, rec in enumerate(recs):
                if j > 0 and legs[j].get('restart'):
                    off = stops[-1] + j
                stops.append(off + len(rec['snap']['errors']) - (j + 1))
            text = '; '.join(leg_text(l, j == 0, legs) for j, l in enumerate(legs))
            if diffs:
                chk.violation('oracle:resume', 'resume-differs', sig, fcase,
                              dict(history=text, stopped_at_evaluations=stops, uninterrupted_run=leg_text(r['single_leg'], True), stops_at=K,
                                   differs=diffs, saved_and_restored=[bool(rec['saved']) for rec in recs],
                                   uninterrupted=dict(result=[A.unfl(x) for x in single['result']], points=single['points']),
                                   resumed=dict(result=[A.unfl(x) for x in final['result']], points=final['points']),
                                   reevaluation=[rec.get('reevaluation_detail') for rec in recs if rec.get('reevaluation_changes')][:1]))
            for j, rec in enumerate(recs):
                snap = rec['snap']
                if snap['points'] != snap['distinct']:
                    chk.violation('oracle:points', 'point-count-differs', {'strat': case['strat'], 'reeval': bool(case.get('reeval'))}, fcase,
                                  dict(at='stop of call %d' % j, history=text, saved_and_restored=rec['saved'], reported_points=snap['points'],
                                       distinct_integrand_evaluations_whole_run=snap['distinct']))
                    break
            for j, rec in enumerate(recs):
                if rec['saved'] and rec.get('restore_diffs'):
                    chk.violation('oracle:restore', 'restore-differs', {'strat': case['strat'], 'what': ','.join(rec['restore_diffs'])}, fcase,
                                  dict(before_call=j, differs=rec['restore_diffs']))
            chk.count('hypothesis evaluate-idempotent %s (%s%s)' % ('violated' if changed_any else 'holds', case['strat'], ': ' + cause if changed_any else ''))
            # model: growth of the limits (verified checker), positions and history arrays of the whole history
            if numbers_ok:
                m = mres[base + i]
                if sx.is_err(m) or isinstance(m, tuple):
                    chk.violation('corr:C14/resume', 'model-rejects', sig, fcase, dict(model=str(m)[:300]), failing_input=False)
                    continue
                grow_ok, same_limits, single_stop, prefixes, mlims, mlf = m
                if not all(LG.same_limits(ml, hl) for ml, hl in zip(mlims, LG.resolve_history(legs))) or not LG.same_limits(mlf, lf):
                    chk.violation('corr:C14/resume', 'limits-resolution-differs', sig, fcase, dict(model=str(mlims) + str(mlf), history=text), failing_input=False)
                    continue
                if not grow_ok or not same_limits:
                    # generator error (never on a correct harness): the history is not an instance of the theorem
                    chk.violation('checker:limits_growb', 'history-does-not-grow-to-final-limits', sig, fcase,
                                  dict(history=text, all_growb=grow_ok, last_is_single=same_limits), failing_input=False)
                    continue
                if changed_any:
                    continue            # the theorem's hypothesis fails on the implementation: the model predicts nothing
                cum = []
                bad = []
                if single_stop != K:
                    bad.append('single-run-stop-index')
                for j, rec in enumerate(recs):
                    cum = cum + rec['events']
                    pre = prefixes[j]
                    if len(pre) != 2:
                        bad.append('call-%d-leaves-the-stream' % j)
                        break
                    pos, st = pre
                    got = dict(pos=stops[j], errs=[q(x) for x in rec['snap']['errors']], pts=rec['snap']['num_points'], trace=cum)
                    pred = dict(pos=pos, errs=[sx.q(x) for x in st[0]], pts=st[2], trace=st[3])
                    if j > 0 and legs[j].get('restart'):
                        # performSpatiallyAdaptiv empties the history arrays: they hold the stream segment from the previous stop on
                        pred['errs'] = [q(e) for e, _, _ in stream[stops[j - 1]:pos + 1]]
                        pred['pts'] = [p for _, _, p in stream[stops[j - 1]:pos + 1]]
                    if case.get('reeval') or any(l.get('restart') for l in legs[:j + 1]):
                        # (a restart re-evaluates everything from scratch as well)
                        # evaluate_final_combi at a stop recomputes the combination from scratch (other summation order, and it may
                        # evaluate component-grid points the incremental evaluation skipped): the continuation's error values equal
                        # those of the uninterrupted run only up to rounding and the count recorded by its first (re-)evaluation may
                        # be larger; the DECISIONS (positions, event trace) must be those of the model
                        # (C14_resume_equals_uninterrupted_upto: states equivalent, not equal)
                        bad += ['call-%d-%s' % (j, k) for k in ('pos', 'trace') if got[k] != pred[k]]
                    else:
                        bad += ['call-%d-%s' % (j, k) for k in got if got[k] != pred[k]]
                    if bad:
                        break
                if complete and prefixes and len(prefixes[-1]) == 2 and prefixes[-1][0] != single_stop:
                    bad.append('model-resume-index')        # (contradicts C14_legs_grow_end_at_single_stop: cannot happen)
                if bad and diffs:
                    chk.count('model/implementation difference already reported by the property predicate (concrete failing input)')
                elif bad:
                    chk.violation('corr:C14/resume', 'resume-history-differs', dict(sig, observable=','.join(sorted(set(x.split('-', 2)[-1] for x in bad)))), fcase,
                                  dict(history=text, differs=bad, model_positions=[p[0] for p in prefixes], impl_positions=stops, single_stop=[single_stop, K]),
                                  failing_input=False)
            chk.traces += 1
    return evaluate


CORPUS = [
    # re-evaluation at every stop, max_evaluations-limited, dimension-wise with rebalancing (points leave the scheme)
    dict(strat='dw', a=[0, 0], b=[1, 1], comps=[[[1, [2, 0]], [3, [1, 3]]]], ref=[0.7083333333333334], norm=0, boundary=True, lmin=1, lmax=2, seed=14,
         errcalc=['scripted', 5], version=6, rebalancing=True, probe_max=70, reeval=True),
    dict(strat='dw', a=[0, 0], b=[1, 1], comps=[[[1, [2, 0]], [3, [1, 3]]]], ref=[0.7083333333333334], norm=0, boundary=True, lmin=1, lmax=2, seed=15,
         errcalc='lib', version=3, rebalancing=True, probe_max=70, reeval=True),
    # exemplars of the known findings (round-1 shape: one interruption by max_evaluations, explicit arguments)
    dict(strat='es', a=[0, 0], b=[1, 1], comps=[[[1, [2, 0]], [3, [1, 3]]]], ref=[0.7083333333333334], norm=0, boundary=True, lmin=1, lmax=2, seed=11,
         errcalc='lib', nrbe=1, auto=False, probe_max=100, l2=[-1.0, 1, 60]),
    dict(strat='dw', a=[0, 0], b=[1, 1], comps=[[[1, [2, 0]], [3, [1, 3]]]], ref=None, norm=0, boundary=True, lmin=1, lmax=2, seed=12,
         errcalc='lib', version=6, rebalancing=True, probe_max=70, l2=[0.03, 1, None]),
    dict(strat='dw', a=[0, 0], b=[1, 1], comps=[[[1, [2, 0]], [3, [1, 3]]]], ref=[0.7083333333333334], norm=0, boundary=True, lmin=1, lmax=2, seed=13,
         errcalc='lib', version=6, rebalancing=True, probe_max=70, l2=[0.008, 30, 100]),
    # tolerance stop, then tol=0 with a larger budget (int and float zero, with and without save/restore, defaults left implicit)
    dict(strat='es', a=[0, 0], b=[1, 1], comps=[[[1, [2, 0]], [3, [1, 3]]]], ref=[0.7083333333333334], norm=0, boundary=True, lmin=1, lmax=2, seed=16,
         errcalc='lib', nrbe=1, auto=False, probe_max=200, single={'tol': 0, 'max': 150},
         chains=[dict(legs=[{'max': 150}, {'tol': 0, 'max': 150}]), dict(legs=[{'tol': 0.02, 'min': 1, 'max': 150}, {'tol': 0.0, 'max': 150, 'save': True}]),
                 dict(legs=[{'tol': 0.02, 'max': 100}, {'tol': 0.012, 'max': 150, 'min': 1, 'style': 'pos'}, {'tol': 0, 'max': 150, 'min': 1, 'style': 'pos'}])]),
    dict(strat='dw', a=[0, 0], b=[1, 1], comps=[[[1, [2, 0]], [3, [1, 3]]]], ref=[0.7083333333333334], norm=0, boundary=True, lmin=1, lmax=2, seed=17,
         errcalc='lib', version=6, rebalancing=True, probe_max=200, single={'tol': 0.0, 'max': 120},
         chains=[dict(legs=[{'max': 120}, {'tol': 0.0, 'max': 120}]), dict(legs=[{'tol': 0.02, 'max': 120}, {'tol': 0, 'max': 120, 'save': True}]),
                 dict(legs=[{'tol': 0.03, 'max': 90}, {'max': 100}, {'tol': 0, 'max': 120}])]),
    # continuing through performSpatiallyAdaptiv(refinement_container=...): exemplar of the known finding (extend-split) and the
    # dimension-wise counterpart (holds)
    dict(strat='es', a=[0, 0], b=[1, 1], comps=[[[1, [2, 0]], [3, [1, 3]]]], ref=[0.7083333333333334], norm=0, boundary=True, lmin=1, lmax=2, seed=19,
         errcalc='lib', nrbe=1, auto=False, probe_max=120, single={'tol': -1.0, 'max': 100},
         chains=[dict(legs=[{'tol': -1.0, 'max': 40}, {'tol': -1.0, 'max': 100, 'restart': True}])]),
    dict(strat='dw', a=[0, 0], b=[1, 1], comps=[[[1, [2, 0]], [3, [1, 3]]]], ref=[0.7083333333333334], norm=0, boundary=True, lmin=1, lmax=2, seed=20,
         errcalc='lib', version=6, rebalancing=True, probe_max=120, single={'tol': -1.0, 'max': 100},
         chains=[dict(legs=[{'tol': -1.0, 'max': 40}, {'tol': -1.0, 'max': 100, 'restart': True}]),
                 dict(legs=[{'tol': 0.02, 'max': 100}, {'max': 60, 'tol': -1.0, 'save': True}, {'tol': -1.0, 'max': 100, 'restart': True, 'save': True}])]),
    # the final limits are the DEFAULTS of continue_adaptive_refinement / performSpatiallyAdaptiv
    dict(strat='dw', a=[0, 0], b=[1, 1], comps=[[[1, [2, 0]], [3, [1, 3]]]], ref=[0.7083333333333334], norm=0, boundary=True, lmin=1, lmax=2, seed=18,
         errcalc='lib', version=6, rebalancing=True, probe_max=300, single={'tol': 0.001},
         chains=[dict(legs=[{}, {}]), dict(legs=[{'tol': 0.02}, {'save': True}]), dict(legs=[{'max': 60}, {'tol': 0.001, 'min': 1}])]),
]


def run(chk):
    gen_info = _c14_gen.regenerate(chk)      # source-derived new-object marker: regenerated BEFORE the obligations are rebuilt
    chk.coq_obligations(extra_props=_c14_gen.EXTRA_PROPS)
    gen_problem = _c14_gen.diagnose(chk, gen_info)
    n = chk.n(84, 700)
    cases = CORPUS + [gen_case(chk.rng, chk.quick) for _ in range(n)]
    impl = run_impl(impl_run, cases, limit=150)
    mjobs, todo, keys, samples = [], [], [], []
    for c, (st, r) in zip(cases, impl):
        chk.count('strat=' + c['strat']); chk.count('ref=' + ('none' if c['ref'] is None else 'zero' if all(x == 0 for x in c['ref']) else 'given'))
        sc = c.get('scales') or [0]
        chk.count('integrand scale 2^k: %s' % ('k=0' if set(sc) == {0} else 'mixed over components' if len(set(sc)) > 1 else 'k=%d' % sc[0]))
        chk.count('reevaluate_at_end=%s' % bool(c.get('reeval'))); chk.count('dim=%d' % len(c['a'])); chk.count('norm=%d' % c['norm'])
        for k in ('version', 'rebalancing', 'nrbe', 'auto', 'grid', 'ggrid', 'single_dim', 'margin', 'boundary'):
            if k in c:
                chk.count('%s:%s=%s' % (c['strat'], k, c[k]))
        if st != 'ok':
            where = r[1] if r else ''
            if st == 'exc' and 'spatiallyAdaptiveBase.py' not in where and 'StandardCombi.py' not in where:
                chk.count('library-exception-outside-driver:%s@%s' % (r[0], where))
                continue
            chk.violation('corr:C14/resume', 'impl-exception', {'strat': c['strat'], 'exc': r[0] if r else st}, c, dict(impl=str(r)))
            continue
        todo.append(check_case(chk, c, r, mjobs))
        ssnap = r['single']['snap']
        if ssnap['points'] != ssnap['distinct']:
            chk.violation('oracle:points', 'point-count-differs', {'strat': c['strat'], 'reeval': bool(c.get('reeval'))}, dict(c, single=r['single_leg'], chains=[]),
                          dict(at='uninterrupted run', reported_points=ssnap['points'], distinct_integrand_evaluations_whole_run=ssnap['distinct']))
        K = len(ssnap['errors']) - 1
        lf = LG.resolve(r['single_leg'], True)
        chk.count('uninterrupted-evaluations=%s' % (K + 1 if K < 6 else '7+'))
        chk.count('uninterrupted-points=%s' % ('<100' if ssnap['points'] < 100 else '<250' if ssnap['points'] < 250 else '250+'))
        chk.count('final tol=%s' % ('negative' if lf[0] < 0 else 'zero-int' if lf[0] == 0 and isinstance(lf[0], int) else 'zero-float' if lf[0] == 0 else
                                    'default-of-continue' if lf[0] == LG.CONTINUE_DEFAULT_TOL else 'default-of-perform' if lf[0] == LG.PERFORM_DEFAULT_TOL else 'positive'))
        chk.count('final max=%s' % ('none' if lf[2] is None else 'given')); chk.count('uninterrupted call ' + LG.leg_key(r['single_leg']))
        chk.count('histories', len(r['runs']))
        if r.get('checkpoint'):
            ckr = r['checkpoint']
            chk.count('checkpoint scenario: ' + ckr['spec']['kind'])
            chk.count('checkpoint scenario restores of one file', sum(1 for x in ckr['steps'] if 'restore(' in x))
            chk.count('checkpoint saved at %s' % ('first evaluation' if ckr['first_stop'] == 0 else 'last evaluation' if ckr['first_stop'] == K else 'inner evaluation'))
            if K >= 1:
                keys.append((c['strat'], 'checkpoint', json.dumps(ckr['spec'], sort_keys=True), str(c['comps']), json.dumps(r['single_leg'], sort_keys=True)))
        for run_ in r['runs']:
            legs = run_['legs']
            chk.count('legs-in-history=%d' % len(legs)); chk.count('save/restore-in-history=%d' % sum(1 for l in legs[1:] if l.get('save')))
            for kd in run_['kinds']:
                chk.count('interruption stopped by: ' + kd)
            chk.count('final call ' + LG.leg_key(legs[-1]))
            for j, l in enumerate(legs):
                chk.count('call-style=%s' % l.get('style', 'keywords'))
            lims = LG.resolve_history(legs)
            chk.count('final call is %s' % ('a restart: performSpatiallyAdaptiv(refinement_container=...)' if legs[-1].get('restart') else 'continue_adaptive_refinement'))
            if len(lims) >= 2 and lims[-1][0] == 0 and lims[-2][0] > 0 and 'tol' in ''.join(run_['kinds'][-1:]):
                went_on = len(run_['recs']) == len(legs) and run_['recs'][-1]['events'].count(1) > 0
                chk.count('final call tol=0 after a tolerance stop' + (' (refines on)' if went_on else ' (nothing left to do)'))
            if any(not LG.grows(lims[j], lims[j + 1]) for j in range(len(lims) - 1)):
                chk.count('history whose limits do not grow from leg to leg (all grow to the final ones)')
            first_stop_at = len(run_['recs'][0]['snap']['errors']) - 1
            chk.count('first interruption at %s' % ('first evaluation' if first_stop_at == 0 else 'last evaluation' if first_stop_at == K else 'inner evaluation'))
            if K >= 1:
                keys.append((c['strat'], bool(c.get('reeval')), str(c['comps']), json.dumps(r['single_leg'], sort_keys=True), json.dumps(legs, sort_keys=True),
                             str(c.get('errcalc')), c.get('version'), str(c['ref'])))
        if len(samples) < 3 and K >= 2:
            samples.append(dict(strat=c['strat'], uninterrupted=leg_text(r['single_leg'], True), uninterrupted_points=ssnap['num_points'],
                                histories=[dict(history='; '.join(leg_text(l, j == 0, x['legs']) for j, l in enumerate(x['legs'])),
                                                final_points=x['recs'][-1]['snap']['points'],
                                                same=not same_end(x['recs'][-1]['snap'], ssnap, LG.magnitude(c))) for x in r['runs']]))
    mres = run_model(14, mjobs)
    for ev in todo:
        ev(mres)
    _c14_gen.finish(chk, gen_info, gen_problem)     # broken source-derived obligation and no concrete failing input found above
    chk.record_cases(sum(len(r['runs']) + (1 if r.get('checkpoint') else 0) for (st, r) in impl if st == 'ok'), keys,
                     'interrupted histories for every interruption index (<= 6 per run, always incl. first and last) of uninterrupted dimension-wise / '
                     'extend-split / cell runs (d 2..3, lmax 2..3, reference given/zero/none, norms, library and scripted error calculators, final limits '
                     'placed on observed values, tol=0, default tolerances): 1-3 interruptions per history stopped by max / tolerance / minimum / identical '
                     'limits, all growing to the final limits, final continuation explicit or with defaults, save/restore before ~45% of the continuations; '
                     'a case = one history; non-trivial = the uninterrupted run has at least two evaluations; distinct by (strategy, integrand, uninterrupted '
                     'call, history, options)', samples)


def replay(chk, rep):
    c = rep['case']
    st, r = run_impl(impl_run, [c], limit=900)[0]
    print('impl:', st, str(r)[:3000])
    if st != 'ok':
        return 1
    mjobs = []
    ev = check_case(chk, c, r, mjobs)
    mres = run_model(14, mjobs)
    print('model:', str(mres)[:1500])
    ev(mres)
    for v in chk.violations:
        print('property predicate / correspondence:', v['check'], v['kind'], v['sig'], str(v['detail'])[:900])
    print('verdict:', 'VIOLATED' if chk.violations else 'holds')
    return 1 if chk.violations else 0
