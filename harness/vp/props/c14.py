"""C14: interrupted, saved or resumed refinement ends where an uninterrupted run ends.

Per case: one uninterrupted run U with final limits L2 (chosen on the values of a probe run), then for EVERY evaluation index k
of U (including the last one = continuing with identical limits) an interrupted run: perform with limits L1(k) <= L2 that stop at
evaluation k, optionally save_to_file / restore_from_file, continue_adaptive_refinement(L2).  Compared with U: refinement
structure, combination scheme, result, point count.  The model (Entry/C14.v: the resume theorem's loop instantiated on U's
observation stream, and the C13 driver for the history arrays) predicts the stop indices and the arrays of the interrupted run
under the theorem's hypothesis `evaluate (evaluate s) = evaluate s`; that hypothesis is checked on the implementation at every
interruption (evaluate_operation once more on a deep copy).  dill persistence is a RUNTIME COMPARISON (restored vs saved
instance: result, interpolation, structure, point count), not a proof."""
import copy
import os
import random
from fractions import Fraction

from .. import sx
from ..impl import run_impl
from ..model import run_model
from . import _adaptive as A
from .c13 import choose_limits, q, finite

ASSUMPTIONS = [
    'the resume theorem is proved over an abstract deterministic evaluate/refine; its idempotence hypothesis is CHECKED on the '
    'implementation per interruption point (deep copy, evaluate_operation once more), not proved',
    'dill save/restore: runtime comparison of restored vs saved instance and of the continuation after restore',
    'max_time not modelled; results compared with 1e-12 relative tolerance, structures/schemes/point counts exactly',
]

TOL = 1e-12

# ---------------------------------------------------------------------------------------------- generator


def gen_case(rng, quick=True):
    strat = 'dw' if rng.random() < 0.5 else 'es'
    dim = 2 if rng.random() < 0.8 else 3
    a = [rng.choice([0, 0, -1]) for _ in range(dim)]
    b = [rng.choice([1, 1, 2]) for _ in range(dim)]
    nout = rng.choice([1, 1, 2])
    comps = A.gen_comps(rng, dim, nout)
    exact = A.poly_integral(comps, a, b)
    rr = rng.random()
    if rr < 0.55:
        ref = [float(x) if x != 0 else 1.0 for x in exact]
    elif rr < 0.7:
        ref = [0.0] * nout
    else:
        ref = None
    case = dict(strat=strat, a=a, b=b, comps=comps, ref=ref, norm=rng.choice([0, 0, 1, 2]), boundary=True, lmin=1, lmax=2,
                seed=rng.randrange(1 << 30), errcalc='lib' if rng.random() < 0.5 else ['scripted', rng.randrange(1 << 20)])
    case['reeval'] = rng.random() < 0.45        # performSpatiallyAdaptiv(reevaluate_at_end=True): evaluate_final_combi at every stop
    if strat == 'dw':
        case.update(version=rng.choice([6, 6, 3, 7]), rebalancing=rng.random() < 0.6, boundary=rng.random() < 0.85)
        case['probe_max'] = rng.choice([35, 50, 70]) if dim == 2 else rng.choice([120, 180])
    else:
        case.update(lmax=rng.choice([2, 2, 3]), nrbe=rng.choice([1, 1, 2]), auto=rng.random() < 0.25)
        case['probe_max'] = rng.choice([60, 100, 140]) if dim == 2 else rng.choice([250])
    return case

# ---------------------------------------------------------------------------------------------- implementation


def snapshot(sa, op, case, ret):
    return dict(structure=A.structure(sa, case), result=A.vec(ret[3]), integral=A.vec(op.integral), points=int(sa.get_total_num_points()),
                distinct=len(set(op.f.log)),      # distinct integrand evaluations of the WHOLE run (the log is saved/restored with f)
                errors=[A.fl(x) for x in ret[5]], surplus=[A.fl(x) for x in ret[7]], num_points=[int(x) for x in ret[6]])


class Runaway(Exception):
    pass


def wrap_events(sa, cap=None):
    """cap: a resumed run that double counts may never reach its tolerance again; stop it once it has used far more points than
    the uninterrupted run (it has then certainly left the uninterrupted run's path)"""
    events = []
    oe, orf = sa.evaluate_operation, sa.refine

    def ev():
        events.append(0)
        return oe()

    def rf():
        if cap is not None and sa.get_total_num_points() > cap:
            raise Runaway()
        events.append(1)
        return orf()
    sa.evaluate_operation, sa.refine = ev, rf
    return events


def reevaluation_changes(sa, op, case, ret):
    """the theorem's hypothesis on the implementation: evaluate_operation on the evaluated state changes nothing observable"""
    sc = copy.deepcopy(sa)
    for name in ('evaluate_operation', 'refine'):
        sc.__dict__.pop(name, None)
    before = dict(result=A.vec(sc.operation.integral), points=int(sc.get_total_num_points()), structure=A.structure(sc, case))
    with A.quiet():
        err, sur = sc.evaluate_operation()
    after = dict(result=A.vec(sc.operation.integral), points=int(sc.get_total_num_points()), structure=A.structure(sc, case))
    changed = [k for k in ('result', 'points', 'structure') if before[k] != after[k]]
    if A.fl(err) != A.fl(ret[5][-1]):
        changed.append('error')             # the error the stopping rule looks at
    elif A.fl(sur) != A.fl(ret[7][-1]):
        changed.append('surplus')           # only the surplus estimate that is reported next to it
    return changed, dict(error_before=float(ret[5][-1]), error_after=float(err), result_before=[A.unfl(x) for x in before['result']],
                         result_after=[A.unfl(x) for x in after['result']])


def compare_restored(saved, restored, case, rng):
    import numpy as np
    diffs = []
    if A.vec(saved.operation.integral) != A.vec(restored.operation.integral):
        diffs.append('result')
    if int(saved.get_total_num_points()) != int(restored.get_total_num_points()):
        diffs.append('points')
    if A.structure(saved, case) != A.structure(restored, case):
        diffs.append('structure')
    pts = [tuple(float(Fraction(rng.randrange(0, 33), 32)) * (bb - aa) + aa for aa, bb in zip(case['a'], case['b'])) for _ in range(5)]
    try:
        with A.quiet():
            v1 = np.asarray(saved(pts)); v2 = np.asarray(restored(pts))
        if not np.array_equal(v1, v2):
            diffs.append('interpolation')
    except Exception as e:
        diffs.append('interpolation-exc:' + type(e).__name__)
    return diffs


def interrupted_run(case, l1, l2, save, rng, tag, cap):
    from sparseSpACE.StandardCombi import StandardCombi
    sa, op, f, eo = A.build(case)
    events = wrap_events(sa, cap)
    r1 = A.perform(sa, eo, case, l1[0], l1[1], l1[2], reevaluate_at_end=bool(case.get('reeval')))
    first = snapshot(sa, op, case, r1)
    changed, detail = reevaluation_changes(sa, op, case, r1)
    out = dict(first=first, reevaluation_changes=changed, reevaluation_detail=detail, saved=bool(save))
    if save:
        for name in ('evaluate_operation', 'refine'):
            sa.__dict__.pop(name, None)            # closures of the harness are not part of the instance
        path = os.path.join(os.environ.get('VERIF_WORK', '/verif/.work/C14'), 'inst-%s-%d.dill' % (tag, os.getpid()))
        with A.quiet():
            sa.save_to_file(path)
            restored = StandardCombi.restore_from_file(path)
        os.remove(path)
        out['restore_diffs'] = compare_restored(sa, restored, case, rng)
        sa, op = restored, restored.operation
        ev2 = wrap_events(sa, cap)
    try:
        r2 = A.cont(sa, l2[0], l2[1], l2[2])
        out['final'] = snapshot(sa, op, case, r2)
    except Runaway:
        r2 = (None, None, None, op.integral, None, sa.error_array, sa.num_point_array, sa.surplus_error_array)
        out['final'] = snapshot(sa, op, case, r2)
        out['runaway'] = True
    out['events'] = events + (ev2 if save else [])
    return out


def impl_run(case):
    rng = random.Random(case['seed'])
    # probe: values on which the final limits are placed
    sp, opp, fp, eop = A.build(case)
    rp = A.perform(sp, eop, case, -1.0, 1, case['probe_max'])
    errs = [float(x) for x in rp[5]]
    pts = [int(x) for x in rp[6]]
    l2 = case.get('l2')
    if l2 is None:
        if case.get('reeval') and rng.random() < 0.8:
            # re-evaluation at every stop: runs limited by max_evaluations, final limit on / just below / just above an observed count
            j = rng.randrange(max(1, len(pts) // 2), len(pts)) if len(pts) > 1 else 0
            l2 = [-1.0, 1, max(0, pts[j] + rng.choice([-1, -1, 0, 0, 1, 2, -3]))]
        else:
            l2 = list(choose_limits(rng, errs, pts))
        if not any((e <= l2[0] and p >= l2[1]) or (l2[2] is not None and p > l2[2]) for e, p in zip(errs, pts)):
            l2[2] = pts[-1] - 1
    else:
        l2 = [A.unfl(l2[0]) if isinstance(l2[0], str) else l2[0], l2[1], l2[2]]
    # uninterrupted run with the final limits
    su, opu, fu, eou = A.build(case)
    evu = wrap_events(su)
    ru = A.perform(su, eou, case, l2[0], l2[1], l2[2], reevaluate_at_end=bool(case.get('reeval')))
    single = snapshot(su, opu, case, ru)
    single['events'] = evu
    K = len(single['errors']) - 1
    ks = case.get('ks')
    if ks is None:
        ks = list(range(K + 1))
        if len(ks) > 6:
            ks = sorted(set([0, K] + rng.sample(range(1, K), 4)))
    runs = []
    for k in ks:
        l1 = list(l2) if k >= K else [l2[0], l2[1], single['num_points'][k] - 1]
        save = case.get('save', (k + case['seed']) % 2 == 1)
        runs.append(dict(k=k, l1=[A.fl(l1[0]), l1[1], l1[2]],
                         **interrupted_run(case, l1, l2, save, rng, 'k%d' % k, cap=4 * single['points'] + 200)))
    return dict(l2=[A.fl(l2[0]), l2[1], l2[2]], single=single, runs=runs)

# ---------------------------------------------------------------------------------------------- comparison


def close_vec(a, b):
    for x, y in zip(a, b):
        u, v = A.unfl(x), A.unfl(y)
        if not (abs(u - v) <= TOL * (abs(u) + abs(v) + 1)):
            return False
    return len(a) == len(b)


def same_end(fin, single):
    diffs = []
    if fin['structure']['objs'] != single['structure']['objs'] or fin['structure']['lmax'] != single['structure']['lmax']:
        diffs.append('structure')
    if fin['structure']['scheme'] != single['structure']['scheme']:
        diffs.append('scheme')
    if not close_vec(fin['result'], single['result']):
        diffs.append('result')
    if fin['points'] != single['points']:
        diffs.append('points')
    return diffs


def enc_lim(l):
    return [q(l[0]), int(l[1]), [] if l[2] is None else [int(l[2])]]


def check_case(chk, case, r, mjobs):
    single = r['single']
    stream = [[q(e), q(s), int(p)] for e, s, p in zip(single['errors'], single['surplus'], single['num_points'])]
    numbers_ok = all(finite(e) and finite(s) for e, s in zip(single['errors'], single['surplus']))
    base = len(mjobs)
    if numbers_ok:
        for run in r['runs']:
            mjobs.append((0, [enc_lim(run['l1']), enc_lim(r['l2']), stream]))

    def evaluate(mres):
        K = len(single['errors']) - 1
        for i, run in enumerate(r['runs']):
            changed = [x for x in run['reevaluation_changes'] if x != 'surplus']
            if 'surplus' in run['reevaluation_changes']:
                chk.count('re-evaluation changes only the reported surplus error (%s)' % case['strat'])
            cause = 'none' if not changed else 'result' if 'result' in changed else 'error' if 'error' in changed else changed[0]
            sig = {'strat': case['strat'], 'reevaluation_changes': cause}
            fcase = dict(case, l2=r['l2'], ks=[run['k']], save=run['saved'])
            diffs = same_end(run['final'], single) + (['does-not-stop (aborted by the harness at 4x the points)'] if run.get('runaway') else [])
            if diffs:
                chk.violation('oracle:resume', 'resume-differs', sig, fcase,
                              dict(interrupted_at_evaluation=len(run['first']['errors']) - 1, of=K, saved_and_restored=run['saved'], differs=diffs,
                                   l1=[A.unfl(run['l1'][0])] + run['l1'][1:], l2=[A.unfl(r['l2'][0])] + r['l2'][1:],
                                   uninterrupted=dict(result=[A.unfl(x) for x in single['result']], points=single['points']),
                                   resumed=dict(result=[A.unfl(x) for x in run['final']['result']], points=run['final']['points']),
                                   reevaluation=run['reevaluation_detail']))
            for what, snap in (('interruption', run['first']), ('final stop', run['final'])):
                if snap['points'] != snap['distinct']:
                    chk.violation('oracle:points', 'point-count-differs', {'strat': case['strat'], 'reeval': bool(case.get('reeval'))}, fcase,
                                  dict(at=what, k=run['k'], saved_and_restored=run['saved'], reported_points=snap['points'],
                                       distinct_integrand_evaluations_whole_run=snap['distinct']))
                    break
            if run['saved'] and run.get('restore_diffs'):
                chk.violation('oracle:restore', 'restore-differs', {'strat': case['strat'], 'what': ','.join(run['restore_diffs'])}, fcase,
                              dict(k=run['k'], differs=run['restore_diffs']))
            if changed:
                chk.count('hypothesis evaluate-idempotent violated (%s: %s)' % (case['strat'], cause))
            else:
                chk.count('hypothesis evaluate-idempotent holds (%s)' % case['strat'])
            # model: indices and history arrays of stop+continue, valid under the hypothesis
            if numbers_ok and not changed:
                m = mres[base + i]
                if sx.is_err(m):
                    chk.violation('corr:C14/resume', 'model-rejects', sig, fcase, dict(model=str(m)[:300]), failing_input=False)
                    continue
                idx_single, idx_first, idx_resumed, st_single, st_resumed = m
                got = dict(single=K, first=len(run['first']['errors']) - 1,
                           resumed_evaluations=len(run['final']['errors']), errs=[q(x) for x in run['final']['errors']],
                           pts=run['final']['num_points'], trace=run['events'])
                pred = dict(single=idx_single, first=idx_first, resumed_evaluations=len(st_resumed[0]),
                            errs=[sx.q(x) for x in st_resumed[0]], pts=st_resumed[2], trace=st_resumed[3])
                bad = [k for k in got if got[k] != pred[k]]
                if idx_resumed != idx_single:
                    bad.append('model-resume-index')
                if bad:
                    chk.violation('corr:C14/resume', 'resume-history-differs', dict(sig, observable=','.join(sorted(bad))), fcase,
                                  dict(model={k: str(pred.get(k))[:200] for k in bad}, impl={k: str(got.get(k))[:200] for k in bad}),
                                  failing_input=bool(diffs))
            chk.traces += 1
    return evaluate


CORPUS = [
    # re-evaluation at every stop, max_evaluations-limited, dimension-wise with rebalancing (points leave the scheme)
    dict(strat='dw', a=[0, 0], b=[1, 1], comps=[[[1, [2, 0]], [3, [1, 3]]]], ref=[0.7083333333333334], norm=0, boundary=True, lmin=1, lmax=2, seed=14,
         errcalc=['scripted', 5], version=6, rebalancing=True, probe_max=70, reeval=True),
    dict(strat='dw', a=[0, 0], b=[1, 1], comps=[[[1, [2, 0]], [3, [1, 3]]]], ref=[0.7083333333333334], norm=0, boundary=True, lmin=1, lmax=2, seed=15,
         errcalc='lib', version=3, rebalancing=True, probe_max=70, reeval=True),
    # exemplars of the known findings
    dict(strat='es', a=[0, 0], b=[1, 1], comps=[[[1, [2, 0]], [3, [1, 3]]]], ref=[0.7083333333333334], norm=0, boundary=True, lmin=1, lmax=2, seed=11,
         errcalc='lib', nrbe=1, auto=False, probe_max=100, l2=[-1.0, 1, 60]),
    dict(strat='dw', a=[0, 0], b=[1, 1], comps=[[[1, [2, 0]], [3, [1, 3]]]], ref=None, norm=0, boundary=True, lmin=1, lmax=2, seed=12,
         errcalc='lib', version=6, rebalancing=True, probe_max=70, l2=[0.03, 1, None]),
    dict(strat='dw', a=[0, 0], b=[1, 1], comps=[[[1, [2, 0]], [3, [1, 3]]]], ref=[0.7083333333333334], norm=0, boundary=True, lmin=1, lmax=2, seed=13,
         errcalc='lib', version=6, rebalancing=True, probe_max=70, l2=[0.008, 30, 100]),
]


def run(chk):
    chk.coq_obligations()
    n = chk.n(44, 1500)
    cases = CORPUS + [gen_case(chk.rng, chk.quick) for _ in range(n)]
    impl = run_impl(impl_run, cases, limit=150)
    mjobs, todo, keys, samples = [], [], [], []
    for c, (st, r) in zip(cases, impl):
        chk.count('strat=' + c['strat']); chk.count('ref=' + ('none' if c['ref'] is None else 'given')); chk.count('reevaluate_at_end=%s' % bool(c.get('reeval')))
        if st != 'ok':
            where = r[1] if r else ''
            if st == 'exc' and 'spatiallyAdaptiveBase.py' not in where and 'StandardCombi.py' not in where:
                chk.count('library-exception-outside-driver:%s@%s' % (r[0], where))
                continue
            chk.violation('corr:C14/resume', 'impl-exception', {'strat': c['strat'], 'exc': r[0] if r else st}, c, dict(impl=str(r)))
            continue
        todo.append(check_case(chk, c, r, mjobs))
        if r['single']['points'] != r['single']['distinct']:
            chk.violation('oracle:points', 'point-count-differs', {'strat': c['strat'], 'reeval': bool(c.get('reeval'))}, dict(c, l2=r['l2'], ks=[]),
                          dict(at='uninterrupted run', reported_points=r['single']['points'], distinct_integrand_evaluations_whole_run=r['single']['distinct']))
        K = len(r['single']['errors']) - 1
        chk.count('uninterrupted-evaluations=%s' % (K + 1 if K < 6 else '7+'))
        chk.count('interruptions', len(r['runs'])); chk.count('with-save-restore', sum(1 for x in r['runs'] if x['saved']))
        for run_ in r['runs']:
            if K >= 1:
                keys.append((c['strat'], bool(c.get('reeval')), str(c['comps']), str(r['l2']), run_['k'], run_['saved'], str(c.get('errcalc')), c.get('version'), str(c['ref'])))
        if len(samples) < 3 and K >= 2:
            samples.append(dict(strat=c['strat'], l2=[A.unfl(r['l2'][0])] + r['l2'][1:], uninterrupted_points=r['single']['num_points'],
                                interruptions=[dict(k=x['k'], saved=x['saved'], final_points=x['final']['points'],
                                                    same=not same_end(x['final'], r['single'])) for x in r['runs']]))
    mres = run_model(14, mjobs)
    for ev in todo:
        ev(mres)
    chk.record_cases(sum(len(r['runs']) for (st, r) in impl if st == 'ok'), keys,
                     'every interruption index (<= 6 per run, always incl. first and last) of uninterrupted dimension-wise / extend-split runs '
                     '(d 2..3, lmax 2..3, reference given/zero/none, norms, library and scripted error calculators, final limits placed on observed '
                     'values), every second one with dill save/restore; a case = one (run, interruption index); non-trivial = the uninterrupted run '
                     'has at least two evaluations; distinct by (strategy, integrand, limits, index, save, options)', samples)


def replay(chk, rep):
    c = rep['case']
    st, r = run_impl(impl_run, [c], limit=900)[0]
    print('impl:', st, str(r)[:3000])
    if st != 'ok':
        return 1
    mjobs = []
    ev = check_case(chk, c, r, mjobs)
    mres = run_model(14, mjobs)
    print('model:', str(mres)[:1500])
    ev(mres)
    for v in chk.violations:
        print('property predicate / correspondence:', v['check'], v['kind'], v['sig'], str(v['detail'])[:900])
    print('verdict:', 'VIOLATED' if chk.violations else 'holds')
    return 1 if chk.violations else 0
