"""C10: source-derived model of the hierarchy scan GlobalLagrangeGrid.get_parent (DESIGN.md 0.5 scheme).
coq/Gen/LagrangeParentGen.v is regenerated from the working tree ($VERIF_REPO) by harness/translate/py2gallina_c10.py (own small
self-contained front end) under the build lock, before the proof obligations are (re)built; Props/C10gen.v holds the theorems about the
generated definition (= hand-written Model/Basis.get_parent; returns the deeper interval end on tree-shaped lists)."""
import fcntl
import hashlib
import os
import re
import subprocess
import sys
from ..core import ROOT, COQ
from .. import gen

TRANSLATOR = os.path.join(ROOT, 'harness', 'translate', 'py2gallina_c10.py')
GEN_FILE = 'LagrangeParentGen.v'
GEN_CHAIN = ['Gen/LagrangeParentGen.v', 'Proofs/GenLagrangeParentEq.v', 'Props/C10gen.v']
EXTRA_PROPS = ('C10gen',)
ASSUMPTION = (
    'source-derived model of the hierarchy scan (py2gallina_c10.py): Python `ast` and the translation scheme are trusted; GlobalLagrangeGrid.get_parent is '
    'translated statement by statement (list.index, the two for loops over reversed(range(index)) / range(index+1, len) with their return / break branches, '
    'assert False = no result); semantics from coq/Base/PyLib.v and coq/Base/PyBreak.v (for with break); floats are exact rationals, == on floats is exact '
    'equality, Sequence[float] / Sequence[int] are lists with value semantics; anything else is rejected')


def regenerate(chk):
    with open(os.path.join(ROOT, '.buildlock'), 'w') as lk:
        fcntl.flock(lk, fcntl.LOCK_EX)
        p = subprocess.run([sys.executable, TRANSLATOR], capture_output=True, text=True)
    msg = '\n'.join(l for l in p.stderr.splitlines() if 'conda' not in l).strip()
    chk.checker_cmds.append('/venv/bin/python harness/translate/py2gallina_c10.py  (regenerates coq/Gen/%s from sparseSpACE/Grid.py)' % GEN_FILE)
    info = dict(rc=p.returncode, message=msg, target='lagrange_parent')
    try:
        src = open(os.path.join(COQ, 'Gen', GEN_FILE)).read()
        info['generated_sha256'] = hashlib.sha256(src.encode()).hexdigest()
        info['translated'] = re.findall(r'^\(\* (\S+:\d+-\d+)  (\S+) \*\)$', src, re.M)
    except OSError:
        pass
    chk.extra['source_derived_model'] = info
    return info


def diagnose(chk, info):
    """after coq_obligations: None when the generated model is in place and proved equivalent, else the reason"""
    problem = gen.gen_diagnosis(chk, info, GEN_CHAIN)
    gen.report(chk, info, problem, 'C10_gen_*')
    return problem


def finish(chk, info, problem):
    gen.finish_gen(chk, info, problem)
