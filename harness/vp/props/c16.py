"""C16: density estimation solves the right linear system.
Correspondence  Model/Gram.v + Model/GramSolve.v (extracted)  <->  GridOperation.DensityEstimation, plus the property's own
predicate (exact-rational specification in _de.py: Gram matrix by piecewise Simpson integration, sample-mean right-hand side,
exact solve, normalisation) evaluated on the implementation's outputs.

Case kinds
  uniform / nonuniform            direct calls of build_R_matrix(_dimension_wise), calculate_B(_dimension_wise),
                                  solve_density_estimation(_dimension_wise), the hat variants and the interpolation of one
                                  component grid; every size incl. grids with >= 200 points (complete pipeline beyond the threshold)
  uniform-large / nonuniform-large  grids beyond the threshold: right-hand side, hats and interpolation only (no solve)
  combi                           StandardCombi.perform_operation + combi(points)
  adaptive                        SpatiallyAdaptiveSingleDimensions2 with a GlobalTrapezoidalGrid driven for a few refinement steps; every
                                  component-grid solve of the run (real refinement trees, ONE operation object) is logged and checked
  histories                       2-4 of the above on ONE operation object / several objects in ONE process (regularisation sweeps,
                                  changing level vectors, different trees of equal size, option changes, repeated calls); every step is
                                  compared with the model (a pure function of the request) and with the oracle; the violation's case
                                  holds the history up to the failing step (key 'history') and replays it."""
import itertools
import os
import time
import traceback
from fractions import Fraction as F

from .. import sx
from ..impl import run_impl, REPO
from ..model import run_model
from . import _de
from . import _c16_gen
from ._de import fr, qvec, qmat, vec_close, mat_close

ASSUMPTIONS = [
    _c16_gen.ASSUMPTION,
    'exact-arithmetic model over Qc; implementation floats are converted to exact rationals and compared with '
    'relative tolerance 1e-11 (matrix entries, right-hand sides, hat values) resp. 1e-9 (outputs of the LAPACK solve); for the '
    'non-uniform analytic entries the tolerance is enlarged by 64*eps*max_cells 6(x/h)^3 because the coded off-diagonal formula '
    'subtracts terms of size (x/h)^3 h (cancellation-aware bound, DESIGN section 3)',
    'the LAPACK solve is compared (1e-9) with (a) the exact rational solution computed by the harness, which the verified checker '
    'check_solution validates against the model matrix and right-hand side (up to 64 grid points and a cost bound on the size of the '
    'rationals; beyond that the exact residual is computed in Python, because the extracted model computes with inductive integers), and '
    '(b) for grids of up to 21 points the solution computed by the model itself (Model/GramSolve.v, exact elimination guarded by the same '
    'checker; must equal (a) exactly; proved to be the unique solution and never to fail: C16_pipeline_total)',
    'np.ceil(x - p + 1e-30) in hat_function_non_symmetric_vectorized is modelled as the step function [x >= p]',
    'grids without boundary points, basis not modified (the configuration DensityEstimation supports); data in the unit cube',
    'positive definiteness of the d-dimensional matrix is PROVED on the model for every grid (C16_gram_grid_positive_definite, '
    'C16_gram_uniform_positive_definite); on the implementation matrix it is additionally tested per case (exact LDL^T up to 64 points, '
    'floating Cholesky of the symmetric matrix beyond)',
    'every case and every history runs in a freshly forked process that has only imported the implementation: class-level or module-level '
    'state cannot leak between cases, a violation replays from its own case',
    'histories: option changes on a living object are made by assigning the public attributes lambd / masslumping / classes',
    'adaptive runs are driven by a scripted error calculator (errors depend only on the geometry of the refinement object); '
    'the logged component-grid solves are compared one by one, the densities at the stops with the combination of the model interpolants '
    'of the (exact rational images of the) implementation surpluses',
]

REL_M = 1e-11     # matrix entries / rhs / hats
REL_S = 1e-9      # solver outputs
LAMS = [0.0, 0.0, 0.0, 0.125, 0.25, 0.3125, 1.0, 0.5, 4.0, 2.0 ** -20, 100.0]      # dyadic: exact arithmetic stays cheap
LAMS_ODD = [0.01, 0.3]      # binary64 values with 50-bit numerators: only on grids of up to 12 points (the extracted model computes
                            # with inductive integers; an exact certificate for 45 points takes minutes)


def _lam(rng, N):
    if N <= 12 and rng.random() < 0.3:
        return rng.choice(LAMS_ODD)
    return rng.choice(LAMS)
MS = [1, 2, 3, 5, 8, 12, 20, 30, 70]
CERT_MAX = 64     # the certificate of the solve is checked by the extracted checker up to this number of grid points (beyond: exact
                  # residual in Python; the extracted model computes with inductive integers)
CERT_COST = 3e8   # ... and up to this cost estimate N * sum(bits(x_i)^2) of the exact solution x (about 3 s in the extracted checker)
PIPE_MAX = 21     # the model's own solve (Model/GramSolve.v) is evaluated up to this number of grid points
EXCLUDED = {
    'debug=True on the uniform path': 'solve_density_estimation raises UFuncTypeError at GridOperation.py:1619 ("Alphas: " + ndarray) '
                                      '- logging code, outside the property; debug=True is exercised on the dimension-wise path',
    'data outside the unit cube': 'initialize() rescales such data (MinMaxScaler); the property speaks about data in the unit cube',
    'grids with boundary points / modified basis': 'evaluate_levelvec asserts not grid.boundary; hat_function_non_symmetric switches formulas',
    'unsorted or repeated stripe coordinates': 'never produced by the grid classes; calculate_R_value_analytically divides by the distances',
    'negative lambda': 'the system matrix need not be positive definite then; not covered by the property',
}


# ----------------------------------------------------------------------------------------------- generators
def _labels(rng, M):
    r = rng.random()
    if r < 0.58:
        return None
    if r < 0.68:
        s = rng.choice([-1, 1])
        return [s] * M                      # only one class present
    return [rng.choice([-1, 1]) for _ in range(M)]


def _uniform_stripes_f(lv):
    return [[i / 2 ** l for i in range(2 ** l + 1)] for l in lv]


def _N(st):
    N = 1
    for s in st:
        N *= len(s) - 2
    return N


def _options(rng, c, uniform):
    """constructor options besides lambda / mass lumping / classes, and call-pattern options"""
    if rng.random() < 0.1:
        c['pre_scaled'] = True
    if rng.random() < 0.1:
        c['data_form'] = 'tuple'
    if uniform and rng.random() < 0.12:
        c['explicit_grid'] = True
    if not uniform and not c.get('numeric') and rng.random() < 0.15:
        c['debug'] = True
    if rng.random() < 0.1:
        c['repeat'] = True
    if not c.get('numeric') and rng.random() < 0.08:
        c['reuse'] = True          # reuse_old_values=True: the clauses of C16 hold for this configuration as well
    return c


def mk_uniform(rng, lv, data=None, M=None, lam=None, ml=None, classes='?', npts=6, options=True):
    dim = len(lv)
    st = _uniform_stripes_f(lv)
    if data is None:
        data = _de.gen_data(rng, dim, M or rng.choice(MS), st)
    c = dict(kind='uniform', dim=dim, lv=list(lv), lam=_lam(rng, _N(st)) if lam is None else lam,
             ml=(rng.random() < 0.25) if ml is None else ml, data=data,
             classes=_labels(rng, len(data)) if classes == '?' else classes)
    c['points'] = [list(x) for x in data[:npts]] + _de.eval_points(rng, dim, st, npts, ulp=0.05)
    return _options(rng, c, True) if options else c


def mk_nonuniform(rng, sl, data=None, M=None, lam=None, ml=None, classes='?', numeric=False, npts=6, options=True):
    st = [s for s, _ in sl]
    dim = len(st)
    if data is None:
        data = _de.gen_data(rng, dim, M or rng.choice(MS), st)
    c = dict(kind='nonuniform', dim=dim, stripes=st, levels=[l for _, l in sl],
             lam=_lam(rng, _N(st)) if lam is None else lam, ml=((rng.random() < 0.25) if ml is None else ml) and not numeric,
             numeric=numeric, data=data, classes=_labels(rng, len(data)) if classes == '?' else classes)
    c['points'] = [list(x) for x in data[:npts]] + _de.eval_points(rng, dim, st, npts, ulp=0.06)
    return _options(rng, c, False) if options else c


def gen_levelvec(rng, dim, nmax, lmax=4):
    while True:
        lv = [rng.choice([1, 1, 2, 2, 3, 4][:lmax + 2]) for _ in range(dim)]
        N = 1
        for l in lv:
            N *= 2 ** l - 1
        if N <= nmax:
            return lv


def gen_uniform(rng, quick):
    dim = rng.choice([1, 1, 2, 2, 2, 3, 3, 4, 5])
    return mk_uniform(rng, gen_levelvec(rng, dim, 45 if quick else 49))


def gen_stripes(rng, dim, nmax, numeric=False, maxlevel=None, nmin=1):
    while True:
        sl = [_de.gen_stripe(rng, maxlevel or rng.choice([2, 3, 3, 4]), 1, 3 if numeric else 7) for _ in range(dim)]
        if nmin <= _N([s for s, _ in sl]) <= nmax:
            return sl


def gen_nonuniform(rng, quick, numeric=False):
    dim = rng.choice([1, 2, 2, 3, 3, 4]) if not numeric else rng.choice([1, 1, 2])
    if numeric:         # scipy nquad per matrix entry: seconds per entry in two dimensions
        return mk_nonuniform(rng, gen_stripes(rng, dim, 4 if dim == 1 else 2, True), numeric=True, M=rng.choice([1, 2, 3, 5, 8]))
    return mk_nonuniform(rng, gen_stripes(rng, dim, 40 if quick else 48))


BIGM = [(M, u, lab) for M in (1030, 4100, 2050) for u in (True, False) for lab in (False, True)] + \
       [(130, True, False), (260, False, True), (520, True, True), (520, False, False)]


def gen_bigM(rng, k=None):
    """many samples on a small grid: loops / blocks over the data set (M beyond 64, 128, 1000, 1024, 2048, 4096); both paths, with
    and without labels, see sample counts on either side of these sizes in every run (k = position in the fixed plan)"""
    if k is not None:
        M, uniform, lab = BIGM[k % len(BIGM)]
    else:
        M, uniform, lab = rng.choice([130, 260, 520, 1030, 2050, 4100]), rng.random() < 0.5, rng.random() < 0.5
    dim = rng.choice([1, 2, 2, 3])
    classes = [rng.choice([-1, 1]) for _ in range(M)] if lab else None
    if uniform:
        c = mk_uniform(rng, gen_levelvec(rng, dim, 9, 2), M=M, npts=3, classes=classes)
    else:
        c = mk_nonuniform(rng, gen_stripes(rng, dim, 9), M=M, npts=3, classes=classes)
    c.pop('debug', None)
    return c


def gen_xl(rng, uniform, dim=None):
    """complete pipeline (matrix, solve, normalisation) on grids with >= 200 points"""
    if uniform:
        lv = rng.choice([[8], [4, 4], [5, 3], [3, 5]])
        c = mk_uniform(rng, lv, M=rng.choice([5, 12, 30]), lam=rng.choice([0.0, 0.125, 0.0625]), ml=False, npts=4, options=False)
    else:
        dim = dim or rng.choice([1, 2, 2])
        while True:
            if dim == 1:
                sl = [_de.gen_stripe(rng, 9, 200, 240)]
            else:
                sl = [_de.gen_stripe(rng, 6, 12, 18) for _ in range(dim)]
            if 200 <= _N([s for s, _ in sl]) <= 260:
                break
        c = mk_nonuniform(rng, sl, M=rng.choice([5, 12, 30]), lam=rng.choice([0.0, 0.125, 0.0625]), ml=False, npts=4, options=False)
        if rng.random() < 0.3:
            c['debug'] = True
    c['xl'] = True
    return c


def gen_large(rng, uniform, lab=None):
    """grids on the far side of the 200-point threshold: right-hand side and interpolation only (no solve)"""
    if uniform:
        lv = rng.choice([[8], [4, 4], [5, 3], [3, 5], [2, 2, 4], [3, 3, 3], [6, 2], [10], [11], [6, 5]])      # up to 2047 points
        dim = len(lv)
        st = _uniform_stripes_f(lv)
        c = dict(kind='uniform-large', dim=dim, lv=lv)
    else:
        dim = rng.choice([2, 2, 3])
        huge = rng.random() < 0.25                     # beyond 1024 points
        while True:
            sl = [_de.gen_stripe(rng, 6, 28, 36) for _ in range(2)] if huge else [_de.gen_stripe(rng, 5, 4, 24) for _ in range(dim)]
            if 200 <= _N([s for s, _ in sl]) <= (1300 if huge else 420):
                break
        dim = len(sl)
        st = [s for s, _ in sl]
        c = dict(kind='nonuniform-large', dim=dim, stripes=st, levels=[l for _, l in sl])
    M = rng.choice([3, 8, 15, 70])
    c.update(lam=0.0, ml=False, data=_de.gen_data(rng, dim, M, st),
             classes=_labels(rng, M) if lab is None else ([rng.choice([-1, 1]) for _ in range(M)] if lab else None))
    c['points'] = c['data'][:4] + _de.eval_points(rng, dim, st, 5)
    c['surplus_seed'] = rng.randrange(1 << 30)
    return c


def gen_combi(rng, large=False):
    if large:       # component grids on both sides of the threshold in one scheme (mass lumping: no O(N^2) matrix loop)
        dim, lmin, lmax, ml = 2, 1, rng.choice([6, 7]), True
    else:
        dim = rng.choice([1, 2, 2, 3])
        lmin = 1
        lmax = rng.choice([2, 3]) if dim < 3 else 2
        ml = rng.random() < 0.2
    M = rng.choice([2, 5, 10, 20])
    st = [[i / 8 for i in range(9)] for _ in range(dim)]
    c = dict(kind='combi', dim=dim, lmin=lmin, lmax=lmax, lam=rng.choice([0.0, 0.125, 0.01, 0.3125]), ml=ml,
             data=_de.gen_data(rng, dim, M, st), classes=_labels(rng, M))
    c['points'] = c['data'][:4] + _de.eval_points(rng, dim, st, 6)
    return c


def gen_adaptive(rng):
    dim = rng.choice([1, 2, 2, 3])
    if dim == 1:
        lmin, lmax, nsteps = rng.choice([1, 2]), rng.choice([3, 4]), rng.choice([2, 3, 4])
    elif dim == 2:
        lmin, lmax, nsteps = 1, rng.choice([2, 3]), rng.choice([2, 3])
    else:
        lmin, lmax, nsteps = 1, 2, rng.choice([1, 2])
    M = rng.choice([8, 20, 40])
    st = [[i / 16 for i in range(17)] for _ in range(dim)]
    data = _de.gen_data(rng, dim, M, st, k=5)
    c = dict(kind='adaptive', dim=dim, lmin=lmin, lmax=lmax, nsteps=nsteps, lam=rng.choice([0.0, 0.0625, 0.125, 0.3125]),
             ml=rng.random() < 0.2, data=data, classes=_labels(rng, M), margin=rng.choice([0.25, 0.5, 0.9]),
             rebalancing=rng.random() < 0.5, est_seed=rng.randrange(1 << 30), debug=rng.random() < 0.15)
    c['points'] = [list(x) for x in data[:3]] + _de.eval_points(rng, dim, st, 5)
    return c


def _same_size_stripe(rng, sl):
    """another tree with the same number of points (and the same maximum level where possible) in every dimension"""
    out = []
    for s, lv in sl:
        L = max(max(lv), 1)
        k = len(s) - 2
        for _ in range(20):
            t, tl = _de.gen_stripe(rng, L, k, k)
            if len(t) == len(s) and t != s:
                break
        out.append((t, tl) if len(t) == len(s) else (s, lv))
    return out


def _level_of(i, L):
    if i == 0 or i == 2 ** L:
        return 0
    l = L
    while i % 2 == 0:
        i //= 2
        l -= 1
    return l


def _next_tree(rng, s, L):
    """the stripe of the next refinement step: some new points of the level-L lattice (new hats, and the neighbours' supports
    change), sometimes one point replaced by another (replaced hats); most hats keep centre and support"""
    n = 2 ** L
    idx = sorted(int(round(x * n)) for x in s)
    free = [i for i in range(1, n) if i not in idx]
    r = rng.random()
    if free and r < 0.85:
        for i in rng.sample(free, min(len(free), rng.choice([1, 1, 2, 3]))):
            idx.append(i)
    if r >= 0.7 and len(idx) > 4:
        inner = [i for i in idx if 0 < i < n]
        idx.remove(rng.choice(inner))
    idx = sorted(set(idx))
    return [i / n for i in idx], [_level_of(i, L) for i in idx]


def gen_reuse_history(rng):
    """reuse_old_values=True on ONE dimension-wise object: >= 2 evaluations of component grids with >= 200 points, post_processing in
    between, so that the right-hand side of the later evaluations MIXES entries copied from the previous step with newly computed
    ones.  Every step is judged by the sample-mean specification (not by a reuse on/off comparison: that is C17)."""
    dim = rng.choice([1, 2, 2])
    L = 9 if dim == 1 else 6
    while True:
        sl = [_de.gen_stripe(rng, L, 200, 230)] if dim == 1 else [_de.gen_stripe(rng, L, 14, 18) for _ in range(dim)]
        if 200 <= _N([s for s, _ in sl]) <= 300:
            break
    M = rng.choice([5, 12, 30, 70])
    data = _de.gen_data(rng, dim, M, [s for s, _ in sl], k=7)
    classes = _labels(rng, M)
    lam = rng.choice([0.0, 0.125, 0.0625])
    steps = []
    for k in range(rng.choice([2, 3, 3])):
        if k > 0:
            sl = [(_next_tree(rng, s, L) if rng.random() < 0.8 else (s, lv)) for s, lv in sl]
            if _N([s for s, _ in sl]) < 200:
                break
        full = rng.random() < 0.4          # complete pipeline (mass lumping: no O(N^2) matrix loop) or right-hand side + interpolation only
        st = mk_nonuniform(rng, sl, data=data, lam=lam, ml=True, classes=classes, options=False, npts=3)
        if not full:
            st['kind'] = 'nonuniform-large'
            st['surplus_seed'] = rng.randrange(1 << 30)
            st['lam'] = 0.0
            st['ml'] = False
        st.update(obj=0, reuse=True, post=True)
        steps.append(st)
    return dict(family='reuse-rhs', steps=steps)


def gen_history(rng, family=None):
    if family == 'reuse-rhs':
        return gen_reuse_history(rng)
    """short histories in ONE process; steps with equal 'obj' share one operation object"""
    family = family or rng.choice(['lam-sweep', 'lam-sweep', 'one-op-levels', 'one-op-levels', 'one-op-trees', 'one-op-trees',
                                   'two-ops', 'combi-rerun', 'mixed-paths', 'threshold-crossing'])
    dim = rng.choice([1, 2, 2, 3])
    steps = []
    if family == 'lam-sweep':
        # fresh objects, SAME grid, different lambda / lumping / labels / data: anything cached at class or module level shows
        uniform = rng.random() < 0.6
        lv = gen_levelvec(rng, dim, 16, 2)
        sl = gen_stripes(rng, dim, 16)
        st = _uniform_stripes_f(lv) if uniform else [s for s, _ in sl]
        data = _de.gen_data(rng, dim, rng.choice([3, 8, 20]), st)
        lams = rng.sample([0.0, 0.125, 0.25, 0.5, 1.0, 0.01], 3)
        for k in range(rng.choice([2, 3, 3])):
            if rng.random() < 0.3:
                data = _de.gen_data(rng, dim, rng.choice([3, 8, 20]), st)
            kw = dict(data=data, lam=lams[k], ml=rng.random() < 0.15, options=False, npts=3)
            s = mk_uniform(rng, lv, **kw) if uniform else mk_nonuniform(rng, sl, **kw)
            s['obj'] = k
            steps.append(s)
    elif family in ('one-op-levels', 'two-ops'):
        nobj = 1 if family == 'one-op-levels' else 2
        base = [gen_levelvec(rng, dim, 16, 2) for _ in range(3)]
        if dim >= 2 and rng.random() < 0.6:
            base[1] = list(reversed(base[0]))       # same number of points, other shape
        datas = [_de.gen_data(rng, dim, rng.choice([3, 8, 20]), _uniform_stripes_f([3] * dim)) for _ in range(nobj)]
        lam0 = [rng.choice(LAMS) for _ in range(nobj)]
        order = [base[0], base[1], base[0], base[2]][:rng.choice([3, 4])]
        for k, lv in enumerate(order):
            for o in range(nobj):
                lam = lam0[o] if rng.random() < 0.6 else rng.choice(LAMS)        # attribute change on the living object
                s = mk_uniform(rng, lv, data=datas[o], lam=lam, ml=rng.random() < 0.2, options=False, npts=3)
                s['obj'] = o
                if rng.random() < 0.15:
                    s['repeat'] = True
                steps.append(s)
    elif family == 'one-op-trees':
        sl = gen_stripes(rng, dim, 16, maxlevel=rng.choice([3, 4]))
        data = _de.gen_data(rng, dim, rng.choice([3, 8, 20]), [s for s, _ in sl])
        lam0 = rng.choice(LAMS)
        cur = sl
        for k in range(rng.choice([3, 4])):
            if k > 0:
                cur = _same_size_stripe(rng, cur) if rng.random() < 0.6 else gen_stripes(rng, dim, 16)
            lam = lam0 if rng.random() < 0.6 else rng.choice(LAMS)
            s = mk_nonuniform(rng, cur, data=data, lam=lam, ml=rng.random() < 0.2, options=False, npts=3)
            s['obj'] = 0
            if rng.random() < 0.15:
                s['repeat'] = True
            steps.append(s)
    elif family == 'threshold-crossing':
        # one object (mass lumping on the big grid: no O(N^2) matrix loop): small grid -> grid with >= 200 points -> small grid
        dim = rng.choice([1, 2])
        uniform = rng.random() < 0.5
        if uniform:
            grids = [gen_levelvec(rng, dim, 16, 2), [8] if dim == 1 else rng.choice([[4, 4], [5, 3], [3, 5]]), gen_levelvec(rng, dim, 16, 2)]
            data = _de.gen_data(rng, dim, rng.choice([3, 8, 20]), _uniform_stripes_f(grids[1]))
        else:
            while True:
                big = [_de.gen_stripe(rng, 9, 200, 230)] if dim == 1 else [_de.gen_stripe(rng, 6, 13, 18) for _ in range(dim)]
                if 200 <= _N([s for s, _ in big]) <= 300:
                    break
            grids = [gen_stripes(rng, dim, 16), big, gen_stripes(rng, dim, 16)]
            data = _de.gen_data(rng, dim, rng.choice([3, 8, 20]), [s for s, _ in big])
        for k, g in enumerate(grids):
            kw = dict(data=data, lam=rng.choice([0.0, 0.125, 0.5]), ml=True if k == 1 else rng.random() < 0.3, options=False, npts=3)
            s = mk_uniform(rng, g, **kw) if uniform else mk_nonuniform(rng, g, **kw)
            s['obj'] = 0
            steps.append(s)
    elif family == 'combi-rerun':
        dim = rng.choice([1, 2, 2])
        st = [[i / 8 for i in range(9)] for _ in range(dim)]
        data = _de.gen_data(rng, dim, rng.choice([5, 10, 20]), st)
        classes = _labels(rng, len(data))
        runs = rng.choice([[(1, 2), (1, 3)], [(1, 3), (2, 3)], [(1, 2), (1, 2)], [(2, 3), (1, 2), (1, 3)]])
        for k, (lmin, lmax) in enumerate(runs):
            s = dict(kind='combi', dim=dim, lmin=lmin, lmax=lmax, lam=rng.choice([0.0, 0.125, 0.01, 0.3125]), ml=rng.random() < 0.15,
                     data=data, classes=classes, obj=0 if rng.random() < 0.7 else k)
            s['points'] = [list(x) for x in data[:3]] + _de.eval_points(rng, dim, st, 4)
            steps.append(s)
            if rng.random() < 0.4:
                u = mk_uniform(rng, gen_levelvec(rng, dim, 16, 3), data=data, lam=s['lam'], ml=s['ml'], classes=classes, options=False, npts=3)
                u['obj'] = s['obj']
                steps.append(u)
    else:           # mixed-paths: uniform and dimension-wise objects interleaved in one process, same data
        lv = gen_levelvec(rng, dim, 16, 2)
        data = _de.gen_data(rng, dim, rng.choice([3, 8, 20]), _uniform_stripes_f(lv))
        for k in range(rng.choice([3, 4])):
            lam = rng.choice(LAMS)
            if k % 2 == 0:
                s = mk_uniform(rng, lv if k == 0 else gen_levelvec(rng, dim, 16, 2), data=data, lam=lam, options=False, npts=3)
            else:
                s = mk_nonuniform(rng, [(st, [0] + [1] * (len(st) - 2) + [0]) for st in _uniform_stripes_f(lv)] if rng.random() < 0.5
                                  else gen_stripes(rng, dim, 16), data=data, lam=lam, options=False, npts=3)
            s['obj'] = k % 2
            steps.append(s)
    return dict(family=family, steps=steps)


CORPUS = [
    # exemplar of the known finding C16-cv-hat-ulp-below-node (evaluation point 0.5 - 2^-54)
    dict(kind='nonuniform', dim=1, stripes=[[0.0, 0.5, 1.0]], levels=[[0, 1, 0]], lam=0.0, ml=False, numeric=False,
         data=[[0.25], [0.75]], classes=None, points=[[0.49999999999999994], [0.5], [0.5000000000000001]]),
    # exemplar of the known finding C16-numeric-epsrel (numeric matrix entries)
    dict(kind='nonuniform', dim=1, stripes=[[0.0, 0.25, 0.375, 1.0]], levels=[[0, 2, 3, 0]], lam=0.0, ml=False, numeric=True,
         data=[[0.25], [0.5]], classes=None, points=[[0.25], [0.5]]),
    dict(kind='uniform', dim=2, lv=[2, 1], lam=0.25, ml=False, data=[[0.25, 0.5], [0.5, 0.5], [0.125, 0.875], [1.0, 0.0],
         [0.75, 0.25], [0.0, 0.375]], classes=None, points=[[0.25, 0.5], [1.0, 0.0], [0.3125, 0.5]]),
    dict(kind='uniform', dim=2, lv=[2, 2], lam=0.0, ml=True, data=[[0.25, 0.5], [0.5, 0.5], [0.125, 0.875]],
         classes=[1, -1, 1], points=[[0.25, 0.5], [0.0, 0.0]]),
    dict(kind='uniform', dim=1, lv=[1], lam=0.0, ml=False, data=[[0.5], [0.25]], classes=[1, -1], points=[[0.5]]),
    dict(kind='nonuniform', dim=2, stripes=[[0.0, 0.25, 0.5, 0.625, 1.0], [0.0, 0.5, 0.75, 1.0]],
         levels=[[0, 2, 1, 3, 0], [0, 1, 2, 0]], lam=0.25, ml=False, numeric=False,
         data=[[0.25, 0.5], [0.5, 0.5], [0.125, 0.875], [1.0, 0.0], [0.75, 0.25], [0.0, 0.375]],
         classes=[1, -1, 1, 1, -1, -1], points=[[0.25, 0.5], [0.5, 0.75], [0.625, 1.0], [0.3, 0.6]]),
]

CORPUS_HISTORIES = [
    # regularisation sweep over fresh objects on one regular grid (class-level cache of the system matrix keyed without lambda)
    dict(family='lam-sweep', steps=[
        dict(kind='uniform', dim=2, lv=[2, 1], lam=0.0, ml=False, data=[[0.25, 0.5], [0.5, 0.5], [0.125, 0.875]], classes=None,
             points=[[0.25, 0.5]], obj=0),
        dict(kind='uniform', dim=2, lv=[2, 1], lam=0.25, ml=False, data=[[0.25, 0.5], [0.5, 0.5], [0.125, 0.875]], classes=None,
             points=[[0.25, 0.5]], obj=1)]),
    # one object: lambda changed on the living object, level vector revisited
    dict(family='one-op-levels', steps=[
        dict(kind='uniform', dim=1, lv=[2], lam=0.0, ml=False, data=[[0.25], [0.5], [0.875]], classes=None, points=[[0.25]], obj=0),
        dict(kind='uniform', dim=1, lv=[3], lam=0.5, ml=False, data=[[0.25], [0.5], [0.875]], classes=None, points=[[0.25]], obj=0),
        dict(kind='uniform', dim=1, lv=[2], lam=0.5, ml=True, data=[[0.25], [0.5], [0.875]], classes=None, points=[[0.25]], obj=0)]),
    # one dimension-wise object: two different trees with the same number of points and the same maximum level
    dict(family='one-op-trees', steps=[
        dict(kind='nonuniform', dim=1, stripes=[[0.0, 0.25, 0.5, 1.0]], levels=[[0, 2, 1, 0]], lam=0.125, ml=False, numeric=False,
             data=[[0.25], [0.5], [0.875]], classes=None, points=[[0.3]], obj=0),
        dict(kind='nonuniform', dim=1, stripes=[[0.0, 0.5, 0.75, 1.0]], levels=[[0, 1, 2, 0]], lam=0.125, ml=False, numeric=False,
             data=[[0.25], [0.5], [0.875]], classes=None, points=[[0.3]], obj=0)]),
]


# ----------------------------------------------------------------------------------------------- implementation
def _stripes_of(case):
    if 'lv' in case:
        return [[i / 2 ** l for i in range(2 ** l + 1)] for l in case['lv']]
    return case['stripes']


def _surpluses(case, N):
    import random
    r = random.Random(case['surplus_seed'])
    return [r.randrange(-16, 17) / 8 for _ in range(N)]


def _exc_tuple(e):
    tb = traceback.extract_tb(e.__traceback__)
    where = ''
    for f in reversed(tb):
        if REPO in f.filename:
            where = '%s:%d' % (os.path.relpath(f.filename, REPO), f.lineno)
            break
    return (type(e).__name__, where, str(e)[:300])


def _state_entry(state, case):
    """operation object of a step: a fresh one, or the living object `obj` of the history with its options re-assigned"""
    import numpy as np
    dw = case['kind'].startswith('nonuniform')
    if state is None or case.get('obj') is None:
        return {'op': _de.make_op(case, dw), 'combi': None}
    key = (case['obj'], dw)
    ent = state.get(key)
    if ent is None:
        ent = state[key] = {'op': _de.make_op(case, dw), 'combi': None}
    else:
        op = ent['op']
        op.lambd = case.get('lam', 0.0)
        op.masslumping = bool(case.get('ml'))
        op.classes = np.array(case['classes']) if case.get('classes') is not None else None
    return ent


def _run_step(state, case):
    import numpy as np
    from sparseSpACE.ComponentGridInfo import ComponentGridInfo
    from sparseSpACE.Utils import get_cross_product_range_list
    kind = case['kind']
    dim = case['dim']
    P = np.array(case['points'], dtype=float).reshape(len(case['points']), dim)
    ent = _state_entry(state, case)
    op = ent['op']
    out = {}
    if kind == 'combi':
        from sparseSpACE.StandardCombi import StandardCombi
        from sparseSpACE.Utils import print_levels, log_levels
        if ent['combi'] is None:
            ent['combi'] = StandardCombi(np.zeros(dim), np.ones(dim), operation=op, print_level=print_levels.ERROR,
                                         log_level=log_levels.ERROR)
        combi = ent['combi']
        combi.perform_operation(case['lmin'], case['lmax'])
        out['scheme'] = [([int(x) for x in g.levelvector], float(g.coefficient)) for g in combi.scheme]
        out['surpluses'] = {','.join(str(int(x)) for x in g.levelvector): _de.tolist(op.surpluses[tuple(g.levelvector)])
                            for g in combi.scheme}
        out['combi'] = _de.tolist(np.asarray(combi([tuple(p) for p in P])).reshape(-1))
        out['data'] = _de.tolist(op.data)
        return out
    uniform = kind.startswith('uniform')
    large = kind.endswith('large')
    out['data'] = _de.tolist(op.data)
    for rep in range(2 if case.get('repeat') else 1):
        if uniform:
            lv = tuple(int(l) for l in case['lv'])
            op.grid.setCurrentArea(np.zeros(dim), np.ones(dim), lv)
            N = int(op.grid.get_num_points())
            out['b'] = _de.tolist(op.calculate_B(op.data, lv))
            if not large:
                R = op.build_R_matrix(lv)
                out['R'] = _de.tolist(R) if not case.get('ml') else [[float(R)]]
                alphas = op.solve_density_estimation(lv)
                out['alphas'] = _de.tolist(alphas)
            else:
                alphas = np.array(_surpluses(case, N))
        else:
            stripes = [list(s) for s in case['stripes']]
            levels = [list(l) for l in case['levels']]
            grid = op.grid
            grid.set_grid(stripes, levels)
            N = int(np.prod([len(s) - 2 for s in stripes]))
            key = tuple(max(l) for l in levels)
            out['b'] = _de.tolist(op.calculate_B_dimension_wise(op.data, stripes, levels))
            _, w = grid.get_points_and_weights()
            out['weights'] = _de.tolist(w)
            if not large:
                R = op.build_R_matrix_dimension_wise(stripes, levels)
                out['R'] = _de.tolist(R) if not case.get('ml') else [_de.tolist(R)]
                alphas = op.solve_density_estimation_dimension_wise(stripes, levels, ComponentGridInfo(key, 1))
                out['alphas'] = _de.tolist(alphas)
            else:
                alphas = np.array(_surpluses(case, N))
    if len(P) == 0:
        return out
    if uniform:
        hats = np.array(get_cross_product_range_list(op.grid.numPoints), dtype=int) + 1
        lva = np.array(lv, dtype=int)
        out['hat_cv'] = _de.tolist(op.hat_function_in_support_completely_vectorized(hats, lva, P))
        if not large:
            out['hat_scalar'] = [[float(op.hat_function(h, lv, x)) for h in hats] for x in P]
        ins = []
        for x in P:
            hs = op.get_hats_in_support(lv, x)
            if len(hs) == 0:
                ins.append([])
                continue
            v = op.hat_function_in_support_vectorized(np.array(hs, dtype=int), lva, x)
            v1 = [float(op.hat_function_in_support(np.array(h, dtype=int), lva, x)) for h in hs]
            ins.append([([int(i) for i in h], float(a), b) for h, a, b in zip(hs, v, v1)])
        out['hat_insupp'] = ins
        op.surpluses[lv] = alphas
        out['interp'] = _de.tolist(np.asarray(op.interpolate_points_component_grid(
            ComponentGridInfo(lv, 1), None, [tuple(p) for p in P])).reshape(-1))
    else:
        points, lower, upper = op.get_hat_domain_for_every_grid_point_vectorized(stripes)
        out['hat_cv'] = _de.tolist(op.hat_function_non_symmetric_completely_vectorized(points, lower, upper, P))
        if not large:
            out['hat_scalar'] = [[float(op.hat_function_non_symmetric(points[i], list(zip(lower[i], upper[i])), x))
                                  for i in range(len(points))] for x in P]
        vec = []
        for x in P:
            hs, idx = op.get_neighbors_optimized(tuple(x), stripes)
            if len(hs) == 0:
                vec.append([])
                continue
            supports = [op.get_grid_points_with_support(h, stripes, skip_equal_point=True)[0] for h in hs]
            v = op.hat_function_non_symmetric_vectorized(hs, supports, x)
            vec.append([([float(c) for c in h], float(a)) for h, a in zip(hs, v)])
        out['hat_vec'] = vec
        op.surpluses[key] = alphas
        out['interp'] = _de.tolist(np.asarray(op.interpolate_points_component_grid(
            ComponentGridInfo(key, 1), None, [tuple(p) for p in P])).reshape(-1))
    if case.get('post'):
        op.post_processing()        # end of a refinement step: with reuse_old_values the right-hand sides become the "old" ones
    return out


def _scripted(seed):
    import random as _random
    from sparseSpACE.ErrorCalculator import ErrorCalculator

    class Scripted(ErrorCalculator):
        """deterministic errors that depend only on the geometry of the refinement object"""
        def calc_error(self, ro, norm, volume_weights=None):
            key = (float(ro.start), float(ro.end), int(getattr(ro, 'this_dim', -1)))
            r = _random.Random('%s/%r' % (seed, key))
            return r.choice([0.0, 0.125, 0.25, 0.5, 0.5, 1.0, 1.0, 2.0, 4.0])
    return Scripted()


def _run_adaptive(case):
    """dimension-wise spatially adaptive run on ONE operation object; logs every component-grid solve"""
    import numpy as np
    from sparseSpACE.GridOperation import DensityEstimation
    from sparseSpACE.Utils import print_levels, log_levels
    from sparseSpACE.spatiallyAdaptiveSingleDimension2 import SpatiallyAdaptiveSingleDimensions2
    log = []

    class LoggingDE(DensityEstimation):
        def build_R_matrix_dimension_wise(self, stripes, levels):
            R = super().build_R_matrix_dimension_wise(stripes, levels)
            self._cur = dict(R=_de.tolist(R) if not self.masslumping else [_de.tolist(R)])
            return R

        def calculate_B_dimension_wise(self, data, stripes, levels):
            b = super().calculate_B_dimension_wise(data, stripes, levels)
            self._cur['b'] = _de.tolist(b)
            return b

        def solve_density_estimation_dimension_wise(self, stripes, levels, cg):
            a = super().solve_density_estimation_dimension_wise(stripes, levels, cg)
            out = dict(self._cur, alphas=_de.tolist(a), weights=_de.tolist(self.grid.get_points_and_weights()[1]),
                       data=_de.tolist(self.data))
            log.append(dict(lv=[int(x) for x in cg.levelvector], stripes=[[float(v) for v in s] for s in stripes],
                            levels=[[int(v) for v in l] for l in levels], out=out))
            return a

    dim = case['dim']
    op = _de.make_op(dict(case, kind='nonuniform'), True, cls=LoggingDE)
    a = np.zeros(dim); b = np.ones(dim)
    S = SpatiallyAdaptiveSingleDimensions2(a, b, operation=op, margin=case['margin'], rebalancing=case['rebalancing'],
                                           rebalancing_safety_factor=0.2, log_level=log_levels.ERROR, print_level=print_levels.ERROR)
    ec = _scripted(case['est_seed'])
    P = [tuple(p) for p in case['points']]
    stops = []
    for k in range(case['nsteps'] + 1):
        if k == 0:
            S.performSpatiallyAdaptiv(case['lmin'], case['lmax'], ec, -1, max_evaluations=1, print_output=False)
        else:
            S.refine()
            S.continue_adaptive_refinement(tol=-1, max_evaluations=1)
        st = dict(nlog=len(log), scheme=[([int(x) for x in g.levelvector], float(g.coefficient)) for g in S.scheme], grids=[])
        for g in S.scheme:
            sp = S.get_point_coord_for_each_dim(g.levelvector)[0]
            st['grids'].append(dict(stripes=[[float(v) for v in s] for s in sp], surpluses=_de.tolist(op.surpluses[tuple(g.levelvector)])))
        st['density'] = _de.tolist(np.asarray(S(P)).reshape(-1))
        stops.append(st)
    return dict(log=log, stops=stops)


def impl_history(hist):
    """all steps of a history in ONE process; per step (status, value) like run_impl"""
    state = {}
    res = []
    for step in hist['steps'] if isinstance(hist, dict) else hist:
        try:
            res.append(('ok', _run_step(state, step)))
        except BaseException as e:           # exceptions are first-class observables, the history goes on
            res.append(('exc', _exc_tuple(e)))
    return res


def impl_case(case):
    if case.get('history'):                      # pseudo-case of a history step: replays the whole history up to this step
        state = {}
        steps = case['history']
        for step in steps[:-1]:
            try:
                _run_step(state, step)
            except BaseException:
                pass
        return _run_step(state, steps[-1])
    if case['kind'] == 'adaptive':
        return _run_adaptive(case)
    if 'adaptive' in case:                       # pseudo-case of one logged solve of an adaptive run
        return _run_adaptive(case['adaptive'])['log'][case['log_index']]['out']
    return _run_step(None, case)


def _preimport():
    """import (only) the implementation in the pool worker, so that the forked children need not"""
    import numpy, scipy.integrate, sklearn.preprocessing                         # noqa: F401
    import sparseSpACE.GridOperation, sparseSpACE.StandardCombi, sparseSpACE.Grid   # noqa: F401
    import sparseSpACE.spatiallyAdaptiveSingleDimension2, sparseSpACE.ErrorCalculator  # noqa: F401


def _isolated(fn, arg):
    """fn(arg) in a forked child of the pool worker: EVERY case / history starts from the pristine import state of the
    implementation (class attributes, module globals), whatever ran before in this worker - so a violation replays from
    its own case alone.  The worker itself never executes implementation code.  Returns (status, value)."""
    import pickle
    import signal
    _preimport()
    r, w = os.pipe()
    pid = os.fork()
    if pid == 0:
        code = 0
        try:
            os.close(r)
            signal.alarm(0)
            try:
                res = ('ok', fn(arg))
            except BaseException as e:
                res = ('exc', _exc_tuple(e))
            with os.fdopen(w, 'wb') as f:
                pickle.dump(res, f)
        except BaseException:
            code = 1
        finally:
            os._exit(code)
    os.close(w)
    try:
        with os.fdopen(r, 'rb') as f:
            data = f.read()
        os.waitpid(pid, 0)
        pid = None
    finally:
        if pid is not None:             # time limit of run_impl hit while waiting
            try:
                os.kill(pid, signal.SIGKILL)
                os.waitpid(pid, 0)
            except OSError:
                pass
    if not data:
        return ('exc', ('WorkerDied', '', 'the forked implementation process ended without a result'))
    return pickle.loads(data)


def iso_case(case):
    return _isolated(impl_case, case)


def iso_history(hist):
    return _isolated(impl_history, hist)


def _unwrap(results):
    """run_impl wraps once more: ('ok', (status, value)) | ('timeout', None) | ('exc', ...) of the harness itself"""
    return [v if st == 'ok' else (st, v) for st, v in results]


# ----------------------------------------------------------------------------------------------- specification worker
def spec_case(case):
    """exact-rational reference (runs in a worker only for speed; does not touch the implementation)"""
    kind = case['kind']
    if kind in ('combi', 'adaptive'):
        return None
    stripes = fr(_stripes_of(case))
    data = fr(case['data'])
    signs = [F(s) for s in case['classes']] if case.get('classes') is not None else None
    lam = sx.rat(case.get('lam', 0.0))
    out = {'b': _de.spec_rhs(stripes, data, signs)}
    uniform = kind.startswith('uniform')
    out['weights'] = _de.trap_weights(stripes)
    if kind.endswith('large'):
        return out
    if case.get('ml'):
        dg = _de.spec_gram_diag(stripes)
        n = len(dg)
        if uniform:
            out['R'] = [[dg[0]]]
            raw = [bi / dg[0] for bi in out['b']]
        else:
            out['R'] = [[dg[i] + lam for i in range(n)]]
            raw = [bi / (dg[i] + lam) for i, bi in enumerate(out['b'])]
        out['pivots_ok'] = True
    else:
        G0 = _de.spec_gram(stripes, F(0))
        n = len(G0)
        G = [[G0[i][j] + (lam if i == j else 0) for j in range(n)] for i in range(n)]
        out['R'] = G
        raw, piv = _de.solve_exact(G, out['b'])
        out['pivots_ok'] = piv is not None and all(p > 0 for p in piv)
    out['raw'] = raw
    w = [F(1)] * n if uniform else out['weights']
    fin, integ = _de.spec_normalise(raw, w, signs is not None)
    out['alphas'] = fin
    out['integral'] = integ
    return out


# ----------------------------------------------------------------------------------------------- comparison
def _sig(case, obs, **kw):
    s = dict(path=case['kind'], obs=obs, ml=bool(case.get('ml')), entries='numeric' if case.get('numeric') else 'analytic',
             labelled=case.get('classes') is not None)
    if case.get('history'):
        s['history'] = True
        s['step'] = len(case['history']) - 1
    if 'adaptive' in case:
        s['adaptive'] = True
    s.update(kw)
    return s


def _key(case):
    return (case['kind'], str(case.get('lv') or case.get('stripes') or (case.get('lmin'), case.get('lmax'))),
            case.get('lam'), bool(case.get('ml')), bool(case.get('numeric')), str(case['data']), str(case.get('classes')),
            str([(s.get('obj'), s.get('lam'), s.get('lv') or s.get('stripes') or s.get('lmax')) for s in case['history']])
            if case.get('history') else '', case.get('log_index', -1), bool(case.get('debug')), bool(case.get('repeat')))


def _nontrivial(case):
    if case['kind'] in ('combi', 'adaptive'):
        return case['dim'] >= 2
    return _N(_stripes_of(case)) >= 3 and len(case['data']) >= 2


def _bucket(n, edges):
    for e in edges:
        if n <= e:
            return '<=%d' % e
    return '>%d' % edges[-1]


def _count_axes(chk, c):
    k = c['kind']
    chk.count('kind=' + k)
    chk.count('dim=%d' % c['dim'])
    chk.count('lambda=%g' % c.get('lam', 0.0))
    chk.count('samples ' + _bucket(len(c['data']), [1, 8, 30, 128, 1024, 4096]))
    if k not in ('combi', 'adaptive'):
        chk.count('grid points ' + _bucket(_N(_stripes_of(c)), [1, 8, 49, 199, 260, 1023, 2047]))
    if c.get('ml'): chk.count('masslumping')
    cl = c.get('classes')
    chk.count('labels=' + ('none' if cl is None else ('one-class' if len(set(cl)) == 1 else 'two-classes')))
    for flag in ('numeric', 'debug', 'pre_scaled', 'explicit_grid', 'repeat', 'xl', 'reuse'):
        if c.get(flag): chk.count('option:' + flag)
    if c.get('data_form'): chk.count('option:data_form=' + c['data_form'])
    if c.get('history'):
        if c.get('reuse') and c.get('post') and len(c['history']) > 1 and _N(_stripes_of(c)) >= _de.THRESHOLD:
            chk.count('reuse_old_values: rhs of a >=200-point grid after a previous step (copied + new entries)')
        chk.count('history-step=%d' % (len(c['history']) - 1))
        prev = c['history'][:-1]
        dw = lambda kk: kk.startswith('nonuniform')
        if any(s.get('obj') == c.get('obj') and dw(s['kind']) == dw(c['kind']) for s in prev):
            chk.count('history:object-reused')
            last = [s for s in prev if s.get('obj') == c.get('obj') and dw(s['kind']) == dw(c['kind'])][-1]
            if last.get('lam') != c.get('lam'): chk.count('history:lambda-changed-on-object')
            if bool(last.get('ml')) != bool(c.get('ml')): chk.count('history:lumping-changed-on-object')
            if (last.get('lv') or last.get('stripes')) == (c.get('lv') or c.get('stripes')): chk.count('history:same-grid-again')
            elif 'stripes' in c and 'stripes' in last and [len(s) for s in last['stripes']] == [len(s) for s in c['stripes']]:
                chk.count('history:other-tree-same-size')
        elif prev:
            chk.count('history:fresh-object-after-others')
            if any((s.get('lv') or s.get('stripes')) == (c.get('lv') or c.get('stripes')) and s.get('lam') != c.get('lam') for s in prev):
                chk.count('history:same-grid-other-lambda-fresh-object')
    if 'adaptive' in c: chk.count('adaptive:logged-solve')


def process(chk, cases, verbose=False, impl=None):
    """runs implementation (unless given), specification and model on the cases and reports; returns number of reported violations"""
    nv0 = len(chk.violations)
    T = chk.extra.setdefault('timing_s', {})

    def tick(name, t0):
        T[name] = round(T.get(name, 0.0) + time.time() - t0, 1)
    cases = list(cases)
    t0 = time.time()
    impl = list(impl) if impl is not None else _unwrap(run_impl(iso_case, cases, limit=400))
    tick('implementation', t0)
    # adaptive runs: one pseudo-case per logged component-grid solve
    for c, (st, r) in list(zip(cases, impl)):
        if c['kind'] == 'adaptive' and st == 'ok':
            for i, rec in enumerate(r['log']):
                cases.append(dict(kind='nonuniform', dim=c['dim'], stripes=rec['stripes'], levels=rec['levels'], lam=c['lam'],
                                  ml=c['ml'], numeric=False, data=c['data'], classes=c['classes'], points=[], adaptive=c, log_index=i))
                impl.append(('ok', rec['out']))
    t0 = time.time()
    spec = run_impl(spec_case, cases, limit=900)
    tick('specification', t0)
    # ---- model round 1: system matrix, rhs, weights
    t0 = time.time()
    m1 = []
    for c in cases:
        signs = c['classes'] if c.get('classes') is not None else []
        data = fr(c['data'])
        k = c['kind']
        if k == 'uniform':
            m1.append((0, [c['lv'], sx.rat(c['lam']), bool(c['ml']), data, signs]))
        elif k == 'nonuniform':
            m1.append((1, [fr(c['stripes']), sx.rat(c['lam']), bool(c['ml']), data, signs]))
        elif k == 'uniform-large':
            m1.append((11, [c['lv'], data, signs]))
        elif k == 'nonuniform-large':
            m1.append((10, [fr(c['stripes']), data, signs]))
        else:
            m1.append((99, []))
    r1 = run_model(16, m1)
    tick('model-1 (matrix, rhs)', t0)
    # ---- model round 2: certificate check + normalisation ; own solve ; hats ; large-path rhs
    t0 = time.time()
    m2, m2i = [], []

    def add(i, tag, sub, val):
        m2.append((sub, val)); m2i.append((i, tag))
    for i, c in enumerate(cases):
        k = c['kind']
        st_i, ri = impl[i]
        st_s, sp = spec[i]
        if k in ('combi', 'adaptive') or st_i != 'ok' or st_s != 'ok' or sx.is_err(r1[i]):
            continue
        uniform = k.startswith('uniform')
        P = fr(c['points'])
        N = _N(_stripes_of(c))
        signs = c['classes'] if c.get('classes') is not None else []
        grid = c['lv'] if uniform else fr(c['stripes'])
        if not k.endswith('large'):
            G = qmat(r1[i][0]); b = qvec(r1[i][1])
            w = qvec(r1[i][2]) if not uniform else []
            cert = sp['raw'] if (not c.get('ml') and sp['raw'] is not None) else []
            cost = N * sum((x.numerator.bit_length() + x.denominator.bit_length()) ** 2 for x in cert)     # ~1e8 per second
            if (N <= CERT_MAX and cost <= CERT_COST) or c.get('ml'):
                add(i, 'finish', 2, [uniform, bool(c.get('ml')), G, b, cert, c.get('classes') is not None, w])
            if N <= PIPE_MAX and cost * N <= 2 * CERT_COST:
                add(i, 'pipeline', 13 if uniform else 12, [grid, sx.rat(c['lam']), bool(c.get('ml')), fr(c['data']), signs,
                                                            c.get('classes') is not None])
        if k.endswith('large') or N >= _de.THRESHOLD:
            add(i, 'rhs_large', 7 if uniform else 6, [grid, fr(c['data']), signs])
        if P:
            add(i, 'hats', 5 if uniform else 4, [grid, P])
    r2 = run_model(16, m2)
    res2 = {}
    for (i, tag), r in zip(m2i, r2):
        res2[(i, tag)] = r
    tick('model-2 (solve, hats)', t0)
    # ---- model round 3: interpolation with the model's final surpluses
    t0 = time.time()
    m3, m3i = [], []
    for i, c in enumerate(cases):
        k = c['kind']
        if k in ('combi', 'adaptive') or impl[i][0] != 'ok' or not c['points']:
            continue
        uniform = k.startswith('uniform')
        if k.endswith('large'):
            al = fr(_surpluses(c, _N(_stripes_of(c))))
        elif (i, 'finish') in res2:
            f = res2.get((i, 'finish'))
            if f is None or sx.is_err(f) or not f[0]:
                continue
            al = qvec(f[2])
        else:
            if 'alphas' not in impl[i][1]:
                continue
            al = fr(impl[i][1]['alphas'])       # beyond CERT_MAX: interpolant of the (exact image of the) implementation's surpluses
        m3.append((9 if uniform else 8, [c['lv'] if uniform else fr(c['stripes']), al, fr(c['points'])])); m3i.append(i)
    r3 = dict(zip(m3i, run_model(16, m3)))
    tick('model-3 (interpolation)', t0)

    t0 = time.time()
    keys, samples = [], []
    for i, c in enumerate(cases):
        k = c['kind']
        _count_axes(chk, c)
        if k == 'combi':
            _check_combi(chk, c, impl[i], verbose)
            if impl[i][0] == 'ok' and _nontrivial(c):
                keys.append(_key(c))
            continue
        if k == 'adaptive':
            _check_adaptive(chk, c, impl[i], verbose)
            if impl[i][0] == 'ok' and _nontrivial(c):
                keys.append(_key(c))
            continue
        st_i, ri = impl[i]
        st_s, sp = spec[i]
        if st_s != 'ok':
            chk.violation('oracle:spec', 'spec-failed', {'path': k}, c, str(sp), failing_input=False)
            continue
        if st_i != 'ok':
            chk.violation('corr:C16/' + k, 'impl-exception', _sig(c, 'exception', exc=ri[0] if ri else st_i), c, dict(impl=str(ri)))
            continue
        chk.traces += 1
        if fr(ri['data']) != fr(c['data']):
            chk.violation('corr:C16/data', 'data-rescaled', _sig(c, 'data'), c, 'initialize() changed data inside the unit cube')
            continue
        if sx.is_err(r1[i]) or isinstance(r1[i], tuple):
            chk.violation('corr:C16/' + k, 'model-rejects', {'path': k}, c, str(r1[i])[:300], failing_input=False)
            continue
        uniform = k.startswith('uniform')
        large = k.endswith('large')
        N = _N(_stripes_of(c))
        bad = False
        # ---------------- matrix
        if not large and 'R' in ri:
            Rm = qmat(r1[i][0]); Ri = fr(ri['R']); Rs = sp['R']
            relR = REL_M + (64 * _de.EPS * _de.cancellation_amp(_stripes_of(c)) if not uniform else 0)
            ok_m = mat_close(Ri, Rm, relR); ok_s = mat_close(Ri, Rs, relR)
            if not (ok_m and ok_s):
                err = _de.max_rel_err(Ri, Rs) if len(Ri) == len(Rs) else -1
                sg = _sig(c, 'R'); sg.pop('labelled')
                chk.violation('corr:C16/R' if not ok_m else 'oracle:gram_matrix', 'matrix-differs', sg, c,
                              dict(max_rel_err_vs_exact_gram=err, impl_vs_model=ok_m, impl_vs_spec=ok_s,
                                   impl=str(ri['R'])[:500], exact=str([[float(x) for x in r] for r in Rs])[:500]),
                              failing_input=not ok_s)
                bad = True
            elif not c.get('ml'):
                if N <= CERT_MAX:
                    spd, why = _de.is_spd(Ri)
                else:
                    spd, why = _float_spd(ri['R'])
                chk.count('spd-checks')
                if not spd or not sp['pivots_ok']:
                    chk.violation('oracle:spd', 'not-spd', _sig(c, 'R'), c, dict(why=why))
                    bad = True
        # ---------------- right-hand side
        if 'b' in ri:
            bi = fr(ri['b'])
            bm = qvec(r1[i][1]) if not large else qvec(r1[i])
            ok_m = vec_close(bi, bm, REL_M); ok_s = vec_close(bi, sp['b'], REL_M)
            if (i, 'rhs_large') in res2:
                bl = res2.get((i, 'rhs_large'))
                chk.count('rhs large-grid path (N>=200) vs rhs_large')
                ok_m = ok_m and not sx.is_err(bl) and vec_close(bi, qvec(bl), REL_M)
            if not (ok_m and ok_s):
                chk.violation('corr:C16/b' if not ok_m else 'oracle:rhs_sample_mean', 'rhs-differs', _sig(c, 'b'), c,
                              dict(impl=str(ri['b'])[:400], exact=str([float(x) for x in sp['b']])[:400], impl_vs_model=ok_m,
                                   impl_vs_spec=ok_s), failing_input=not ok_s)
                bad = True
        # ---------------- weights (non-uniform)
        if not uniform and 'weights' in ri:
            wm = qvec(r1[i][2]) if not large else sp['weights']
            if not (vec_close(fr(ri['weights']), wm, REL_M) and vec_close(fr(ri['weights']), sp['weights'], REL_M)):
                chk.violation('corr:C16/weights', 'weights-differ', _sig(c, 'weights'), c,
                              dict(impl=str(ri['weights'])[:300], model=str([float(x) for x in wm])[:300]), failing_input=False)
                bad = True
        # ---------------- hat variants
        if 'hat_cv' in ri:
            hm = res2.get((i, 'hats'))
            why = _check_hats(c, ri, hm, uniform, large)
            if why:
                pt = why[1].get('point') if isinstance(why[1], dict) else None
                nn = bool(pt) and _de.near_node(fr(_stripes_of(c)), [fr(pt)])
                sg = dict(path=k, variant=why[0], near_node=nn)
                chk.violation('corr:C16/hats', 'hat-variants-differ', sg, c, why[1])
                bad = True
        # ---------------- solve + normalisation
        if not large and not bad and 'alphas' in ri:
            if (i, 'finish') in res2:
                f = res2.get((i, 'finish'))
                if f is None or sx.is_err(f):
                    chk.violation('corr:C16/solve', 'model-rejects', {'path': k}, c, str(f)[:300], failing_input=False)
                    continue
                chk.count('certificates-checked')
                if not f[0]:
                    chk.violation('checker:check_solution', 'certificate-rejected', {'path': k}, c,
                                  'exact solution of the specification system does not solve the model system', failing_input=False)
                    continue
                fin_m = qvec(f[2]); integ_m = sx.q(f[3])
            else:
                # beyond CERT_MAX: exact residual of the specification's solution in the MODEL system, computed here
                chk.count('certificates-checked-in-python (N>%d or long rationals)' % CERT_MAX)
                Gm = qmat(r1[i][0]); bm_ = qvec(r1[i][1]); raw = sp['raw']
                if raw is None or any(sum((g * x for g, x in zip(row, raw) if g != 0), F(0)) != bb for row, bb in zip(Gm, bm_)):
                    chk.violation('checker:python-residual', 'certificate-rejected', {'path': k}, c,
                                  'exact solution of the specification system does not solve the model system', failing_input=False)
                    continue
                fin_m = sp['alphas']; integ_m = sp['integral']
            pm = res2.get((i, 'pipeline'))
            if (i, 'pipeline') in res2:
                chk.count('model-own-solve')
                if sx.is_err(pm) or qvec(pm[0]) != qvec(f[1]) or qvec(pm[1]) != fin_m or sx.q(pm[2]) != integ_m:
                    chk.violation('corr:C16/model-solve', 'model-solve-differs', {'path': k}, c,
                                  dict(note='Model/GramSolve.v pipeline does not reproduce the certified exact solution', model=str(pm)[:300]),
                                  failing_input=False)
                    continue
            ai = fr(ri['alphas'])
            if integ_m == 0 and not vec_close(ai, fin_m, REL_S):
                chk.count('ambiguous-zero-integral')        # float decision `integral == 0` on an exactly vanishing mean
                continue
            ok_m = vec_close(ai, fin_m, REL_S); ok_s = vec_close(ai, sp['alphas'], REL_S)
            if not (ok_m and ok_s):
                chk.violation('corr:C16/surpluses' if not ok_m else 'oracle:normal_equations', 'surpluses-differ',
                              _sig(c, 'alphas'), c, dict(impl=str(ri['alphas'])[:400], exact=str([float(x) for x in sp['alphas']])[:400],
                                                        impl_vs_model=ok_m, impl_vs_spec=ok_s), failing_input=not ok_s)
                bad = True
            else:
                # the property clause itself, on the implementation output: weighted mean of positive parts is one
                w = [F(1)] * len(ai) if uniform else fr(ri['weights'])
                mp = _de.mean_pos(ai, w)
                if sp['integral'] != 0 and not _de.close(mp, 1, 1e-9):
                    chk.violation('oracle:normalised', 'mean-pos-not-one', _sig(c, 'alphas'), c, dict(mean_pos=float(mp)))
                    bad = True
        # ---------------- interpolation of the component grid
        if not bad and i in r3 and 'interp' in ri:
            im = r3[i]
            if sx.is_err(im) or not vec_close(fr(ri['interp']), qvec(im), REL_S if not large else REL_M):
                chk.violation('corr:C16/interp', 'interpolation-differs', _sig(c, 'interp'), c,
                              dict(impl=str(ri['interp'])[:300], model=str([float(x) for x in qvec(im)] if not sx.is_err(im) else im)[:300],
                                   points=c['points']))
                bad = True
        if verbose:
            print('case', i, k, 'ok' if not bad else 'DIFFERS')
        if _nontrivial(c):
            keys.append(_key(c))
        if len(samples) < 3 and not bad and not large and _nontrivial(c) and c['dim'] >= 2 and 'adaptive' not in c and c['points'] and 'alphas' in ri:
            samples.append(dict(case={kk: c[kk] for kk in c if kk not in ('points', 'history')},
                                in_history=bool(c.get('history')), impl_surpluses=ri['alphas'][:8],
                                model_surpluses=[float(x) for x in fin_m][:8]))
    tick('comparison', t0)
    chk.record_cases(len(cases), keys,
                     'DensityEstimation direct calls: uniform level vectors (d 1..5), non-uniform stripes (dyadic subsets, d 1..4), complete '
                     'pipeline up to 260 grid points, right-hand side / interpolation up to 2047 points, up to 4100 samples; StandardCombi runs '
                     '(component grids on both sides of the 200-point threshold); dimension-wise adaptive runs (every logged solve); histories on '
                     'one object / in one process (regularisation sweeps, level vectors revisited, other tree of the same size, option changes, '
                     'repeated calls, combi re-runs); data on dyadic lattices incl. grid lines and the boundary, lambda in '
                     '{0, 2^-20, .01, .125, .25, .3, .3125, .5, 1, 4, 100}, mass lumping, labels (two classes / one class), numeric entries, debug, '
                     'pre_scaled_data, tuple data, explicit grid; non-trivial = at least 3 grid points and 2 samples (combi, adaptive: d>=2); '
                     'distinct by full case (history steps: by the history prefix)',
                     samples)
    return len(chk.violations) - nv0


def _float_spd(R):
    import numpy as np
    A = np.array(R, dtype=float)
    if not (A == A.T).all():
        return False, 'not symmetric'
    try:
        np.linalg.cholesky(A)
    except np.linalg.LinAlgError:
        return False, 'floating Cholesky factorisation failed'
    return True, ''


def _check_hats(c, ri, hm, uniform, large):
    if hm is None or sx.is_err(hm):
        return ('model', 'model rejected the hat evaluation')
    P = c['points']
    cv = ri['hat_cv']
    for pi in range(len(P)):
        col = hm[pi]
        for hi in range(len(col)):
            clamped = sx.q(col[hi][1] if not uniform else col[hi][0])
            scal = sx.q(col[hi][0])
            if not _de.close(sx.rat(cv[pi][hi]), clamped, REL_M):
                return ('completely_vectorized', dict(point=P[pi], hat=hi, impl=cv[pi][hi], model=float(clamped)))
            if not large and not _de.close(sx.rat(ri['hat_scalar'][pi][hi]), scal, REL_M):
                return ('scalar', dict(point=P[pi], hat=hi, impl=ri['hat_scalar'][pi][hi], model=float(scal)))
            if not large and sx.rat(ri['hat_scalar'][pi][hi]) != sx.rat(cv[pi][hi]) and not _de.close(
                    sx.rat(ri['hat_scalar'][pi][hi]), sx.rat(cv[pi][hi]), REL_M):
                return ('scalar-vs-vectorized', dict(point=P[pi], hat=hi))
    if uniform:
        lv = c['lv']
        idx = list(itertools.product(*[range(1, 2 ** l) for l in lv]))
        pos = {t: n for n, t in enumerate(idx)}
        for pi, lst in enumerate(ri['hat_insupp']):
            seen = set()
            for h, a, b in lst:
                n = pos.get(tuple(h))
                if n is None:
                    return ('in_support', dict(point=P[pi], hat=h, why='not a grid index'))
                seen.add(n)
                mv = sx.q(hm[pi][n][1])
                if not _de.close(sx.rat(a), mv, REL_M) or not _de.close(sx.rat(b), mv, REL_M):
                    return ('in_support', dict(point=P[pi], hat=h, impl=(a, b), model=float(mv)))
            # hats not reported as "in support" must vanish at the point
            for n in range(len(idx)):
                if n not in seen and sx.q(hm[pi][n][0]) != 0:
                    return ('in_support', dict(point=P[pi], hat=idx[n], why='hat with non-zero value missing from get_hats_in_support'))
    else:
        st = c['stripes']
        pts = list(itertools.product(*[s[1:-1] for s in st]))
        pos = {tuple(float(x) for x in t): n for n, t in enumerate(pts)}
        for pi, lst in enumerate(ri['hat_vec']):
            seen = set()
            for h, a in lst:
                n = pos.get(tuple(h))
                if n is None:
                    return ('vectorized', dict(point=P[pi], hat=h, why='not a grid point'))
                seen.add(n)
                mv = sx.q(hm[pi][n][2]); ms = sx.q(hm[pi][n][0])
                if not _de.close(sx.rat(a), mv, REL_M) or mv != ms:
                    return ('vectorized', dict(point=P[pi], hat=h, impl=a, model=float(mv), scalar=float(ms)))
            for n in range(len(pts)):
                if n not in seen and sx.q(hm[pi][n][0]) != 0:
                    return ('vectorized', dict(point=P[pi], hat=pts[n], why='hat with non-zero value missing from the neighbours'))
    return None


def _check_combi(chk, c, res, verbose):
    """StandardCombi.perform_operation + combi(points): every component grid is re-derived by specification and model"""
    st, r = res
    if st != 'ok':
        chk.violation('corr:C16/combi', 'impl-exception', _sig(c, 'exception', exc=r[0] if r else st), c, dict(impl=str(r)))
        return
    chk.traces += 1
    sub = []
    for lv, coeff in r['scheme']:
        cc = dict(c, kind='uniform', lv=lv)
        sub.append(cc)
        N = _N(_stripes_of(cc))
        chk.count('combi component grid ' + ('N>=200' if N >= _de.THRESHOLD else 'N<200'))
    specs = [spec_case(cc) for cc in sub]
    signs = c['classes'] if c.get('classes') is not None else []
    m1 = run_model(16, [(0, [cc['lv'], sx.rat(cc['lam']), bool(cc['ml']), fr(cc['data']), signs]) for cc in sub])
    m2 = run_model(16, [(2, [True, bool(cc['ml']), qmat(a[0]), qvec(a[1]),
                             sp['raw'] if not cc.get('ml') else [], cc.get('classes') is not None, []])
                        for cc, a, sp in zip(sub, m1, specs)])
    grids = []
    for (lv, coeff), cc, sp, f in zip(r['scheme'], sub, specs, m2):
        ai = fr(r['surpluses'][','.join(map(str, lv))])
        if sx.is_err(f) or not f[0]:
            chk.violation('checker:check_solution', 'certificate-rejected', {'path': 'combi'}, cc, str(f)[:200], failing_input=False)
            return
        fin = qvec(f[2])
        if sx.q(f[3]) == 0 and not vec_close(ai, fin, REL_S):
            chk.count('ambiguous-zero-integral')
            return
        ok_m = vec_close(ai, fin, REL_S); ok_s = vec_close(ai, sp['alphas'], REL_S)
        if not (ok_m and ok_s):
            chk.violation('corr:C16/surpluses' if not ok_m else 'oracle:normal_equations', 'surpluses-differ',
                          _sig(cc, 'alphas', via='combi'), c, dict(component_grid=lv, impl=str(r['surpluses'])[:300],
                                                                   exact=str([float(x) for x in sp['alphas']])[:300]),
                          failing_input=not ok_s)
            return
        grids.append([lv, sx.rat(coeff), fin])
    total = run_model(16, [(14, [grids, fr(c['points'])])])[0]
    if sx.is_err(total) or not vec_close(fr(r['combi']), qvec(total), REL_S):
        chk.violation('corr:C16/combi', 'combined-density-differs', _sig(c, 'combi'), c,
                      dict(impl=r['combi'], model=[float(x) for x in qvec(total)] if not sx.is_err(total) else str(total), points=c['points']))
    elif verbose:
        print('combi ok', [float(x) for x in qvec(total)][:4])


def _check_adaptive(chk, c, res, verbose):
    """the densities S(points) at every stop = combination of the model interpolants of the component grids (the logged solves
    themselves are checked as pseudo-cases)"""
    st, r = res
    if st != 'ok':
        chk.violation('corr:C16/adaptive', 'impl-exception', _sig(c, 'exception', exc=r[0] if r else st), c, dict(impl=str(r)))
        return
    chk.traces += 1
    calls = []
    for stp in r['stops']:
        grids = [[fr(g['stripes']), sx.rat(coeff), fr(g['surpluses'])] for (lv, coeff), g in zip(stp['scheme'], stp['grids'])]
        calls.append((15, [grids, fr(c['points'])]))
    outs = run_model(16, calls)
    for n, (stp, tot) in enumerate(zip(r['stops'], outs)):
        chk.count('adaptive:stop')
        if sx.is_err(tot) or not vec_close(fr(stp['density']), qvec(tot), REL_S):
            chk.violation('corr:C16/adaptive', 'combined-density-differs', _sig(c, 'combi', stop=n), c,
                          dict(stop=n, impl=stp['density'], model=[float(x) for x in qvec(tot)] if not sx.is_err(tot) else str(tot),
                               points=c['points']))
            return
    if verbose:
        print('adaptive ok', len(r['stops']), 'stops', len(r['log']), 'solves')


def run(chk):
    # source-derived model: regenerate coq/Gen/DensityGen.v from the working tree BEFORE the obligations, so that the C16_gen_*
    # theorems are re-checked against the matrix-entry code and the scalar hats as they are now
    gen_info = _c16_gen.regenerate(chk)
    chk.coq_obligations(extra_props=_c16_gen.EXTRA_PROPS)
    gen_problem = _c16_gen.diagnose(chk, gen_info)
    rng = chk.rng
    q = chk.quick
    chk.extra['excluded_axes'] = EXCLUDED
    # the slow cases first (the pool works through the list in order)
    cases = [gen_xl(rng, True) for _ in range(chk.n(1, 4))]
    cases += [gen_xl(rng, False, dim=1 + k % 2) for k in range(chk.n(2, 6))]
    cases += [gen_combi(rng, large=True) for _ in range(chk.n(1, 3))]
    cases += list(CORPUS)
    cases += [gen_uniform(rng, q) for _ in range(chk.n(65, 400))]
    cases += [gen_nonuniform(rng, q) for _ in range(chk.n(75, 500))]
    cases += [gen_nonuniform(rng, q, numeric=True) for _ in range(chk.n(3, 12))]
    cases += [gen_bigM(rng, k) for k in range(chk.n(16, 32))]
    cases += [gen_large(rng, True, lab=k % 2 == 0) for k in range(chk.n(7, 20))]       # with and without labels in every run
    cases += [gen_large(rng, False, lab=k % 2 == 1) for k in range(chk.n(7, 20))]
    cases += [gen_combi(rng) for _ in range(chk.n(8, 40))]
    cases += [gen_adaptive(rng) for _ in range(chk.n(8, 30))]
    fams = ['lam-sweep', 'one-op-levels', 'one-op-trees', 'two-ops', 'combi-rerun', 'mixed-paths', 'threshold-crossing', 'reuse-rhs',
            'lam-sweep', 'one-op-trees', 'one-op-levels', 'reuse-rhs']
    hists = list(CORPUS_HISTORIES) + [gen_history(rng, fams[k % len(fams)]) for k in range(chk.n(40, 150))]
    t0 = time.time()
    impl = _unwrap(run_impl(iso_case, cases, limit=400))
    hres = _unwrap(run_impl(iso_history, hists, limit=400))
    chk.extra.setdefault('timing_s', {})['implementation'] = round(time.time() - t0, 1)
    for h, (st, steps) in zip(hists, hres):
        chk.count('history-family=' + h['family'])
        for k, step in enumerate(h['steps']):
            cases.append(dict(step, history=h['steps'][:k + 1]))
            impl.append(steps[k] if st == 'ok' else (st, steps))
    process(chk, cases, impl=impl)
    _c16_gen.finish(chk, gen_info, gen_problem)


def replay(chk, rep):
    c = rep['case']
    n = process(chk, [c], verbose=True)
    for v in chk.violations:
        print('check:', v['check'], 'kind:', v['kind'], 'failing_input:', v['failing_input'])
        print('detail:', str(v['detail'])[:1500])
    print('property predicate:', 'VIOLATED' if any(v['failing_input'] for v in chk.violations) else 'holds')
    return 1 if n else 0
