"""C16: density estimation solves the right linear system.
Correspondence  Model/Gram.v (extracted)  <->  GridOperation.DensityEstimation, plus the property's own predicate
(exact-rational specification in _de.py: Gram matrix by piecewise Simpson integration, sample-mean right-hand side,
exact solve, normalisation) evaluated on the implementation's outputs."""
import itertools
from fractions import Fraction as F

from .. import sx
from ..impl import run_impl
from ..model import run_model
from . import _de
from ._de import fr, qvec, qmat, vec_close, mat_close

ASSUMPTIONS = [
    'exact-arithmetic model over Qc; implementation floats are converted to exact rationals and compared with '
    'relative tolerance 1e-11 (matrix entries, right-hand sides, hat values) resp. 1e-9 (outputs of the LAPACK solve); for the '
    'non-uniform analytic entries the tolerance is enlarged by 64*eps*max_cells 6(x/h)^3 because the coded off-diagonal formula '
    'subtracts terms of size (x/h)^3 h (cancellation-aware bound, DESIGN section 3)',
    'the LAPACK solve is replaced by a certificate (exact rational solution computed by the harness) which the verified '
    'checker check_solution validates against the model matrix and right-hand side',
    'np.ceil(x - p + 1e-30) in hat_function_non_symmetric_vectorized is modelled as the step function [x >= p]',
    'grids without boundary points, basis not modified (the configuration DensityEstimation supports); data in the unit cube',
    'd-dimensional positive definiteness is tested per case by an exact LDL^T factorisation of the implementation matrix (not proved)',
]

REL_M = 1e-11     # matrix entries / rhs / hats
REL_S = 1e-9      # solver outputs


# ----------------------------------------------------------------------------------------------- generators
def gen_uniform(rng, quick):
    dim = rng.choice([1, 1, 2, 2, 2, 3])
    while True:
        lv = [rng.choice([1, 1, 2, 2, 3, 4]) for _ in range(dim)]
        N = 1
        for l in lv:
            N *= 2 ** l - 1
        if N <= (45 if quick else 49):
            break
    st = [[i / 2 ** l for i in range(2 ** l + 1)] for l in lv]
    M = rng.choice([1, 2, 3, 5, 8, 12, 20, 30])
    lab = rng.random() < 0.4
    c = dict(kind='uniform', dim=dim, lv=lv, lam=rng.choice([0.0, 0.0, 0.125, 0.25, 0.01, 1.0, 0.5]),
             ml=rng.random() < 0.25, data=_de.gen_data(rng, dim, M, st),
             classes=[rng.choice([-1, 1]) for _ in range(M)] if lab else None)
    c['points'] = c['data'][:6] + _de.eval_points(rng, dim, st, 6)
    return c


def gen_nonuniform(rng, quick, numeric=False):
    dim = rng.choice([1, 2, 2, 3]) if not numeric else rng.choice([1, 2])
    while True:
        sl = [_de.gen_stripe(rng, rng.choice([2, 3, 3, 4]), 1, 3 if numeric else 7) for _ in range(dim)]
        N = 1
        for s, _ in sl:
            N *= len(s) - 2
        if N <= (6 if numeric else (40 if quick else 48)):
            break
    st = [s for s, _ in sl]
    M = rng.choice([1, 2, 3, 5, 8, 12, 20, 30])
    lab = rng.random() < 0.4
    c = dict(kind='nonuniform', dim=dim, stripes=st, levels=[l for _, l in sl],
             lam=rng.choice([0.0, 0.0, 0.125, 0.25, 0.01, 1.0, 0.5]), ml=(rng.random() < 0.25) and not numeric,
             numeric=numeric, data=_de.gen_data(rng, dim, M, st),
             classes=[rng.choice([-1, 1]) for _ in range(M)] if lab else None)
    c['points'] = c['data'][:6] + _de.eval_points(rng, dim, st, 6, ulp=0.06)
    return c


def gen_large(rng, uniform):
    """grids on the far side of the 200-point threshold: right-hand side and interpolation only (no solve)"""
    if uniform:
        lv = rng.choice([[8], [4, 4], [5, 3], [3, 5], [2, 2, 4], [3, 3, 3], [6, 2]])
        dim = len(lv)
        st = [[i / 2 ** l for i in range(2 ** l + 1)] for l in lv]
        c = dict(kind='uniform-large', dim=dim, lv=lv)
    else:
        dim = rng.choice([2, 2, 3])
        while True:
            sl = [_de.gen_stripe(rng, 5, 4, 24) for _ in range(dim)]
            N = 1
            for s, _ in sl:
                N *= len(s) - 2
            if 200 <= N <= 420:
                break
        st = [s for s, _ in sl]
        c = dict(kind='nonuniform-large', dim=dim, stripes=st, levels=[l for _, l in sl])
    M = rng.choice([3, 8, 15])
    lab = rng.random() < 0.4
    c.update(lam=0.0, ml=False, data=_de.gen_data(rng, dim, M, st),
             classes=[rng.choice([-1, 1]) for _ in range(M)] if lab else None)
    c['points'] = c['data'][:4] + _de.eval_points(rng, dim, st, 5)
    c['surplus_seed'] = rng.randrange(1 << 30)
    return c


def gen_combi(rng):
    dim = rng.choice([1, 2, 2, 3])
    lmin = 1
    lmax = rng.choice([2, 3]) if dim < 3 else 2
    M = rng.choice([2, 5, 10, 20])
    lab = rng.random() < 0.3
    st = [[i / 8 for i in range(9)] for _ in range(dim)]
    c = dict(kind='combi', dim=dim, lmin=lmin, lmax=lmax, lam=rng.choice([0.0, 0.125, 0.01]), ml=rng.random() < 0.2,
             data=_de.gen_data(rng, dim, M, st), classes=[rng.choice([-1, 1]) for _ in range(M)] if lab else None)
    c['points'] = c['data'][:4] + _de.eval_points(rng, dim, st, 6)
    return c


CORPUS = [
    # exemplar of the known finding C16-cv-hat-ulp-below-node (evaluation point 0.5 - 2^-54)
    dict(kind='nonuniform', dim=1, stripes=[[0.0, 0.5, 1.0]], levels=[[0, 1, 0]], lam=0.0, ml=False, numeric=False,
         data=[[0.25], [0.75]], classes=None, points=[[0.49999999999999994], [0.5], [0.5000000000000001]]),
    # exemplar of the known finding C16-numeric-epsrel (numeric matrix entries)
    dict(kind='nonuniform', dim=1, stripes=[[0.0, 0.25, 0.375, 1.0]], levels=[[0, 2, 3, 0]], lam=0.0, ml=False, numeric=True,
         data=[[0.25], [0.5]], classes=None, points=[[0.25], [0.5]]),
    dict(kind='uniform', dim=2, lv=[2, 1], lam=0.25, ml=False, data=[[0.25, 0.5], [0.5, 0.5], [0.125, 0.875], [1.0, 0.0],
         [0.75, 0.25], [0.0, 0.375]], classes=None, points=[[0.25, 0.5], [1.0, 0.0], [0.3125, 0.5]]),
    dict(kind='uniform', dim=2, lv=[2, 2], lam=0.0, ml=True, data=[[0.25, 0.5], [0.5, 0.5], [0.125, 0.875]],
         classes=[1, -1, 1], points=[[0.25, 0.5], [0.0, 0.0]]),
    dict(kind='uniform', dim=1, lv=[1], lam=0.0, ml=False, data=[[0.5], [0.25]], classes=[1, -1], points=[[0.5]]),
    dict(kind='nonuniform', dim=2, stripes=[[0.0, 0.25, 0.5, 0.625, 1.0], [0.0, 0.5, 0.75, 1.0]],
         levels=[[0, 2, 1, 3, 0], [0, 1, 2, 0]], lam=0.25, ml=False, numeric=False,
         data=[[0.25, 0.5], [0.5, 0.5], [0.125, 0.875], [1.0, 0.0], [0.75, 0.25], [0.0, 0.375]],
         classes=[1, -1, 1, 1, -1, -1], points=[[0.25, 0.5], [0.5, 0.75], [0.625, 1.0], [0.3, 0.6]]),
]


# ----------------------------------------------------------------------------------------------- implementation
def _stripes_of(case):
    if 'lv' in case:
        return [[i / 2 ** l for i in range(2 ** l + 1)] for l in case['lv']]
    return case['stripes']


def _surpluses(case, N):
    import random
    r = random.Random(case['surplus_seed'])
    return [r.randrange(-16, 17) / 8 for _ in range(N)]


def impl_case(case):
    import numpy as np
    from sparseSpACE.ComponentGridInfo import ComponentGridInfo
    from sparseSpACE.Utils import get_cross_product_range_list
    kind = case['kind']
    dim = case['dim']
    P = np.array(case['points'], dtype=float)
    out = {}
    if kind == 'combi':
        from sparseSpACE.StandardCombi import StandardCombi
        from sparseSpACE.Utils import print_levels, log_levels
        op = _de.make_op(case, False)
        combi = StandardCombi(np.zeros(dim), np.ones(dim), operation=op, print_level=print_levels.ERROR,
                              log_level=log_levels.ERROR)
        combi.perform_operation(case['lmin'], case['lmax'])
        out['scheme'] = [([int(x) for x in g.levelvector], float(g.coefficient)) for g in combi.scheme]
        out['surpluses'] = {','.join(str(int(x)) for x in k): _de.tolist(v) for k, v in op.surpluses.items()}
        out['combi'] = _de.tolist(np.asarray(combi([tuple(p) for p in P])).reshape(-1))
        out['data'] = _de.tolist(op.data)
        return out
    uniform = kind.startswith('uniform')
    large = kind.endswith('large')
    op = _de.make_op(case, not uniform)
    out['data'] = _de.tolist(op.data)
    if uniform:
        lv = tuple(int(l) for l in case['lv'])
        op.grid.setCurrentArea(np.zeros(dim), np.ones(dim), lv)
        N = int(op.grid.get_num_points())
        out['b'] = _de.tolist(op.calculate_B(op.data, lv))
        if not large:
            R = op.build_R_matrix(lv)
            out['R'] = _de.tolist(R) if not case.get('ml') else [[float(R)]]
            alphas = op.solve_density_estimation(lv)
            out['alphas'] = _de.tolist(alphas)
        else:
            alphas = np.array(_surpluses(case, N))
        hats = np.array(get_cross_product_range_list(op.grid.numPoints), dtype=int) + 1
        lva = np.array(lv, dtype=int)
        out['hat_cv'] = _de.tolist(op.hat_function_in_support_completely_vectorized(hats, lva, P))
        if not large:
            out['hat_scalar'] = [[float(op.hat_function(h, lv, x)) for h in hats] for x in P]
        ins = []
        for x in P:
            hs = op.get_hats_in_support(lv, x)
            if len(hs) == 0:
                ins.append([])
                continue
            v = op.hat_function_in_support_vectorized(np.array(hs, dtype=int), lva, x)
            v1 = [float(op.hat_function_in_support(np.array(h, dtype=int), lva, x)) for h in hs]
            ins.append([([int(i) for i in h], float(a), b) for h, a, b in zip(hs, v, v1)])
        out['hat_insupp'] = ins
        op.surpluses[lv] = alphas
        out['interp'] = _de.tolist(np.asarray(op.interpolate_points_component_grid(
            ComponentGridInfo(lv, 1), None, [tuple(p) for p in P])).reshape(-1))
    else:
        stripes = [list(s) for s in case['stripes']]
        levels = [list(l) for l in case['levels']]
        grid = op.grid
        grid.set_grid(stripes, levels)
        N = int(np.prod([len(s) - 2 for s in stripes]))
        key = tuple(max(l) for l in levels)
        out['b'] = _de.tolist(op.calculate_B_dimension_wise(op.data, stripes, levels))
        _, w = grid.get_points_and_weights()
        out['weights'] = _de.tolist(w)
        if not large:
            R = op.build_R_matrix_dimension_wise(stripes, levels)
            out['R'] = _de.tolist(R) if not case.get('ml') else [_de.tolist(R)]
            alphas = op.solve_density_estimation_dimension_wise(stripes, levels, ComponentGridInfo(key, 1))
            out['alphas'] = _de.tolist(alphas)
        else:
            alphas = np.array(_surpluses(case, N))
        points, lower, upper = op.get_hat_domain_for_every_grid_point_vectorized(stripes)
        out['hat_cv'] = _de.tolist(op.hat_function_non_symmetric_completely_vectorized(points, lower, upper, P))
        if not large:
            out['hat_scalar'] = [[float(op.hat_function_non_symmetric(points[i], list(zip(lower[i], upper[i])), x))
                                  for i in range(len(points))] for x in P]
        vec = []
        for x in P:
            hs, idx = op.get_neighbors_optimized(tuple(x), stripes)
            if len(hs) == 0:
                vec.append([])
                continue
            supports = [op.get_grid_points_with_support(h, stripes, skip_equal_point=True)[0] for h in hs]
            v = op.hat_function_non_symmetric_vectorized(hs, supports, x)
            vec.append([([float(c) for c in h], float(a)) for h, a in zip(hs, v)])
        out['hat_vec'] = vec
        op.surpluses[key] = alphas
        out['interp'] = _de.tolist(np.asarray(op.interpolate_points_component_grid(
            ComponentGridInfo(key, 1), None, [tuple(p) for p in P])).reshape(-1))
    return out


# ----------------------------------------------------------------------------------------------- specification worker
def spec_case(case):
    """exact-rational reference (runs in a worker only for speed; does not touch the implementation)"""
    kind = case['kind']
    if kind == 'combi':
        return None
    stripes = fr(_stripes_of(case))
    data = fr(case['data'])
    signs = [F(s) for s in case['classes']] if case.get('classes') is not None else None
    lam = sx.rat(case.get('lam', 0.0))
    out = {'b': _de.spec_rhs(stripes, data, signs)}
    uniform = kind.startswith('uniform')
    out['weights'] = _de.trap_weights(stripes)
    if kind.endswith('large'):
        return out
    G0 = _de.spec_gram(stripes, F(0))
    n = len(G0)
    if case.get('ml'):
        if uniform:
            out['R'] = [[G0[0][0]]]
            raw = [bi / G0[0][0] for bi in out['b']]
        else:
            out['R'] = [[G0[i][i] + lam for i in range(n)]]
            raw = [bi / (G0[i][i] + lam) for i, bi in enumerate(out['b'])]
        out['pivots_ok'] = True
    else:
        G = [[G0[i][j] + (lam if i == j else 0) for j in range(n)] for i in range(n)]
        out['R'] = G
        raw, piv = _de.solve_exact(G, out['b'])
        out['pivots_ok'] = piv is not None and all(p > 0 for p in piv)
    out['raw'] = raw
    w = [F(1)] * n if uniform else out['weights']
    fin, integ = _de.spec_normalise(raw, w, signs is not None)
    out['alphas'] = fin
    out['integral'] = integ
    return out


# ----------------------------------------------------------------------------------------------- comparison
def _sig(case, obs, **kw):
    s = dict(path=case['kind'], obs=obs, ml=bool(case.get('ml')), entries='numeric' if case.get('numeric') else 'analytic',
             labelled=case.get('classes') is not None)
    s.update(kw)
    return s


def _key(case):
    return (case['kind'], str(case.get('lv') or case.get('stripes') or (case.get('lmin'), case.get('lmax'))),
            case.get('lam'), bool(case.get('ml')), bool(case.get('numeric')), str(case['data']), str(case.get('classes')))


def _nontrivial(case):
    if case['kind'] == 'combi':
        return case['dim'] >= 2
    st = _stripes_of(case)
    N = 1
    for s in st:
        N *= len(s) - 2
    return N >= 3 and len(case['data']) >= 2


def process(chk, cases, verbose=False):
    """runs implementation, specification and model on the cases and reports; returns number of reported violations"""
    nv0 = len(chk.violations)
    impl = run_impl(impl_case, cases, limit=300)
    spec = run_impl(spec_case, cases, limit=600)
    # ---- model round 1: system matrix, rhs, weights
    m1 = []
    for c in cases:
        signs = c['classes'] if c.get('classes') is not None else []
        data = fr(c['data'])
        k = c['kind']
        if k == 'uniform':
            m1.append((0, [c['lv'], sx.rat(c['lam']), bool(c['ml']), data, signs]))
        elif k == 'nonuniform':
            m1.append((1, [fr(c['stripes']), sx.rat(c['lam']), bool(c['ml']), data, signs]))
        elif k == 'uniform-large':
            m1.append((11, [c['lv'], data, signs]))
        elif k == 'nonuniform-large':
            m1.append((10, [fr(c['stripes']), data, signs]))
        else:
            m1.append((99, []))
    r1 = run_model(16, m1)
    # ---- model round 2: certificate check + normalisation ; hats ; large-path rhs ; interpolation (filled below)
    m2, m2i = [], []

    def add(i, tag, sub, val):
        m2.append((sub, val)); m2i.append((i, tag))
    for i, c in enumerate(cases):
        k = c['kind']
        st_i, ri = impl[i]
        st_s, sp = spec[i]
        if k == 'combi' or st_i != 'ok' or st_s != 'ok' or sx.is_err(r1[i]):
            continue
        uniform = k.startswith('uniform')
        P = fr(c['points'])
        if not k.endswith('large'):
            G = qmat(r1[i][0]); b = qvec(r1[i][1])
            w = qvec(r1[i][2]) if not uniform else []
            cert = sp['raw'] if (not c.get('ml') and sp['raw'] is not None) else []
            add(i, 'finish', 2, [uniform, bool(c.get('ml')), G, b, cert, c.get('classes') is not None, w])
        else:
            signs = c['classes'] if c.get('classes') is not None else []
            add(i, 'rhs_large', 7 if uniform else 6, [c['lv'] if uniform else fr(c['stripes']), fr(c['data']), signs])
        add(i, 'hats', 5 if uniform else 4, [c['lv'] if uniform else fr(c['stripes']), P])
    r2 = run_model(16, m2)
    res2 = {}
    for (i, tag), r in zip(m2i, r2):
        res2[(i, tag)] = r
    # ---- model round 3: interpolation with the model's final surpluses
    m3, m3i = [], []
    for i, c in enumerate(cases):
        k = c['kind']
        if k == 'combi' or impl[i][0] != 'ok':
            continue
        uniform = k.startswith('uniform')
        if k.endswith('large'):
            N = 1
            for s in _stripes_of(c):
                N *= len(s) - 2
            al = fr(_surpluses(c, N))
        else:
            f = res2.get((i, 'finish'))
            if f is None or sx.is_err(f) or not f[0]:
                continue
            al = qvec(f[2])
        m3.append((9 if uniform else 8, [c['lv'] if uniform else fr(c['stripes']), al, fr(c['points'])])); m3i.append(i)
    r3 = dict(zip(m3i, run_model(16, m3)))

    keys, samples = [], []
    for i, c in enumerate(cases):
        k = c['kind']
        chk.count('kind=' + k); chk.count('dim=%d' % c['dim'])
        if c.get('ml'): chk.count('masslumping')
        if c.get('classes') is not None: chk.count('labelled')
        if c.get('numeric'): chk.count('numeric-entries')
        if k == 'combi':
            _check_combi(chk, c, impl[i], verbose)
            if impl[i][0] == 'ok' and _nontrivial(c):
                keys.append(_key(c))
            continue
        st_i, ri = impl[i]
        st_s, sp = spec[i]
        if st_s != 'ok':
            chk.violation('oracle:spec', 'spec-failed', {'path': k}, c, str(sp), failing_input=False)
            continue
        if st_i != 'ok':
            chk.violation('corr:C16/' + k, 'impl-exception', _sig(c, 'exception', exc=ri[0] if ri else st_i), c, dict(impl=str(ri)))
            continue
        chk.traces += 1
        if fr(ri['data']) != fr(c['data']):
            chk.violation('corr:C16/data', 'data-rescaled', _sig(c, 'data'), c, 'initialize() changed data inside the unit cube')
            continue
        if sx.is_err(r1[i]) or isinstance(r1[i], tuple):
            chk.violation('corr:C16/' + k, 'model-rejects', {'path': k}, c, str(r1[i])[:300], failing_input=False)
            continue
        uniform = k.startswith('uniform')
        large = k.endswith('large')
        bad = False
        # ---------------- matrix
        if not large:
            Rm = qmat(r1[i][0]); Ri = fr(ri['R']); Rs = sp['R']
            relR = REL_M + (64 * _de.EPS * _de.cancellation_amp(_stripes_of(c)) if not uniform else 0)
            ok_m = mat_close(Ri, Rm, relR); ok_s = mat_close(Ri, Rs, relR)
            if not (ok_m and ok_s):
                err = _de.max_rel_err(Ri, Rs) if len(Ri) == len(Rs) else -1
                sg = _sig(c, 'R'); sg.pop('labelled')
                chk.violation('corr:C16/R' if not ok_m else 'oracle:gram_matrix', 'matrix-differs', sg, c,
                              dict(max_rel_err_vs_exact_gram=err, impl_vs_model=ok_m, impl_vs_spec=ok_s,
                                   impl=str(ri['R'])[:500], exact=str([[float(x) for x in r] for r in Rs])[:500]),
                              failing_input=not ok_s)
                bad = True
            elif not c.get('ml'):
                spd, why = _de.is_spd(Ri)
                chk.count('spd-checks')
                if not spd or not sp['pivots_ok']:
                    chk.violation('oracle:spd', 'not-spd', _sig(c, 'R'), c, dict(why=why))
                    bad = True
        # ---------------- right-hand side
        bi = fr(ri['b'])
        bm = qvec(r1[i][1]) if not large else qvec(r1[i])
        ok_m = vec_close(bi, bm, REL_M); ok_s = vec_close(bi, sp['b'], REL_M)
        if large:
            bl = res2.get((i, 'rhs_large'))
            ok_m = ok_m and not sx.is_err(bl) and vec_close(bi, qvec(bl), REL_M)
        if not (ok_m and ok_s):
            chk.violation('corr:C16/b' if not ok_m else 'oracle:rhs_sample_mean', 'rhs-differs', _sig(c, 'b'), c,
                          dict(impl=str(ri['b'])[:400], exact=str([float(x) for x in sp['b']])[:400], impl_vs_model=ok_m,
                               impl_vs_spec=ok_s), failing_input=not ok_s)
            bad = True
        # ---------------- weights (non-uniform)
        if not uniform:
            wm = qvec(r1[i][2]) if not large else sp['weights']
            if not (vec_close(fr(ri['weights']), wm, REL_M) and vec_close(fr(ri['weights']), sp['weights'], REL_M)):
                chk.violation('corr:C16/weights', 'weights-differ', _sig(c, 'weights'), c,
                              dict(impl=str(ri['weights'])[:300], model=str([float(x) for x in wm])[:300]), failing_input=False)
                bad = True
        # ---------------- hat variants
        hm = res2.get((i, 'hats'))
        why = _check_hats(c, ri, hm, uniform, large)
        if why:
            pt = why[1].get('point') if isinstance(why[1], dict) else None
            nn = bool(pt) and _de.near_node(fr(_stripes_of(c)), [fr(pt)])
            sg = dict(path=k, variant=why[0], near_node=nn)
            chk.violation('corr:C16/hats', 'hat-variants-differ', sg, c, why[1])
            bad = True
        # ---------------- solve + normalisation
        if not large and not bad:
            f = res2.get((i, 'finish'))
            if f is None or sx.is_err(f):
                chk.violation('corr:C16/solve', 'model-rejects', {'path': k}, c, str(f)[:300], failing_input=False)
                continue
            chk.count('certificates-checked')
            if not f[0]:
                chk.violation('checker:check_solution', 'certificate-rejected', {'path': k}, c,
                              'exact solution of the specification system does not solve the model system', failing_input=False)
                continue
            fin_m = qvec(f[2]); integ_m = sx.q(f[3])
            ai = fr(ri['alphas'])
            if integ_m == 0 and not vec_close(ai, fin_m, REL_S):
                chk.count('ambiguous-zero-integral')        # float decision `integral == 0` on an exactly vanishing mean
                continue
            ok_m = vec_close(ai, fin_m, REL_S); ok_s = vec_close(ai, sp['alphas'], REL_S)
            if not (ok_m and ok_s):
                chk.violation('corr:C16/surpluses' if not ok_m else 'oracle:normal_equations', 'surpluses-differ',
                              _sig(c, 'alphas'), c, dict(impl=str(ri['alphas'])[:400], exact=str([float(x) for x in sp['alphas']])[:400],
                                                        impl_vs_model=ok_m, impl_vs_spec=ok_s), failing_input=not ok_s)
                bad = True
            else:
                # the property clause itself, on the implementation output: weighted mean of positive parts is one
                w = [F(1)] * len(ai) if uniform else fr(ri['weights'])
                mp = _de.mean_pos(ai, w)
                if sp['integral'] != 0 and not _de.close(mp, 1, 1e-9):
                    chk.violation('oracle:normalised', 'mean-pos-not-one', _sig(c, 'alphas'), c, dict(mean_pos=float(mp)))
                    bad = True
        # ---------------- interpolation of the component grid
        if not bad and i in r3:
            im = r3[i]
            if sx.is_err(im) or not vec_close(fr(ri['interp']), qvec(im), REL_S if not large else REL_M):
                chk.violation('corr:C16/interp', 'interpolation-differs', _sig(c, 'interp'), c,
                              dict(impl=str(ri['interp'])[:300], model=str([float(x) for x in qvec(im)] if not sx.is_err(im) else im)[:300],
                                   points=c['points']))
                bad = True
        if verbose:
            print('case', i, k, 'ok' if not bad else 'DIFFERS')
        if _nontrivial(c):
            keys.append(_key(c))
        if len(samples) < 3 and not bad and not large and _nontrivial(c) and c['dim'] >= 2:
            samples.append(dict(case={kk: c[kk] for kk in c if kk != 'points'}, impl_surpluses=ri['alphas'][:8],
                                model_surpluses=[float(x) for x in qvec(res2[(i, 'finish')][2])][:8]))
    chk.record_cases(len(cases), keys,
                     'DensityEstimation direct calls: uniform level vectors (d 1..3, N<=49), non-uniform stripes (dyadic subsets, '
                     'd 1..3, N<=48), grids beyond the 200-point threshold (rhs/interpolation), StandardCombi runs (lmax<=3); '
                     'data on dyadic lattices incl. grid lines and the boundary, lambda in {0,.01,.125,.25,.5,1}, mass lumping, '
                     'labels, numeric entries; non-trivial = at least 3 grid points and 2 samples (combi: d>=2); distinct by full case',
                     samples)
    return len(chk.violations) - nv0


def _check_hats(c, ri, hm, uniform, large):
    if hm is None or sx.is_err(hm):
        return ('model', 'model rejected the hat evaluation')
    P = c['points']
    cv = ri['hat_cv']
    for pi in range(len(P)):
        col = hm[pi]
        for hi in range(len(col)):
            clamped = sx.q(col[hi][1] if not uniform else col[hi][0])
            scal = sx.q(col[hi][0])
            if not _de.close(sx.rat(cv[pi][hi]), clamped, REL_M):
                return ('completely_vectorized', dict(point=P[pi], hat=hi, impl=cv[pi][hi], model=float(clamped)))
            if not large and not _de.close(sx.rat(ri['hat_scalar'][pi][hi]), scal, REL_M):
                return ('scalar', dict(point=P[pi], hat=hi, impl=ri['hat_scalar'][pi][hi], model=float(scal)))
            if not large and sx.rat(ri['hat_scalar'][pi][hi]) != sx.rat(cv[pi][hi]) and not _de.close(
                    sx.rat(ri['hat_scalar'][pi][hi]), sx.rat(cv[pi][hi]), REL_M):
                return ('scalar-vs-vectorized', dict(point=P[pi], hat=hi))
    if uniform:
        lv = c['lv']
        idx = list(itertools.product(*[range(1, 2 ** l) for l in lv]))
        pos = {t: n for n, t in enumerate(idx)}
        for pi, lst in enumerate(ri['hat_insupp']):
            seen = set()
            for h, a, b in lst:
                n = pos.get(tuple(h))
                if n is None:
                    return ('in_support', dict(point=P[pi], hat=h, why='not a grid index'))
                seen.add(n)
                mv = sx.q(hm[pi][n][1])
                if not _de.close(sx.rat(a), mv, REL_M) or not _de.close(sx.rat(b), mv, REL_M):
                    return ('in_support', dict(point=P[pi], hat=h, impl=(a, b), model=float(mv)))
            # hats not reported as "in support" must vanish at the point
            for n in range(len(idx)):
                if n not in seen and sx.q(hm[pi][n][0]) != 0:
                    return ('in_support', dict(point=P[pi], hat=idx[n], why='hat with non-zero value missing from get_hats_in_support'))
    else:
        st = c['stripes']
        pts = list(itertools.product(*[s[1:-1] for s in st]))
        pos = {tuple(float(x) for x in t): n for n, t in enumerate(pts)}
        for pi, lst in enumerate(ri['hat_vec']):
            seen = set()
            for h, a in lst:
                n = pos.get(tuple(h))
                if n is None:
                    return ('vectorized', dict(point=P[pi], hat=h, why='not a grid point'))
                seen.add(n)
                mv = sx.q(hm[pi][n][2]); ms = sx.q(hm[pi][n][0])
                if not _de.close(sx.rat(a), mv, REL_M) or mv != ms:
                    return ('vectorized', dict(point=P[pi], hat=h, impl=a, model=float(mv), scalar=float(ms)))
            for n in range(len(pts)):
                if n not in seen and sx.q(hm[pi][n][0]) != 0:
                    return ('vectorized', dict(point=P[pi], hat=pts[n], why='hat with non-zero value missing from the neighbours'))
    return None


def _check_combi(chk, c, res, verbose):
    """StandardCombi.perform_operation + combi(points): every component grid is re-derived by specification and model"""
    st, r = res
    if st != 'ok':
        chk.violation('corr:C16/combi', 'impl-exception', _sig(c, 'exception', exc=r[0] if r else st), c, dict(impl=str(r)))
        return
    chk.traces += 1
    sub = []
    for lv, coeff in r['scheme']:
        cc = dict(c, kind='uniform', lv=lv)
        sub.append(cc)
    specs = [spec_case(cc) for cc in sub]
    m1 = run_model(16, [(0, [cc['lv'], sx.rat(cc['lam']), bool(cc['ml']), fr(cc['data']),
                             cc['classes'] if cc.get('classes') is not None else []]) for cc in sub])
    m2 = run_model(16, [(2, [True, bool(cc['ml']), qmat(a[0]), qvec(a[1]),
                             sp['raw'] if not cc.get('ml') else [], cc.get('classes') is not None, []])
                        for cc, a, sp in zip(sub, m1, specs)])
    total = [F(0)] * len(c['points'])
    for (lv, coeff), cc, sp, f in zip(r['scheme'], sub, specs, m2):
        ai = fr(r['surpluses'][','.join(map(str, lv))])
        if sx.is_err(f) or not f[0]:
            chk.violation('checker:check_solution', 'certificate-rejected', {'path': 'combi'}, cc, str(f)[:200], failing_input=False)
            return
        fin = qvec(f[2])
        if sx.q(f[3]) == 0 and not vec_close(ai, fin, REL_S):
            chk.count('ambiguous-zero-integral')
            return
        ok_m = vec_close(ai, fin, REL_S); ok_s = vec_close(ai, sp['alphas'], REL_S)
        if not (ok_m and ok_s):
            chk.violation('corr:C16/surpluses' if not ok_m else 'oracle:normal_equations', 'surpluses-differ',
                          _sig(cc, 'alphas', via='combi'), cc, dict(impl=str(r['surpluses'])[:300], exact=str([float(x) for x in sp['alphas']])[:300]),
                          failing_input=not ok_s)
            return
        im = run_model(16, [(9, [lv, fin, fr(c['points'])])])[0]
        for n, v in enumerate(qvec(im)):
            total[n] += sx.rat(coeff) * v
    if not vec_close(fr(r['combi']), total, REL_S):
        chk.violation('corr:C16/combi', 'combined-density-differs', _sig(c, 'combi'), c,
                      dict(impl=r['combi'], model=[float(x) for x in total], points=c['points']))
    elif verbose:
        print('combi ok', [float(x) for x in total][:4])


def run(chk):
    chk.coq_obligations()
    rng = chk.rng
    q = chk.quick
    cases = list(CORPUS)
    cases += [gen_uniform(rng, q) for _ in range(chk.n(70, 400))]
    cases += [gen_nonuniform(rng, q) for _ in range(chk.n(90, 500))]
    cases += [gen_nonuniform(rng, q, numeric=True) for _ in range(chk.n(3, 12))]
    cases += [gen_large(rng, True) for _ in range(chk.n(6, 20))]
    cases += [gen_large(rng, False) for _ in range(chk.n(6, 20))]
    cases += [gen_combi(rng) for _ in range(chk.n(10, 40))]
    process(chk, cases)


def replay(chk, rep):
    c = rep['case']
    n = process(chk, [c], verbose=True)
    for v in chk.violations:
        print('check:', v['check'], 'kind:', v['kind'], 'failing_input:', v['failing_input'])
        print('detail:', str(v['detail'])[:1500])
    print('property predicate:', 'VIOLATED' if any(v['failing_input'] for v in chk.violations) else 'holds')
    return 1 if n else 0
