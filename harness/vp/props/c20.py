"""C20: regression solves the regularised least-squares problem on every component grid.
Correspondence  Model/Regress.v (extracted)  <->  GridOperation.Regression, plus the property's own predicate
(exact-rational design matrix, gradient Gram matrix, normal-equation residual) on the implementation outputs.

Cases are single requests on a fresh object or SHORT HISTORIES (several requests on one object / several objects in one
process).  The model is a pure function of one request, so every step of a history is compared like a single case; the
reported case of a violation contains the history up to the failing step.  Sizes straddle the typical internal block
sizes / thresholds (64, 128, 200, 256, 512, 1024, 2048, 4096 samples; 200, 256, 1024 hats)."""
import itertools
import math
import os
from fractions import Fraction as F

from .. import sx
from ..impl import run_impl
from ..model import run_model
from . import _de
from . import _c20_gen
from ._de import fr, qmat, mat_close

ASSUMPTIONS = [
    _c20_gen.ASSUMPTION,
    'exact-arithmetic model over Qc; implementation floats converted to exact rationals; tolerance 1e-11 for matrix entries',
    'np.linalg.lstsq is not modelled: its result is checked by the verified residual checker residual_ok '
    '(|L alpha - r|_i <= 1e-8 * max(max_i (sum_j |L_ij||alpha_j| + |r_i|), max_i (|A|^T|y|)_i / m)) against the model system '
    '(residual_ok_floor: cancellation-aware scale, A^T y may cancel to 0 for duplicated samples with opposite targets); for component grids whose '
    'exact model evaluation is too expensive (N^2 m + 4 N^2 d > 1.2e5) the same bound is evaluated by the exact-rational '
    'Python oracle only and the model is compared on the design matrix (all or sampled rows) and on the smoothing matrix',
    'the scaled training data are read from the implementation (DataSet scaling itself is C18); the scaling to '
    '[0.05, 0.95] is checked by the oracle only',
    'sklearn train_test_split is not modelled: the training split is read from the implementation (its size is checked)',
    'Opticom: the sum-to-one clause for all variants; option 3 completely against the model (entry points 8/9), option 2 through '
    'the certificate opticom2_certified, option 1 of train() through the exact model of the Garcke system (entry point 10) and the '
    'certificate opticom1_certified, for training steps within the cost caps; option 1 of the adaptive variant only through its last step',
    'positive semi-definiteness for d >= 2: verified checker psd_check on the model specification matrix (<= 30 hats) and on the '
    'exact image of the implementation matrix (<= 9 hats); larger implementation matrices (<= 64 hats) by the Python exact '
    'elimination only, which is cross-checked against psd_check on the smaller ones',
]

REL_M = 1e-11
TOL_RES = F(1, 10 ** 8)
RANGE = (0.05, 0.95)
CAP_FULL = 120000          # N^2 m + 4 N^2 d up to which the whole model entry (incl. residual checker) is run
CAP_ROWS = 40000           # N * rows for the design-matrix-only model entry
N_C_MODEL = 130            # smoothing matrices through the model up to this number of hats
N_C_IMPL = 300             # smoothing matrix of the implementation read up to this number of hats
N_PSD = 64
THRESHOLDS = (64, 128, 200, 256, 512, 1000, 1024, 2048, 4096)


# ----------------------------------------------------------------------------------------------- specification
def slope1(t, x):
    lo, p, hi = t
    if x <= lo or x >= hi:
        return F(0)
    return 1 / (p - lo) if x < p else -1 / (hi - p)


def gradgram1(ti, tj):
    """integral of the product of the derivatives of two hats (piecewise constant)"""
    bps = sorted(set(ti) | set(tj))
    s = F(0)
    for a, b in zip(bps, bps[1:]):
        m = (a + b) / 2
        s += (b - a) * slope1(ti, m) * slope1(tj, m)
    return s


def spec_C(stripes):
    hs = _de.grid_hats(stripes)
    n = len(hs)
    dim = len(stripes)
    gc, mc = {}, {}

    def g1(a, b):
        k = (a, b)
        if k not in gc:
            gc[k] = gradgram1(a, b)
        return gc[k]

    def m1(a, b):
        k = (a, b)
        if k not in mc:
            mc[k] = _de.gram1(a, b)
        return mc[k]
    C = [[F(0)] * n for _ in range(n)]
    for i in range(n):
        hi = hs[i]
        for j in range(i, n):
            hj = hs[j]
            v = F(0)
            for d in range(dim):
                t = g1(hi[d], hj[d])
                for m in range(dim):
                    if t == 0:
                        break
                    if m != d:
                        t *= m1(hi[m], hj[m])
                v += t
            C[i][j] = C[j][i] = v
    return C


def spec_A(stripes, data):
    """basis values at the sample points; hats of one dimension are evaluated once per sample"""
    tr = [_de.triples(s) for s in stripes]
    out = []
    for x in data:
        per_dim = [[_de.hat1(t[0], t[1], t[2], x[d]) for t in tr[d]] for d in range(len(tr))]
        row = []
        for vals in itertools.product(*per_dim):
            v = F(1)
            for w in vals:
                if w == 0:
                    v = F(0)
                    break
                v *= w
            row.append(v)
        out.append(row)
    return out


def is_psd(G):
    """exact: symmetric and positive semi-definite (symmetric elimination; a zero pivot needs a zero row)"""
    n = len(G)
    A = [list(map(F, r)) for r in G]
    for i in range(n):
        for j in range(i):
            if A[i][j] != A[j][i]:
                return False, 'not symmetric at (%d,%d)' % (i, j)
    for k in range(n):
        p = A[k][k]
        if p < 0:
            return False, 'negative pivot'
        if p == 0:
            if any(A[k][c] != 0 for c in range(k, n)):
                return False, 'zero pivot with non-zero row'
            continue
        for r in range(k + 1, n):
            f = A[r][k] / p
            if f != 0:
                for c in range(k, n):
                    A[r][c] -= f * A[k][c]
    return True, ''


def spec_residual(A, C, lam, use_C, y, alpha):
    """max_i |(L alpha - r)_i| / max_i (sum_j |L_ij||alpha_j| + |r_i|) for the stated problem
    L = A^T A / m + lambda M, r = A^T y / m.  Without a smoothing matrix (lambda = 0 or M = identity) all entries of L
    are non-negative (hat values are), so both vectors are formed by matrix-vector products; identical values."""
    m = len(A)
    n = len(A[0]) if A else 0
    if len(alpha) != n or len(y) != m:
        return F(10 ** 9)
    cols = [[A[r][c] for r in range(m)] for c in range(n)]
    nz = [[r for r in range(m) if col[r] != 0] for col in cols]
    if lam == 0 or not use_C:
        aal = [abs(a) for a in alpha]
        Aa = [sum((row[j] * alpha[j] for j in range(n) if row[j] != 0), F(0)) for row in A]
        Aab = [sum((row[j] * aal[j] for j in range(n) if row[j] != 0), F(0)) for row in A]
        ress, bounds = [], []
        for i in range(n):
            ri = sum((cols[i][k] * y[k] for k in nz[i]), F(0)) / m
            li = sum((cols[i][k] * Aa[k] for k in nz[i]), F(0)) / m + lam * alpha[i]
            bi = sum((cols[i][k] * Aab[k] for k in nz[i]), F(0)) / m + lam * aal[i]
            ress.append(abs(li - ri))
            bounds.append(bi + abs(ri))
    else:
        ress, bounds = [], []
        for i in range(n):
            row = []
            si = set(nz[i])
            for j in range(n):
                v = sum((cols[i][k] * cols[j][k] for k in nz[j] if k in si), F(0)) / m + lam * C[i][j]
                row.append(v)
            ri = sum((cols[i][k] * y[k] for k in nz[i]), F(0)) / m
            ress.append(abs(sum((a * b for a, b in zip(row, alpha)), F(0)) - ri))
            bounds.append(sum((abs(a) * abs(b) for a, b in zip(row, alpha)), F(0)) + abs(ri))
    # cancellation-aware scale (DESIGN section 3): the solve works on A and y, its backward error is relative to |A^T||y|/m
    floor = max([sum((abs(cols[i][k]) * abs(y[k]) for k in nz[i]), F(0)) / m for i in range(n)] + [F(0)]) if m else F(0)
    scale = max(bounds + [floor])
    worst = max(ress + [F(0)])
    if worst == 0:
        return F(0)
    return worst / scale if scale != 0 else F(10 ** 9)


def split_sizes(n, pct):
    """sizes of sklearn.model_selection.train_test_split as used by train(): test = ceil(pct n), validation = ceil(.15 rest)"""
    n_test = math.ceil(pct * n) if isinstance(pct, float) else int(pct)
    rest = n - n_test
    n_val = math.ceil(0.15 * rest)
    return rest - n_val, n_val, n_test


def n_for_training_size(m, pct):
    """smallest n whose training part has at least m samples"""
    n = int(m / ((1 - pct) * 0.85))
    while split_sizes(n, pct)[0] < m:
        n += 1
    return n


# ----------------------------------------------------------------------------------------------- generators
STYLES = ['dyadic01', 'dyadic01', 'dyadic01', 'float', 'shifted', 'int', 'dup', 'constfeat', 'tinyrange', 'hugerange']


def gen_xy(rng, dim, M, below_minus_one=False, style=None, ystyle=None):
    style = style or rng.choice(STYLES)
    if style == 'constfeat' and dim == 1:
        style = 'dyadic01'
    if style in ('dyadic01', 'constfeat'):
        k = rng.choice([2, 3, 4]) if M < 200 else 6
        data = [[_de.dyadic(rng, k) for _ in range(dim)] for _ in range(M)]
        for d in range(dim):       # every feature has the range [0, 1]: the default scaling is x -> 0.05 + 0.9 x
            data[rng.randrange(M)][d] = 0.0
            i = rng.randrange(M)
            while data[i][d] == 0.0 and M > 1 and sum(1 for x in data if x[d] == 0.0) == 1:
                i = rng.randrange(M)
            data[i][d] = 1.0
        if rng.random() < 0.8:
            # mid-range coordinates scale to 0.5 - 2^-54, one ulp below the node 0.5 (see finding C20-cv-hat-ulp-below-node);
            # most cases avoid them so that the downstream checks are exercised
            data = [[0.5625 if v == 0.5 else v for v in x] for x in data]
        if style == 'constfeat':
            d = rng.randrange(dim)
            c = rng.choice([0.25, -3.0, 7.5])
            for x in data:
                x[d] = c
    elif style == 'float':
        data = [[rng.random() for _ in range(dim)] for _ in range(M)]
    elif style == 'shifted':       # features with different offsets / scales, negative values
        off = [rng.choice([-3.0, 0.0, 10.0, 1000.0]) for _ in range(dim)]
        sc = [rng.choice([0.001, 1.0, 8.0, 250.0]) for _ in range(dim)]
        data = [[off[d] + sc[d] * rng.randrange(0, 65) / 64 for d in range(dim)] for _ in range(M)]
    elif style == 'int':
        data = [[rng.randrange(-5, 21) for _ in range(dim)] for _ in range(M)]
    elif style in ('tinyrange', 'hugerange'):      # magnitudes 2^-60 .. 2^30 (exact scalings of a dyadic lattice)
        e = [rng.choice([-60, -40, -20]) if style == 'tinyrange' else rng.choice([20, 30]) for _ in range(dim)]
        sg = [rng.choice([1.0, -1.0]) for _ in range(dim)]
        data = [[sg[d] * rng.randrange(0, 65) / 64 * 2.0 ** e[d] for d in range(dim)] for _ in range(M)]
    else:                          # 'dup': few distinct points, many repetitions
        pts = [[_de.dyadic(rng, 3) for _ in range(dim)] for _ in range(max(2, M // 4))]
        data = [list(rng.choice(pts)) for _ in range(M)]
    ystyle = ystyle or rng.choice(['dyadic', 'dyadic', 'dyadic', 'float', 'const', 'big', 'ties', 'tiny', 'huge', 'offset'])
    lo = -16 if below_minus_one else -4
    if ystyle == 'dyadic':
        y = [rng.randrange(lo, 17) / 4 for _ in range(M)]
    elif ystyle == 'float':
        y = [rng.uniform(-3, 3) for _ in range(M)]
    elif ystyle == 'const':
        y = [rng.choice([0.0, 1.0, -2.5])] * M
    elif ystyle == 'big':
        y = [float(rng.randrange(-4000, 4001)) for _ in range(M)]
    elif ystyle == 'tiny':
        y = [rng.randrange(-16, 17) / 4 * 2.0 ** -40 for _ in range(M)]
    elif ystyle == 'huge':
        y = [rng.randrange(-16, 17) / 4 * 2.0 ** 30 for _ in range(M)]
    elif ystyle == 'offset':       # far from the origin, small variation
        y = [2.0 ** 20 + rng.randrange(-16, 17) / 4 for _ in range(M)]
    else:
        y = [float(rng.choice([-1, 0, 1])) for _ in range(M)]
    return data, y, style, ystyle


LAMS = [0, 0, 0.125, 0.125, 0.01, 1.0, 1e-6, 1e-4, 100.0]


OBSERVERS = ['test', 'call', 'get_result', 'C', 'left', 'right', 'A', 'interpolate']


def decorate(rng, c, fresh=True):
    """axes that every request draws for itself: container of the arguments, level-vector container, observer calls between
    the steps, defaults left implicit"""
    if fresh and c.get('style') != 'int' and 'container' not in c:
        exact32 = c.get('style') == 'dyadic01'
        r = rng.random()
        if r < 0.1:
            c['container'] = 'list'
        elif r < 0.2:
            c['container'] = 'view'
        elif r < 0.28:
            c['container'] = 'fortran'
        elif r < 0.36:
            c['container'] = 'strided'
        elif r < 0.46 and exact32:
            c['container'] = 'float32'
    if c['kind'] == 'uniform':
        c['lv_container'] = rng.choice(['list', 'list', 'ndarray', 'tuple'])
    if c['kind'] in ('train', 'train-adaptive', 'uniform') and rng.random() < 0.6:
        c['observers'] = rng.sample(OBSERVERS, rng.randrange(1, 4))
        c['oseed'] = rng.randrange(1000)
    if c['kind'] in ('train', 'train-adaptive') and rng.random() < 0.4:
        c['implicit_defaults'] = True
    return c


def gen_direct(rng, quick, uniform, size=None):
    """size: None (small) | 'manyrows' (many samples, few hats) | 'manyhats' (many hats, few samples) | 'midhats'"""
    dim = rng.choice([1, 2, 2, 2, 3]) if size is None else rng.choice([1, 2])
    lam = rng.choice(LAMS)
    matrix = rng.choice(['C', 'C', 'I'])
    if uniform:
        if size == 'manyhats':
            lv = rng.choice([[11], [10], [5, 6], [6, 5], [4, 7], [3, 4, 4]])
            dim = len(lv)
            # the smoothing matrix of > 1000 hats costs minutes in the implementation: identity or no regularisation
            matrix = 'I'
            lam = rng.choice([0, 0, 0.125]) if len(lv) > 1 or lv[0] <= 10 else 0
        elif size == 'midhats':
            lv = rng.choice([[8], [4, 4], [3, 5], [5, 3], [2, 3, 3], [2, 6]])
            dim = len(lv)
        else:
            capN = 9 if size == 'manyrows' else (27 if quick else 49)
            while True:
                lv = [rng.choice([1, 1, 2, 2, 3]) for _ in range(dim)]
                N = 1
                for l in lv:
                    N *= 2 ** l - 1
                if N <= capN:
                    break
        grid = dict(lv=lv)
    else:
        capN = 8 if size == 'manyrows' else (24 if quick else 40)
        while True:
            sl = [_de.gen_stripe(rng, rng.choice([2, 3, 3, 4]), 1, 7) for _ in range(dim)]
            N = 1
            for s, _ in sl:
                N *= len(s) - 2
            if N <= capN:
                break
        grid = dict(stripes=[s for s, _ in sl], levels=[l for _, l in sl])
        if size == 'manyrows':
            # exact model evaluation of large systems is restricted to cases without the (defective, see findings)
            # dimension-wise smoothing matrix
            if rng.random() < 0.5:
                matrix = 'I'
            else:
                lam = 0
    if size == 'manyrows':
        M = rng.choice([rng.randrange(65, 300), rng.randrange(1025, 1500), rng.randrange(1025, 2600)])
    elif size in ('manyhats', 'midhats'):
        M = rng.choice([3, 5, 8])
    else:
        M = rng.choice([1, 2, 3, 5, 8, 12, 20, 30])
    data, y, st, yst = gen_xy(rng, dim, M, style='dyadic01' if size else None)
    c = dict(kind='uniform' if uniform else 'dimension-wise', dim=dim, lam=lam, matrix=matrix, data=data, y=y, style=st,
             ystyle=yst)
    c.update(grid)
    return decorate(rng, c)


def gen_train(rng, adaptive=False, size='small'):
    """size: 'small' | 'medium' (training size straddles 64..512) | 'large' (> 1024) | 'xlarge' (> 2048 / 4096)"""
    pct = rng.choice([0.2, 0.2, 0.3, 0.1, 0.5])
    if size == 'small':
        dim = rng.choice([1, 2, 2, 3]) if not adaptive else rng.choice([1, 2, 2])
        M = rng.choice([6, 12, 20, 30, 45])
        lmin, lmax = rng.choice([(1, 2), (1, 2), (1, 3), (2, 3), (2, 2), (1, 1)])
        if dim == 3:
            lmin, lmax = rng.choice([(1, 2), (1, 3), (2, 2)])
        if dim == 2 and rng.random() < 0.08:
            lmin, lmax = rng.choice([(1, 4), (2, 4)])
        if rng.random() < 0.06 and not adaptive:
            dim, lmin, lmax = 4, 1, 2
    else:
        m = dict(medium=rng.choice([rng.randrange(65, 130), rng.randrange(129, 260), rng.randrange(257, 520)]),
                 large=rng.choice([rng.randrange(1025, 1400), rng.randrange(1025, 2040)]),
                 xlarge=rng.choice([rng.randrange(2049, 2600), rng.randrange(4097, 4400)]))[size]
        M = n_for_training_size(m, pct)
        if size == 'xlarge':
            dim, lmin, lmax = 1, 1, 2
        else:
            dim = rng.choice([1, 2])
            lmin, lmax = (1, 2) if dim == 2 else rng.choice([(1, 2), (1, 3)])
    lam = rng.choice([0, 0.125, 0.01, 1e-4, 10.0])
    matrix = rng.choice(['C', 'I'])
    c = dict(kind='train-adaptive' if adaptive else 'train', dim=dim, lam=lam, matrix=matrix, lmin=lmin, lmax=lmax, pct=pct)
    if adaptive:
        c['max_evals'] = rng.choice([0, 0, 6, 12, 20]) if size == 'small' else 0
        if size != 'small' and matrix == 'C':
            c['lam'] = 0
    elif rng.random() < 0.25:
        c['noisy'] = True
    data, y, st, yst = gen_xy(rng, dim, M, style=None if size == 'small' else 'dyadic01')
    c.update(data=data, y=y, style=st, ystyle=yst)
    return decorate(rng, c)


def gen_construct(rng):
    dim = rng.choice([1, 2, 3])
    M = rng.choice([1, 2, 5, 9])
    data, y, st, yst = gen_xy(rng, dim, M, below_minus_one=rng.random() < 0.5)
    c = dict(kind='construct', dim=dim, lam=rng.choice([0, 0.125]), matrix=rng.choice(['C', 'I']), data=data, y=y, style=st,
             ystyle=yst)
    if rng.random() < 0.3:
        c['all_defaults'] = True       # not even the print / log level arguments
    return c


HISTORY_FLAVOURS = ['direct-u', 'direct-dw', 'train-train', 'adaptive-adaptive', 'objects', 'train-direct', 'reinit', 'interleaved',
                    'shared-arrays', 'sibling']


def gen_history(rng, quick, flavour=None):
    """2-4 requests; 'reuse' = on the object of the previous step (same data, lambda, matrix), else a new object in the
    same process (module / class level state).  Histories the unchanged library cannot run (train() after
    train_spatially_adaptive(): AttributeError in StandardCombi) are not generated."""
    flavour = flavour or rng.choice(['direct-u', 'direct-u', 'direct-dw', 'train-train', 'train-train', 'adaptive-adaptive', 'objects',
                                     'objects', 'train-direct', 'reinit', 'reinit', 'interleaved', 'interleaved', 'shared-arrays', 'sibling'])
    steps = []
    if flavour in ('reinit', 'interleaved', 'shared-arrays', 'sibling'):
        return gen_history2(rng, quick, flavour)
    if flavour in ('direct-u', 'direct-dw'):
        base = gen_direct(rng, quick, flavour == 'direct-u')
        M = max(len(base['data']), 6)
        if len(base['data']) < M:
            base = dict(base)
            base['data'], base['y'], base['style'], base['ystyle'] = gen_xy(rng, base['dim'], M)
        for k in range(rng.choice([2, 3, 4])):
            s = dict(base)
            if k:
                s['reuse'] = True
                g = gen_direct(rng, quick, flavour == 'direct-u')
                tries = 0
                while g['dim'] != base['dim'] and tries < 50:
                    g = gen_direct(rng, quick, flavour == 'direct-u')
                    tries += 1
                if g['dim'] == base['dim']:
                    for key in ('lv', 'stripes', 'levels'):
                        if key in g:
                            s[key] = g[key]
                if flavour == 'direct-u' and rng.random() < 0.5:
                    # same number of hats, other shape: permuted level vector
                    s['lv'] = list(rng.sample(steps[-1]['lv'], len(steps[-1]['lv'])))
                if rng.random() < 0.6:
                    # another training subset of the same object
                    rows = sorted(rng.sample(range(M), rng.randrange(max(2, M // 2), M + 1)))
                    s['rows'] = rows
                decorate(rng, s, fresh=False)
            steps.append(s)
    elif flavour in ('train-train', 'adaptive-adaptive', 'train-direct'):
        base = gen_train(rng, adaptive=flavour == 'adaptive-adaptive')
        base.pop('noisy', None)
        if base['dim'] == 4:
            base = gen_train(rng, adaptive=flavour == 'adaptive-adaptive')
            base.pop('noisy', None)
        steps.append(base)
        for k in range(rng.choice([1, 1, 2])):
            s = dict(base, reuse=True)
            s['pct'] = rng.choice([p for p in (0.1, 0.2, 0.3, 0.4, 0.5) if p != steps[-1].get('pct')])
            if base['dim'] != 4:
                s['lmin'], s['lmax'] = rng.choice([(1, 2), (1, 3), (2, 3), (2, 2)]) if base['dim'] < 3 else rng.choice([(1, 2), (2, 2)])
            if flavour == 'adaptive-adaptive':
                s['max_evals'] = rng.choice([0, 6, 12])
            if flavour == 'train-direct':
                lv = [rng.choice([1, 2, 2, 3]) for _ in range(base['dim'])]
                s = dict(base, reuse=True, kind='uniform', lv=lv)
                M = len(base['data'])
                s['rows'] = sorted(rng.sample(range(M), rng.randrange(max(2, M // 2), M + 1)))
                for key in ('lmin', 'lmax', 'pct', 'noisy', 'max_evals', 'observers', 'implicit_defaults'):
                    s.pop(key, None)
            decorate(rng, s, fresh=False)
            steps.append(s)
    else:       # several objects in one process: other data / lambda / matrix, same level vectors
        a = gen_train(rng) if rng.random() < 0.5 else gen_direct(rng, quick, True)
        a.pop('noisy', None)
        steps.append(a)
        for k in range(rng.choice([1, 2])):
            b = dict(a)
            b['data'], b['y'], b['style'], b['ystyle'] = gen_xy(rng, a['dim'], rng.choice([6, 12, 20, 30]) if a['kind'] == 'train'
                                                                 else rng.choice([3, 5, 8, 12]))
            b['lam'] = rng.choice([x for x in (0, 0.125, 0.01, 1.0) if x != a['lam']])
            b['matrix'] = rng.choice(['C', 'I'])
            steps.append(b)
    return dict(kind='history', flavour=flavour, dim=steps[0]['dim'], steps=steps)


def _small_request(rng, quick, dim=None):
    """a cheap request (training run or direct call on a uniform grid) of the given dimension"""
    for _ in range(200):
        c = gen_train(rng) if rng.random() < 0.5 else gen_direct(rng, quick, True)
        if (dim is None or c['dim'] == dim) and c['dim'] <= 3:
            c.pop('noisy', None)
            return c
    return c


def gen_history2(rng, quick, flavour):
    """histories of the lessons sweep:
    reinit        - the constructor is run again on ONE object with other data (also another dimension), lambda, matrix; every call
                    draws its own level range / test share
    interleaved   - two live objects with different data / lambda / matrix work alternately (class-level state, caches)
    shared-arrays - several objects are built from the SAME data / target objects (next to equal fresh copies elsewhere)
    sibling       - an object of the sibling class DensityEstimation works in the same process between two requests"""
    steps = []
    if flavour == 'reinit':
        a = _small_request(rng, quick)
        steps.append(a)
        for k in range(rng.choice([1, 2])):
            if rng.random() < 0.7:
                # the same request shape (level vectors / level range) with other data, another lambda (both regularised in most
                # cases) and matrix: anything that survives the constructor shows here
                b = dict(steps[-1])
                for key in ('reuse', 'rows', 'same_arrays'):
                    b.pop(key, None)
                M = len(b['data']) if rng.random() < 0.5 else rng.choice([6, 12, 20])
                b['data'], b['y'], b['style'], b['ystyle'] = gen_xy(rng, b['dim'], max(M, 6 if b['kind'] == 'train' else 1))
                b.pop('container', None)
                b['lam'] = rng.choice([x for x in (0, 0.125, 0.01, 1.0, 10.0) if x != steps[-1]['lam']])
                b['matrix'] = rng.choice(['C', 'I'])
                decorate(rng, b)
            else:
                b = _small_request(rng, quick, dim=None if rng.random() < 0.5 else a['dim'])
            b['reinit'] = True
            steps.append(b)
            if rng.random() < 0.4:          # and a second request on the re-initialised object
                c = dict(b, reuse=True)
                c.pop('reinit')
                if c['kind'] == 'train':
                    c['pct'] = rng.choice([p for p in (0.1, 0.2, 0.3, 0.5) if p != b['pct']])
                    c['lmin'], c['lmax'] = rng.choice([(1, 2), (1, 3), (2, 2)]) if c['dim'] < 3 else (1, 2)
                else:
                    c['lv'] = list(rng.sample(b['lv'], len(b['lv'])))
                steps.append(c)
    elif flavour == 'interleaved':
        a = _small_request(rng, quick)
        b = _small_request(rng, quick, dim=a['dim'] if rng.random() < 0.7 else None)
        a['obj'], b['obj'] = 0, 1
        steps += [a, b]
        for k in range(rng.choice([1, 2, 2])):
            base = (a, b)[k % 2]
            c = dict(base, reuse=True)
            if c['kind'] == 'train':
                c['pct'] = rng.choice([p for p in (0.1, 0.2, 0.3, 0.5) if p != base['pct']])
                c['lmin'], c['lmax'] = rng.choice([(1, 2), (1, 3), (2, 2)]) if c['dim'] < 3 else (1, 2)
            else:
                M = len(base['data'])
                if M >= 4:
                    c['rows'] = sorted(rng.sample(range(M), rng.randrange(max(2, M // 2), M + 1)))
                if rng.random() < 0.5:
                    c['lv'] = list(rng.sample(base['lv'], len(base['lv'])))
            decorate(rng, c, fresh=False)
            steps.append(c)
    elif flavour == 'shared-arrays':
        a = _small_request(rng, quick)
        steps.append(a)
        for k in range(rng.choice([1, 2])):
            b = dict(a, same_arrays=True, obj=k + 1)
            b['lam'] = rng.choice([x for x in (0, 0.125, 0.01, 1.0) if x != a['lam']])
            b['matrix'] = rng.choice(['C', 'I'])
            if b['kind'] == 'train':
                b['pct'] = rng.choice([0.1, 0.2, 0.3, 0.5])
            decorate(rng, b, fresh=False)
            steps.append(b)
        if rng.random() < 0.5:      # back to the first object
            c = dict(a, reuse=True, obj=0)
            steps.append(c)
    else:
        a = _small_request(rng, quick)
        steps.append(a)
        M = rng.choice([8, 20])
        sd, _, _, _ = gen_xy(rng, a['dim'], M, style='float')
        steps.append(dict(kind='sibling', dim=a['dim'], data=sd, y=[0.0] * M, lam=rng.choice([0.0, 0.01]), matrix='I'))
        b = dict(a, reuse=True)
        if b['kind'] == 'train':
            b['pct'] = rng.choice([p for p in (0.1, 0.2, 0.3, 0.5) if p != a['pct']])
        else:
            b['lv'] = list(rng.sample(a['lv'], len(a['lv'])))
        steps.append(b)
    return dict(kind='history', flavour=flavour, dim=steps[0]['dim'], steps=steps)


CORPUS = [
    # exemplars of the known findings
    dict(kind='construct', dim=1, lam=0.125, matrix='C', data=[[0.0], [1.0]], y=[1.0, 2.0]),
    dict(kind='construct-explicit-range', dim=1, lam=0.125, matrix='C', data=[[0.0], [1.0]], y=[-2.0, 1.0]),
    dict(kind='uniform', dim=2, lv=[1, 2], lam=0.125, matrix='C', data=[[0.0, 0.0], [1.0, 1.0], [0.5, 0.25], [0.25, 0.75]],
         y=[1.0, 2.0, 0.5, -1.0]),
    dict(kind='dimension-wise', dim=1, stripes=[[0.0, 0.25, 0.5, 0.75, 1.0]], levels=[[0, 2, 1, 2, 0]], lam=0.125, matrix='C',
         data=[[0.0], [1.0], [0.5], [0.25]], y=[1.0, 2.0, 0.5, -1.0]),
    dict(kind='train', dim=1, lam=0.125, matrix='C', data=[[i / 16] for i in range(0, 17)], y=[(i % 5) / 4 for i in range(17)],
         lmin=1, lmax=2, pct=0.2),
    dict(kind='uniform', dim=2, lv=[2, 2], lam=0.125, matrix='C',
         data=[[0.0, 0.0], [1.0, 1.0], [0.5, 0.25], [0.25, 0.75], [0.75, 0.5]], y=[1.0, 2.0, 0.5, -1.0, 0.0]),
    # sample at the mid-range: scales to 0.5 - 2^-54, one ulp below the node 0.5
    dict(kind='dimension-wise', dim=1, stripes=[[0.0, 0.5, 1.0]], levels=[[0, 1, 0]], lam=0, matrix='I',
         data=[[0.0], [1.0], [0.5], [0.25]], y=[1.0, 2.0, 0.5, -1.0]),
    dict(kind='train-adaptive', dim=1, lam=0, matrix='I', data=[[i / 16] for i in range(0, 17)], y=[(i % 5) / 4 for i in range(17)],
         lmin=1, lmax=2, pct=0.2),
    # all training targets zero: every surplus is zero, the Opticom normalisation divides 0 by 0
    dict(kind='train', dim=1, lam=0.125, matrix='C', data=[[i / 16] for i in range(0, 17)], y=[0.0] * 17, lmin=1, lmax=2, pct=0.2),
    # noisy_data with only negative targets: the noise level max(targets) * 0.01 is negative
    dict(kind='train', dim=1, lam=0.125, matrix='C', data=[[i / 16] for i in range(0, 17)], y=[-1.0 - (i % 5) / 4 for i in range(17)],
         lmin=1, lmax=2, pct=0.2, noisy=True),
    # a feature with range 2^-60 (< 10 eps): MinMaxScaler leaves it unscaled
    dict(kind='construct-explicit-range', dim=1, lam=0.125, matrix='C', data=[[0.0], [2.0 ** -60], [2.0 ** -61]], y=[1.0, 2.0, 0.5],
         style='tinyrange'),
    # three dimensions, level 2 in a leading dimension (couplings far from the diagonal in the row-major ordering)
    dict(kind='uniform', dim=3, lv=[2, 1, 2], lam=0.125, matrix='C',
         data=[[0.0, 0.0, 0.0], [1.0, 1.0, 1.0], [0.25, 0.75, 0.25], [0.75, 0.25, 0.5625], [0.5625, 0.5625, 0.75]],
         y=[1.0, 2.0, 0.5, -1.0, 0.0]),
]


# ----------------------------------------------------------------------------------------------- implementation
SENTINEL = 777.25


class _Args:
    """registry of every object handed to the library in one history: snapshot at hand-over, compared after every step"""
    def __init__(self):
        self.items = []          # (name, object, snapshot)

    @staticmethod
    def _snap(o):
        import copy
        import numpy as np
        return o.copy() if isinstance(o, np.ndarray) else copy.deepcopy(o)

    def add(self, name, o):
        for _, q, _ in self.items:
            if q is o:
                return o
        self.items.append((name, o, self._snap(o)))
        return o

    def mutated(self):
        import numpy as np
        bad = []
        for name, o, snap in self.items:
            same = (o.shape == snap.shape and o.dtype == snap.dtype and np.array_equal(o, snap)) if isinstance(o, np.ndarray) else o == snap
            if not same:
                bad.append(name)
        return bad


def _make_arrays(case):
    """the data / target objects in the requested container (ndarray, list, integer dtype, float32, Fortran order,
    non-contiguous view of a larger parent, strided view)"""
    import numpy as np
    cont = case.get('container', 'ndarray')
    if cont == 'list':
        return [list(x) for x in case['data']], list(case['y'])
    if case.get('style') == 'int':
        return np.array(case['data'], dtype=int), np.array(case['y'], dtype=float)
    data, y = np.array(case['data'], dtype=float), np.array(case['y'], dtype=float)
    if cont == 'float32':
        data = data.astype(np.float32)
    elif cont == 'fortran':
        data = np.asfortranarray(data)
    elif cont == 'view':          # columns of a wider parent, rows of a longer one
        parent = np.full((len(data) + 2, data.shape[1] + 2), 0.3125)
        parent[1:-1, 1:-1] = data
        data = parent[1:-1, 1:-1]
        py = np.full(len(y) + 3, -0.75); py[2:-1] = y; y = py[2:-1]
    elif cont == 'strided':
        parent = np.repeat(data, 2, axis=0); parent[1::2] = 0.4375
        data = parent[::2]
        py = np.repeat(y, 2); py[1::2] = 9.5; y = py[::2]
    return data, y


def _mk(case, default_range=False, args=None, arrays=None, target=None):
    """a new Regression object, or (target given) the constructor run again on an existing object"""
    from sparseSpACE.GridOperation import Regression
    from sparseSpACE.Utils import print_levels, log_levels
    kw = {} if case.get('all_defaults') else dict(print_level=print_levels.ERROR, log_level=log_levels.ERROR)
    if not default_range:
        kw['rangee'] = RANGE
    data, y = arrays if arrays is not None else _make_arrays(case)
    if args is not None:
        args.add('data', data); args.add('target_values', y)
    if target is not None:
        target.__init__(data=data, target_values=y, regularization=case['lam'], regularization_matrix=case['matrix'], **kw)
        return target, (data, y)
    return Regression(data=data, target_values=y, regularization=case['lam'], regularization_matrix=case['matrix'], **kw), (data, y)


def _lvkey(lv):
    return ','.join(str(int(x)) for x in lv)


def _surplus_snapshot(r):
    import numpy as np
    return {k: np.array(v, dtype=float).copy() for k, v in r.surpluses.items()}


def _same_surpluses(a, b):
    import numpy as np
    return set(a) == set(b) and all(np.array_equal(a[k], b[k], equal_nan=True) for k in a)


def _observers(r, case, combi, rs):
    """public calls on the LIVE object between two requests; they must not change its state"""
    import numpy as np
    done = []
    names = case.get('observers') or []
    before = _surplus_snapshot(r)
    data0 = np.array(r.data, dtype=float).copy()
    for name in names:
        if name == 'test' and combi is not None and case['kind'] == 'train':
            r.test(combi)
        elif name == 'call' and combi is not None and case['kind'] == 'train':
            combi(np.array(r.test_data[:3]))
        elif name == 'get_result':
            r.get_result()
        elif name in ('C', 'left', 'right', 'A') and case['kind'] in ('train', 'uniform'):
            lv = [int(x) for x in (combi.scheme[rs.randrange(len(combi.scheme))].levelvector if combi is not None else case['lv'])]
            if int(np.prod(2 ** np.asarray(lv, dtype=int) - 1)) > 64:
                continue
            r.grid.numPoints = 2 ** np.asarray(lv, dtype=int) - 1
            res = dict(C=r.build_C_matrix, left=r.build_left_matrix, right=r.build_right_vector, A=r.build_A_matrix)[name](lv)
            res[...] = SENTINEL      # what an observer returns is the caller's: writing into it must not reach the object
        elif name == 'interpolate' and combi is not None and case['kind'] == 'train':
            r.interpolate_points_component_grid(combi.scheme[0], mesh_points_grid=None, evaluation_points=np.array(r.validation_data[:2]))
        else:
            continue
        done.append(name)
    changed = []
    if not _same_surpluses(before, _surplus_snapshot(r)):
        changed.append('surpluses')
    if not np.array_equal(data0, np.array(r.data, dtype=float)):
        changed.append('data')
    return done, changed


def _step(r, case, args):
    """one request on the object r; everything observable is copied out"""
    import random
    import numpy as np
    kind = case['kind']
    rs = random.Random(case.get('oseed', 0))
    out = {}
    out['data'] = _de.tolist(r.data); out['y'] = _de.tolist(r.target_values)
    if kind.startswith('construct'):
        return out
    dim = case['dim']
    aliased = []
    if kind in ('uniform', 'dimension-wise'):
        rows = case.get('rows')
        if rows is None:
            r.training_data = r.data
            r.training_target_values = r.target_values
        else:
            r.training_data = np.asarray(r.data)[rows]
            r.training_target_values = np.asarray(r.target_values)[rows]
        out['train_data'] = _de.tolist(r.training_data); out['train_y'] = _de.tolist(r.training_target_values)
        if kind == 'uniform':
            lvl = [int(l) for l in case['lv']]
            cont = case.get('lv_container', 'list')
            lv = args.add('levelvec', np.array(lvl, dtype=int) if cont == 'ndarray' else tuple(lvl) if cont == 'tuple' else list(lvl))
            N = int(np.prod(2 ** np.asarray(lvl, dtype=int) - 1))
            r.grid.numPoints = 2 ** np.asarray(lvl, dtype=int) - 1
            A = r.build_A_matrix(lv)
            out['A'] = _de.tolist(A)
            C = r.build_C_matrix(lv) if N <= N_C_IMPL else None
            out['C'] = _de.tolist(C) if C is not None else None
            from sparseSpACE.ComponentGridInfo import ComponentGridInfo
            al = r.evaluate_levelvec(ComponentGridInfo(lv, 1))
            out['alphas'] = _de.tolist(al)
            out['stored'] = _de.tolist(r.surpluses[tuple(lvl)])
            if case['lam'] != 0 and N <= 30:
                # the system the solve uses, observed AFTER the solve (an observer call on the live object)
                L = r.build_left_matrix(lv); rhs = r.build_right_vector(lv)
                out['L'] = _de.tolist(L); out['rhs'] = _de.tolist(rhs)
                L[...] = SENTINEL; rhs[...] = SENTINEL
            done, changed = _observers(r, case, None, rs)
            out['observers'] = done; out['observer_changed'] = changed
            # returned objects belong to the caller: overwrite them, then look at the object again
            A[...] = SENTINEL
            if C is not None:
                C[...] = SENTINEL
            al[...] = SENTINEL
            if N * len(r.training_data) <= 20000:
                if (np.asarray(r.build_A_matrix(lv)) == SENTINEL).any():
                    aliased.append('build_A_matrix')
                if N <= 64 and (np.asarray(r.build_C_matrix(lv)) == SENTINEL).any():
                    aliased.append('build_C_matrix')
                if case['lam'] != 0 and N <= 30 and ((np.asarray(r.build_left_matrix(lv)) == SENTINEL).any()
                                                    or (np.asarray(r.build_right_vector(lv)) == SENTINEL).any()):
                    aliased.append('build_left_matrix/build_right_vector')
            if (np.asarray(r.surpluses[tuple(lvl)]) == SENTINEL).any():
                aliased.append('evaluate_levelvec')
                r.surpluses[tuple(lvl)] = np.array(out['stored'])        # restore for the following steps
        else:
            from sparseSpACE.Grid import GlobalTrapezoidalGrid
            stripes = args.add('gridPointCoordsAsStripes', [list(s) for s in case['stripes']])
            levels = args.add('grid_point_levels', [list(l) for l in case['levels']])
            r.grid = GlobalTrapezoidalGrid(a=np.zeros(dim), b=np.ones(dim), modified_basis=False, boundary=False)
            r.grid.set_grid(stripes, levels)
            A = r.build_A_matrix_dimension_wise(stripes, levels)
            out['A'] = _de.tolist(A)
            C = r.build_C_matrix_dimension_wise(stripes, levels)
            out['C'] = _de.tolist(C)
            if case['lam'] == 0:
                al = r.solve_regression_dimension_wise(stripes, levels, None)
            else:
                al = r.solve_regression_dimension_wise_smooth(stripes, levels, None)
            out['alphas'] = _de.tolist(al)
            A[...] = SENTINEL; C[...] = SENTINEL; al[...] = SENTINEL
            if (np.asarray(r.build_A_matrix_dimension_wise(stripes, levels)) == SENTINEL).any():
                aliased.append('build_A_matrix_dimension_wise')
            if (np.asarray(r.build_C_matrix_dimension_wise(stripes, levels)) == SENTINEL).any():
                aliased.append('build_C_matrix_dimension_wise')
        out['aliased'] = aliased
        return out
    # ---- training runs + Opticom on ONE object
    calls = []
    implicit = bool(case.get('implicit_defaults'))
    if kind == 'train-adaptive':
        orig = r.__class__.calculate_operation_dimension_wise

        def logged(stripes, levels, cg, r=r, calls=calls):
            res = orig(r, stripes, levels, cg)
            st = [[float(v) for v in s] for s in stripes]
            lv = [[int(v) for v in s] for s in levels]
            rec = dict(lv=[int(x) for x in cg.levelvector], stripes=st, levels=lv,
                       alphas=_de.tolist(r.surpluses[tuple(cg.levelvector)]))
            calls.append(rec)
            return res
        r.calculate_operation_dimension_wise = logged
        try:
            if implicit:
                combi = r.train_spatially_adaptive(case['pct'], 0.5, 1e-5, case.get('max_evals', 0))
            else:
                combi = r.train_spatially_adaptive(case['pct'], 0.5, 1e-5, case.get('max_evals', 0), False, False)
        finally:
            del r.calculate_operation_dimension_wise
    elif implicit and not case.get('noisy'):
        combi = r.train(case['pct'], case['lmin'], case['lmax'])
    else:
        combi = r.train(case['pct'], case['lmin'], case['lmax'], bool(case.get('noisy')))
    out['train_data'] = _de.tolist(r.training_data)
    out['train_y'] = _de.tolist(r.training_target_values)
    out['n_validation'] = int(len(r.validation_target_values))
    out['n_test'] = int(len(r.test_target_values))
    out['scheme'] = [[int(x) for x in g.levelvector] for g in combi.scheme]
    out['surpluses'] = {_lvkey(g.levelvector): _de.tolist(r.surpluses[tuple(g.levelvector)]) for g in combi.scheme}
    out['A'] = {}
    out['C'] = {}
    out['L'] = {}
    out['rhs'] = {}
    if kind == 'train':
        for g in combi.scheme:
            lv = [int(x) for x in g.levelvector]
            r.grid.numPoints = 2 ** np.asarray(lv, dtype=int) - 1
            N = int(np.prod(r.grid.numPoints))
            out['A'][_lvkey(lv)] = _de.tolist(r.build_A_matrix(lv))
            if case['matrix'] == 'C' and case['lam'] != 0 and N <= 64:
                out['C'][_lvkey(lv)] = _de.tolist(r.build_C_matrix(lv))
            if case['lam'] != 0 and N <= 30 and len(r.training_data) <= 300:
                L = r.build_left_matrix(lv); rhs = r.build_right_vector(lv)
                out['L'][_lvkey(lv)] = _de.tolist(L); out['rhs'][_lvkey(lv)] = _de.tolist(rhs)
                L[...] = SENTINEL; rhs[...] = SENTINEL
    else:
        # every solve of the run (all refinement iterations); the last ones are those of the final scheme
        keep = calls[:3] + calls[-9:] if len(calls) > 12 else calls
        for rec in keep:
            rec['A'] = _de.tolist(r.build_A_matrix_dimension_wise(rec['stripes'], rec['levels']))
        out['calls'] = keep
        out['n_calls'] = len(calls)
    done, changed = _observers(r, case, combi, rs)
    out['observers'] = done; out['observer_changed'] = changed
    after_obs = {_lvkey(g.levelvector): _de.tolist(r.surpluses[tuple(g.levelvector)]) for g in combi.scheme}
    if after_obs != out['surpluses'] and 'surpluses' not in changed:
        out['observer_changed'] = changed + ['surpluses']
    saved = [g.coefficient for g in combi.scheme]
    out['coefs0'] = [float(c) for c in saved]
    if kind == 'train' and len(r.validation_target_values) <= 80 and _garcke_cost([[int(x) for x in g.levelvector] for g in combi.scheme],
                                                                                 len(r.validation_target_values)) <= GARCKE_CAP:
        # the system of Opticom option 1 as the library assembles it (public method, an observer call)
        M1, v1 = r.build_matrix_opticom(combi)
        out['garcke'] = dict(M=_de.tolist(M1), v=_de.tolist(v1), lam=float(r.regularization_opticom))
    if len(r.validation_target_values) <= 80:
        out['val_data'] = _de.tolist(r.validation_data); out['val_y'] = _de.tolist(r.validation_target_values)
    opt = {}
    for option in (1, 2, 3):
        for g, c in zip(combi.scheme, saved):
            g.coefficient = c
        try:
            if kind == 'train':
                if option == 1 and implicit:
                    r.optimize_coefficients(combi)
                else:
                    r.optimize_coefficients(combi, option)
            elif option == 1 and implicit:
                r.optimize_coefficients_spatially_adaptive(combi)
            else:
                r.optimize_coefficients_spatially_adaptive(combi, option)
            opt[option] = ('ok', [float(g.coefficient) for g in combi.scheme])
        except Exception as e:       # exceptions are observables
            if type(e).__name__ == 'CaseTimeout':
                raise
            import traceback
            tb = traceback.extract_tb(e.__traceback__)
            opt[option] = ('exc', type(e).__name__, '%s:%d' % (tb[-1].filename.split('/')[-1], tb[-1].lineno), str(e)[:120])
    out['opticom'] = opt
    out['surpluses_after_opticom_unchanged'] = after_obs == {_lvkey(g.levelvector): _de.tolist(r.surpluses[tuple(g.levelvector)])
                                                             for g in combi.scheme}
    out['aliased'] = aliased
    return out


def _sibling(case):
    """an object of the sibling class (DensityEstimation, same base class MachineLearning) works in the same process"""
    import numpy as np
    from sparseSpACE.GridOperation import DensityEstimation
    from sparseSpACE.StandardCombi import StandardCombi
    from sparseSpACE.Utils import print_levels, log_levels
    dim = case['dim']
    de = DensityEstimation(np.array(case['data'], dtype=float), dim, lambd=case.get('lam', 0.0), print_level=print_levels.ERROR,
                           log_level=log_levels.ERROR)
    sc = StandardCombi(np.zeros(dim), np.ones(dim), operation=de, print_output=False)
    sc.perform_operation(1, 2)
    return dict(sibling=True)


def impl_case(case):
    """returns one (status, value) per executed step; stops at the first step that raises.
    Steps address objects by 'obj' (several live objects, interleaved); 'reuse' = work on the existing object, 'reinit' = run
    its constructor again with this step's arguments, 'same_arrays' = hand over the very data / target objects of the previous
    construction."""
    import traceback
    from ..impl import REPO
    steps = case['steps'] if case['kind'] == 'history' else [case]
    outs = []
    objs = {}
    args = _Args()
    last_arrays = None
    for st in steps:
        try:
            if st['kind'] == 'sibling':
                outs.append(('ok', _sibling(st)))
                continue
            oid = st.get('obj', 0)
            arrays = last_arrays if st.get('same_arrays') and last_arrays is not None else None
            if st.get('reinit') and oid in objs:
                objs[oid], last_arrays = _mk(st, args=args, arrays=arrays, target=objs[oid])
            elif not (st.get('reuse') and oid in objs):
                objs[oid], last_arrays = _mk(st, default_range=st['kind'] == 'construct', args=args, arrays=arrays)
            o = _step(objs[oid], st, args)
            o['mutated'] = args.mutated()
            outs.append(('ok', o))
        except Exception as e:
            if type(e).__name__ == 'CaseTimeout':
                raise
            tb = traceback.extract_tb(e.__traceback__)
            where = ''
            for frm in reversed(tb):
                if REPO in frm.filename:
                    where = '%s:%d' % (os.path.relpath(frm.filename, REPO), frm.lineno)
                    break
            outs.append(('exc', (type(e).__name__, where, str(e)[:300])))
            break
    return outs


# ----------------------------------------------------------------------------------------------- comparison
def _sig(case, obs, **kw):
    s = dict(path=case['kind'], obs=obs, matrix=case.get('matrix'), regularised=case.get('lam', 0) != 0)
    s.update(kw)
    return s


def _key(case):
    if case['kind'] == 'history':
        return ('history',) + tuple(_key(s) for s in case['steps'])
    return (case['kind'], str(case.get('lv') or case.get('stripes') or (case.get('lmin'), case.get('lmax'), case.get('pct'))),
            case['lam'], case['matrix'], str(case.get('rows')), hash(str(case['data'])), hash(str(case['y'])))


def near_node(stripes, data):
    """some sample coordinate lies within 2^-52 below an inner grid node (binary64 neighbourhood of the node)"""
    eps = F(1, 2 ** 52)
    for d, st in enumerate(stripes):
        for p in st[1:-1]:
            for x in data:
                if 0 < p - x[d] <= eps:
                    return True
    return False


def _bucket(n):
    """position of a size relative to the usual internal block sizes / thresholds"""
    prev = 0
    for t in THRESHOLDS:
        if n <= t:
            return '%d..%d' % (prev + 1, t)
        prev = t
    return '>%d' % THRESHOLDS[-1]


def _check_scaling(chk, c, rep, r):
    """property clause 'data scaling at construction': min-max scaling of every feature to [0.05, 0.95], targets untouched"""
    data = fr(c['data']); sd = fr(r['data'])
    eps = _de.EPS
    if c.get('container') == 'float32' and c.get('style') != 'int':
        # the implementation is handed a float32 array (_make_arrays): the property speaks about the values it receives, and
        # scikit-learn keeps float32 arithmetic for float32 input - reference from the rounded values, bound with the float32 epsilon
        import numpy as np
        data = fr([[float(np.float32(v)) for v in x] for x in c['data']]); eps = 2.0 ** -23
    lo, hi = sx.rat(RANGE[0]), sx.rat(RANGE[1])
    if len(sd) != len(data):
        chk.violation('oracle:scaling', 'scaling-differs', _sig(c, 'scaling'), rep, dict(rows=len(sd), want=len(data)))
        return False
    for d in range(c['dim']):
        col = [x[d] for x in data]
        mn, mx = min(col), max(col)
        # MinMaxScaler computes x * scale + (lo - min * scale): absolute error about eps * |x| * scale (cancellation-aware bound)
        # (a constant feature is scaled with scale 1: x * 0.9 + (0.05 - x * 0.9))
        amp = float(max(abs(mn), abs(mx)) / (mx - mn)) if mx != mn else max(1.0, float(abs(mn)))
        for x, s in zip(data, sd):
            want = lo + (x[d] - mn) / (mx - mn) * (hi - lo) if mx != mn else lo
            if not _de.close(s[d], want, 1e-12, 0, 1e-13 + 16 * eps * amp):
                # sklearn's MinMaxScaler treats a feature whose range is below 10 * eps (absolute) as constant
                tiny = mx != mn and (mx - mn) < 10 * F(1, 2 ** 52)
                chk.violation('oracle:scaling', 'scaling-differs', _sig(c, 'scaling', range_below_10_eps=bool(tiny)), rep,
                              dict(got=float(s[d]), want=float(want), feature=d, feature_range=float(mx - mn)))
                return False
    if fr(r['y']) != fr(c['y']):
        chk.violation('oracle:scaling', 'targets-changed', _sig(c, 'targets'), rep, dict(got=r['y'][:5]))
        return False
    return True


def _check_split(chk, c, rep, r):
    """the training set is a sub-multiset of the (scaled data, target) pairs with the size of the documented split"""
    want = split_sizes(len(c['data']), c['pct'])
    got = (len(r['train_data']), r['n_validation'] - len(r['train_data']), r['n_test'])
    ok = got == want and len(r['train_y']) == got[0]
    if ok:
        pool = {}
        for x, t in zip(r['data'], r['y']):
            k = (tuple(x), t)
            pool[k] = pool.get(k, 0) + 1
        for x, t in zip(r['train_data'], r['train_y']):
            k = (tuple(x), t)
            if not c.get('noisy'):
                if pool.get(k, 0) <= 0:
                    ok = False
                    break
                pool[k] -= 1
    if not ok:
        chk.violation('oracle:training_split', 'training-split-differs', _sig(c, 'split'), rep,
                      dict(sizes_train_validation_test=got, want=want))
    return ok


class Unit:
    """one component-grid solve of one step"""
    __slots__ = ('c', 'rep', 'grid', 'A_i', 'C_i', 'al_i', 'data_s', 'y_s', 'via', 'tier', 'rows', 'res', 'resC', 'resA', 'resP',
                 'L_i', 'rhs_i')

    def __init__(self, c, rep, grid, A_i, C_i, al_i, data_s, y_s, via):
        self.c, self.rep, self.grid, self.A_i, self.C_i, self.al_i = c, rep, grid, A_i, C_i, al_i
        self.data_s, self.y_s, self.via = data_s, y_s, via
        self.tier = None; self.rows = None; self.res = None; self.resC = None; self.resA = None; self.resP = None
        self.L_i = None; self.rhs_i = None

    def stripes(self):
        return _de.uniform_stripes(self.grid['lv']) if 'lv' in self.grid else fr(self.grid['stripes'])

    def nhats(self):
        n = 1
        for s in self.stripes():
            n *= len(s) - 2
        return n


def sample_rows(m, N, rng):
    """all rows when affordable, else: first, last, the rows around multiples of the usual block sizes and random ones"""
    if N * m <= CAP_ROWS:
        return list(range(m))
    budget = max(8, CAP_ROWS // max(N, 1))
    rows = {0, 1, m - 1, m - 2}
    for t in THRESHOLDS:
        k = t
        while k < m + 2:
            for r in (k - 1, k, k + 1):
                if 0 <= r < m:
                    rows.add(r)
            k += t
            if len(rows) > budget // 2:
                break
    rows = set(sorted(rows)[:budget // 2]) | {m - 1}
    while len(rows) < min(budget, m):
        rows.add(rng.randrange(m))
    return sorted(rows)


def _check_grid(chk, u):
    """one component grid: design matrix, smoothing matrix, normal equations"""
    c, grid, A_i, C_i, al_i, data_s, y_s = u.c, u.grid, u.A_i, u.C_i, u.al_i, u.data_s, u.y_s
    uniform = 'lv' in grid
    stripes = u.stripes()
    N = u.nhats()
    lam = sx.rat(c['lam']); use_C = c['matrix'] == 'C'
    gsig = dict(grid='uniform' if uniform else 'dimension-wise', via=u.via)
    rep = u.rep if u.rep['kind'] == 'history' else dict(c, **grid)
    chk.count('model-tier=' + u.tier)
    chk.count('training-rows=' + _bucket(len(data_s)))
    chk.count('hats=' + _bucket(N))
    for name, res in (('full', u.res), ('design', u.resA), ('C', u.resC), ('psd', u.resP)):
        if res is not None and (sx.is_err(res) or isinstance(res, tuple)):
            chk.violation('corr:C20/model', 'model-rejects', gsig, rep, '%s: %s' % (name, str(res)[:300]), failing_input=False)
            return False
    A_m = Cc_m = Cs_m = ok_coded = ok_spec = None
    rows = u.rows if u.rows is not None else list(range(len(data_s)))
    psd_spec_m = None
    if u.res is not None:
        A_m, Cc_m, Cs_m, ok_coded, ok_spec = qmat(u.res[0]), qmat(u.res[1]), qmat(u.res[2]), bool(u.res[3]), bool(u.res[4])
        psd_spec_m = None if u.res[5] == 2 else bool(u.res[5])
    if u.resA is not None:
        A_m = qmat(u.resA)
    if u.resC is not None:
        Cc_m, Cs_m = qmat(u.resC[0]), qmat(u.resC[1])
    nn = near_node(stripes, data_s) if len(data_s) * N <= 20000 else False
    ok = True
    # ---- design matrix = basis values at the training points
    A_s = spec_A(stripes, data_s)
    if A_i is not None:
        Ai = fr(A_i)
        oks = mat_close(Ai, A_s, REL_M, 1e-14)
        okm = len(Ai) == len(A_s) and A_m is not None and mat_close([Ai[k] for k in rows], A_m, REL_M, 1e-14)
        if not (okm and oks):
            bad = [k for k in range(min(len(Ai), len(A_s))) if not mat_close([Ai[k]], [A_s[k]], REL_M, 1e-14)]
            sg = dict(gsig, near_node=nn)
            chk.violation('corr:C20/A' if not okm else 'oracle:design_matrix', 'design-matrix-differs', sg, rep,
                          dict(impl_vs_model=okm, impl_vs_spec=oks, shape=(len(Ai), len(Ai[0]) if Ai else 0),
                               want_shape=(len(A_s), N), wrong_rows=len(bad), first_wrong_rows=bad[:5],
                               impl=str([A_i[k] for k in bad[:2]] or A_i[:2])[:300],
                               basis_values=str([[float(x) for x in A_s[k]] for k in (bad[:2] or [0])])[:300]),
                          failing_input=not oks)
            return False
        chk.count('design-matrix-checked')
    elif A_m is not None and not mat_close(A_m, [A_s[k] for k in rows], 1e-30, 0):
        chk.violation('corr:C20/A-spec', 'model-spec-vs-oracle', gsig, rep, 'Coq design matrix differs from the Python oracle',
                      failing_input=False)
        return False
    # ---- smoothing matrix
    need_C = (use_C and lam != 0) or C_i is not None or Cs_m is not None
    C_s = spec_C(stripes) if need_C and N <= N_C_IMPL else None
    model_predicts = Cc_m is not None and Cc_m != Cs_m
    if Cs_m is not None and mat_close(Cs_m, C_s, 1e-30, 0) is False:
        chk.violation('corr:C20/C-spec', 'model-spec-vs-oracle', gsig, rep, 'Coq specification matrix differs from the Python oracle',
                      failing_input=False)
        return False
    if psd_spec_m is not None and N <= N_PSD:
        # the gradient Gram matrix of the grid (model specification) through the verified checker, cross-checked with the oracle
        chk.count('psd-by-verified-checker(spec matrix)')
        if psd_spec_m != is_psd(C_s)[0]:
            chk.violation('checker:psd_check', 'checker-vs-oracle', gsig, rep, dict(checker=psd_spec_m, oracle=is_psd(C_s)), failing_input=False)
            return False
        if not psd_spec_m:
            chk.violation('theorem:psd', 'gradient-gram-not-psd', gsig, rep, 'the specification matrix is rejected by psd_check', failing_input=False)
            return False
    if C_i is not None and C_s is not None:
        okm = Cc_m is not None and mat_close(fr(C_i), Cc_m, REL_M, 1e-14)
        oks = mat_close(fr(C_i), C_s, REL_M, 1e-14)
        if oks:
            # the implementation matrix IS the gradient Gram matrix (property clause holds)
            chk.count('C-equals-gradient-gram')
            if N <= N_PSD:
                psd, why = is_psd(fr(C_i))
                if u.resP is not None:
                    chk.count('psd-by-verified-checker(implementation matrix)')
                    if bool(u.resP) != psd:
                        chk.violation('checker:psd_check', 'checker-vs-oracle', gsig, rep, dict(checker=bool(u.resP), oracle=psd, why=why),
                                      failing_input=False)
                        return False
                if not psd:
                    chk.violation('oracle:psd', 'C-matrix-not-psd', _sig(c, 'C', **gsig), rep, dict(why=why))
                    ok = False
        elif okm:
            # the faithful model of the code reproduces the implementation and both differ from the gradient Gram matrix
            iso = uniform and len(set(grid['lv'])) == 1
            chk.violation('oracle:gradient_gram', 'C-matrix-not-gradient-gram',
                          dict(gsig, model_predicts=model_predicts, isotropic=iso), rep,
                          dict(impl=str(C_i)[:300], gradient_gram=str([[float(x) for x in r] for r in C_s])[:300]))
            ok = False
        else:
            chk.violation('corr:C20/C', 'C-matrix-differs-from-model', _sig(c, 'C', **gsig), rep,
                          dict(impl=str(C_i)[:400], model=str([[float(x) for x in r] for r in Cc_m])[:400] if Cc_m else None,
                               gradient_gram=str([[float(x) for x in r] for r in C_s])[:400]))
            return False
    # ---- the system the code solves, observed through build_left_matrix / build_right_vector after the solve
    if u.L_i is not None and (C_s is not None or not use_C):
        m = len(A_s)
        cols = [[A_s[r_][c_] for r_ in range(m)] for c_ in range(N)]
        L_s = [[sum((a * b for a, b in zip(cols[i], cols[j]) if a != 0 and b != 0), F(0)) / m
                + lam * (C_s[i][j] if use_C else (1 if i == j else 0)) for j in range(N)] for i in range(N)]
        r_s = [sum((a * b for a, b in zip(cols[i], y_s) if a != 0), F(0)) / m for i in range(N)]
        top = float(max([abs(x) for row in L_s for x in row] + [F(1, 10 ** 300)]))
        rtop = float(sum((abs(cols[i][k_]) * abs(y_s[k_]) for i in range(N) for k_ in range(m)), F(0)) / m) + 1e-300
        okL = mat_close(fr(u.L_i), L_s, 1e-10, 1e-13 * top)
        okr = mat_close([fr(u.rhs_i)], [r_s], 1e-10, 1e-13 * rtop)
        chk.count('system-matrix-observed-after-solve')
        if not (okL and okr) and not (model_predicts and use_C):
            chk.violation('oracle:system_matrix', 'system-differs', dict(gsig, matrix=c['matrix'], left=okL, right=okr), rep,
                          dict(impl_left=str(u.L_i)[:300], want_left=str([[float(x) for x in row] for row in L_s])[:300],
                               impl_right=str(u.rhs_i)[:200], want_right=str([float(x) for x in r_s])[:200]))
            ok = False
    # ---- normal equations of the stated problem, residual of the implementation's surpluses
    chk.count('residual-checks')
    if use_C and lam != 0 and C_s is None:
        chk.count('skipped-residual-too-many-hats-for-C')
        return ok
    al = fr(al_i)
    worst = spec_residual(A_s, C_s, lam, use_C, y_s, al)
    spec_ok = worst <= TOL_RES
    if ok_spec is not None:
        if spec_ok != ok_spec and not (TOL_RES / 4 <= worst <= TOL_RES * 4):
            chk.violation('checker:residual_ok', 'checker-vs-oracle', gsig, rep, dict(worst=float(worst), checker=ok_spec), failing_input=False)
            return False
        chk.count('residual-by-verified-checker')
    elif not spec_ok and Cc_m is not None and use_C and lam != 0:
        ok_coded = spec_residual(A_s, Cc_m, lam, use_C, y_s, al) <= TOL_RES
    if spec_ok:
        chk.count('normal-equations-hold')
    elif ok_coded or ok_coded is None:
        chk.violation('oracle:normal_equations', 'normal-equations-violated',
                      dict(gsig, model_predicts=bool(ok_coded) and model_predicts and use_C and lam != 0, matrix=c['matrix']), rep,
                      dict(relative_residual=float(worst), training_rows=len(data_s), hats=N, surpluses=str(al_i)[:300]))
        ok = False
    else:
        chk.violation('corr:C20/surpluses', 'surpluses-do-not-solve-model-system', dict(gsig, near_node=nn, matrix=c['matrix']), rep,
                      dict(impl=str(al_i)[:300], worst_residual_vs_stated_problem=float(worst), training_rows=len(data_s), hats=N))
        return False
    return ok


def _units_of_step(chk, c, rep, r):
    """component-grid solves observed in one step (with the sanity checks that belong to the step as a whole)"""
    k = c['kind']
    us = []
    if k in ('uniform', 'dimension-wise'):
        grid = dict(lv=c['lv']) if k == 'uniform' else dict(stripes=c['stripes'])
        want = [(x, t) for x, t in zip(r['data'], r['y'])]
        if c.get('rows') is not None:
            want = [want[i] for i in c['rows']]
        if [(x, t) for x, t in zip(r['train_data'], r['train_y'])] != want:
            chk.violation('corr:C20/harness', 'training-rows-not-set', {}, rep, 'harness could not set the training subset', failing_input=False)
            return None
        if k == 'uniform' and r['stored'] != r['alphas']:
            chk.violation('oracle:surpluses_stored', 'stored-surpluses-differ', _sig(c, 'surpluses'), rep,
                          dict(returned=str(r['alphas'])[:200], stored=str(r['stored'])[:200]))
            return None
        u = Unit(c, rep, grid, r['A'], r['C'], r['alphas'], fr(r['train_data']), fr(r['train_y']), 'direct')
        u.L_i, u.rhs_i = r.get('L'), r.get('rhs')
        us.append(u)
    elif k == 'train':
        td, ty = fr(r['train_data']), fr(r['train_y'])
        for lv in r['scheme']:
            key = _lvkey(lv)
            u = Unit(c, rep, dict(lv=lv), r['A'].get(key), r['C'].get(key), r['surpluses'][key], td, ty, k)
            u.L_i, u.rhs_i = r['L'].get(key), r['rhs'].get(key)
            us.append(u)
    elif k == 'train-adaptive':
        td, ty = fr(r['train_data']), fr(r['train_y'])
        chk.count('adaptive-solves-per-run=%s' % ('3' if r['n_calls'] <= 3 else '4..12' if r['n_calls'] <= 12 else '>12'))
        seen = set()
        final = {}
        for rec in r['calls']:
            final[_lvkey(rec['lv'])] = rec
        for lv in r['scheme']:
            rec = final.get(_lvkey(lv))
            if rec is None:
                if r['n_calls'] <= 12:
                    chk.violation('corr:C20/harness', 'scheme-grid-without-solve', {}, rep, str(lv), failing_input=False)
                continue
            if rec['alphas'] != r['surpluses'][_lvkey(lv)]:
                chk.violation('oracle:surpluses_stored', 'stored-surpluses-differ', _sig(c, 'surpluses'), rep,
                              dict(levelvector=lv, last_solve=str(rec['alphas'])[:200], stored=str(r['surpluses'][_lvkey(lv)])[:200]))
                return None
        for rec in r['calls']:
            kk = (str(rec['stripes']), str(rec['alphas']))
            if kk in seen:
                continue
            seen.add(kk)
            if any(len(s) > 3 and len(s) != 2 ** l + 1 for s, l in zip(rec['stripes'], rec['lv'])) or \
                    any(len(s) - 1 not in (2, 4, 8, 16, 32, 64) for s in rec['stripes']):
                chk.count('adaptive-solve-on-refined-(non-uniform)-stripes')
            us.append(Unit(c, rep, dict(stripes=rec['stripes']), rec['A'], None, rec['alphas'], td, ty, k))
    return us


GARCKE_CAP = 1500


def _garcke_cost(scheme, nv):
    """size of the exact evaluation of the Garcke system: pairs of component grids times pairs of points of the joint grid"""
    cost = 0
    for a in range(len(scheme)):
        for b in range(a, len(scheme)):
            n = 1
            for x, y_ in zip(scheme[a], scheme[b]):
                n *= 2 ** max(x, y_) - 1
            cost += n * (n + 1) // 2 * len(scheme[a]) ** 2 + nv
    return cost


def _garcke_request(c, r):
    if c['kind'] != 'train' or 'garcke' not in r or 'val_data' not in r:
        return None
    g = r['garcke']
    raw1 = []
    o1 = r['opticom'][1]
    M = fr(g['M']); v = fr(g['v']); n = len(v)
    if o1[0] == 'ok' and all(math.isfinite(x) for x in o1[1]) and o1[1] != r['coefs0']:
        cp = fr(o1[1])
        Mc = [sum((M[i][j] * cp[j] for j in range(n)), F(0)) for i in range(n)]
        gg = [sum((M[k][i] * Mc[k] for k in range(n)), F(0)) for i in range(n)]
        b = [sum((M[k][i] * v[k] for k in range(n)), F(0)) for i in range(n)]
        den = sum((x * y_ for x, y_ in zip(gg, b)), F(0))
        if den != 0:
            sc = F(float(sum((x * x for x in b), F(0)) / den))
            raw1 = [F(float(sc * x)) for x in cp]
    lvs = r['scheme']
    return 10, [lvs, [fr(r['surpluses'][_lvkey(lv)]) for lv in lvs], fr(r['val_data']), sx.rat(g['lam']), raw1, TOL_RES], bool(raw1)


def _check_garcke_model(chk, c, rep, r, req, res):
    if sx.is_err(res) or isinstance(res, tuple):
        chk.violation('corr:C20/model', 'model-rejects', dict(obs='garcke'), rep, str(res)[:300], failing_input=False)
        return False
    M_m, v_m, cert = qmat(res[0]), [sx.q(x) for x in res[1]], res[2]
    g = r['garcke']
    top = float(max([abs(x) for row in M_m for x in row] + [F(1, 10 ** 300)]))
    okM = mat_close(fr(g['M']), M_m, 1e-9, 1e-12 * top)
    okv = mat_close([fr(g['v'])], [v_m], 1e-9, 1e-12 * top)
    chk.count('opticom1-system-checked(%s)' % ('regularised' if g['lam'] != 0 else 'lambda=0'))
    if not (okM and okv):
        chk.violation('corr:C20/opticom1', 'garcke-system-differs', dict(option=1, matrix=okM, vector=okv, regularised=g['lam'] != 0), rep,
                      dict(impl_matrix=str(g['M'])[:300], model_matrix=str([[float(x) for x in row] for row in M_m])[:300],
                           impl_vector=str(g['v'])[:200], model_vector=str([float(x) for x in v_m])[:200]), failing_input=False)
        return False
    if req[2]:
        if cert != 1:
            chk.violation('corr:C20/opticom1', 'opticom1-not-least-squares', dict(option=1), rep,
                          dict(impl=r['opticom'][1][1], detail='the returned coefficients are not the normalised least-squares solution '
                               'of the Garcke system (certificate rejected by residual_ok_floor)'), failing_input=False)
            return False
        chk.count('opticom1-certified')
    return True


def _opticom_request(c, r):
    """model request for the coefficient optimisation of one training step (None when too expensive / not observable)"""
    if 'val_data' not in r or not r['scheme'] or len(r['scheme']) > 12:
        return None
    k = c['kind']
    grids = []
    if k == 'train':
        for lv in r['scheme']:
            grids.append((_de.uniform_stripes(lv), lv, r['surpluses'][_lvkey(lv)]))
    else:
        if r['n_calls'] > 12:
            return None
        final = {}
        for rec in r['calls']:
            final[_lvkey(rec['lv'])] = rec
        for lv in r['scheme']:
            rec = final.get(_lvkey(lv))
            if rec is None:
                return None
            grids.append((fr(rec['stripes']), fr(rec['stripes']), r['surpluses'][_lvkey(lv)]))
    nh = 0
    for st, _, _ in grids:
        n = 1
        for x in st:
            n *= len(x) - 2
        nh += n
    vd, vy = fr(r['val_data']), fr(r['val_y'])
    cost = nh * len(vd) * c['dim'] ** 2      # exact interpolation in the extracted model: about 1-3 ms per unit
    if cost > 1200:
        return None
    # exact predictions (oracle side) and the scale factor that turns the returned option-2 coefficients into raw ones
    preds = []
    for st, _, al in grids:
        A = spec_A(st, vd)
        a = fr(al)
        preds.append([sum((x * w for x, w in zip(row, a) if x != 0), F(0)) for row in A])
    raw2 = []
    o2 = r['opticom'][2]
    if o2[0] == 'ok' and all(math.isfinite(x) for x in o2[1]) and o2[1] != r['coefs0']:
        cp = fr(o2[1]); nv = len(vd); ng = len(preds)
        b = [sum((p * t for p, t in zip(preds[i], vy)), F(0)) / nv for i in range(ng)]
        Mc = [sum((preds[i][j] * cp[i] for i in range(ng)), F(0)) for j in range(nv)]
        g = [sum((p * t for p, t in zip(preds[i], Mc)), F(0)) / nv for i in range(ng)]
        den = sum((x * y_ for x, y_ in zip(g, b)), F(0))
        if den != 0:
            # a binary64 value of the factor is enough for the certificate (tolerance 1e-8) and keeps the rationals short
            sc = F(float(sum((x * x for x in b), F(0)) / den))
            raw2 = [F(float(sc * x)) for x in cp]
    sub = 8 if k == 'train' else 9
    return sub, [[g[1] for g in grids], [fr(g[2]) for g in grids], fr(r['coefs0']), vd, vy, raw2, TOL_RES], preds, bool(raw2), cost


def _check_opticom_model(chk, c, rep, r, req, res):
    """option 3 completely and option 2 through its certificate against the model"""
    sub, args, preds, has2, _cost = req
    variant = 'adaptive' if c['kind'] == 'train-adaptive' else 'standard'
    if sx.is_err(res) or isinstance(res, tuple):
        chk.violation('corr:C20/model', 'model-rejects', dict(obs='opticom'), rep, str(res)[:300], failing_input=False)
        return False
    coef3_m, errs_m, preds_m, cert2, norm2 = [sx.q(x) for x in res[0]], [sx.q(x) for x in res[1]], qmat(res[2]), res[3], res[4]
    if preds_m != preds:
        chk.violation('corr:C20/opticom-spec', 'model-spec-vs-oracle', dict(obs='predictions', variant=variant), rep,
                      'Coq predictions at the validation points differ from the Python oracle', failing_input=False)
        return False
    chk.count('opticom-model-checked(%s)' % variant)
    ok = True
    vy = args[4]; coefs0 = args[2]
    o3 = r['opticom'][3]
    if o3[0] == 'ok' and all(math.isfinite(x) for x in o3[1]):
        got = fr(o3[1])
        if any(e == 0 for e in errs_m):
            # a grid reproduces the validation targets exactly (in exact arithmetic): degenerate branch of the model
            chk.count('opticom3-degenerate-in-exact-arithmetic')
        else:
            raw = [c0 / e for c0, e in zip(coefs0, errs_m)]
            ssum = sum(raw, F(0))
            ymax = max([abs(t) for t in vy] + [F(1, 10 ** 300)])
            amp = float(max(ymax * ymax / e for e in errs_m)) ** 0.5
            if ssum != 0:
                amp *= float(sum((abs(x) for x in raw), F(0)) / abs(ssum))
            tol = 1e-10 * (1.0 + amp) * 10
            if ssum == 0 or tol > 1e-3:
                chk.count('opticom3-ill-conditioned-skipped')
            elif not all(_de.close(a, b, tol, 0, tol) for a, b in zip(got, coef3_m)):
                chk.violation('corr:C20/opticom3', 'opticom3-differs', dict(variant=variant, option=3), rep,
                              dict(impl=o3[1], model=[float(x) for x in coef3_m], validation_errors=[float(e) for e in errs_m],
                                   tolerance=tol), failing_input=False)
                ok = False
            else:
                chk.count('opticom3-coefficients-agree')
    if has2:
        if cert2 != 1:
            chk.violation('corr:C20/opticom2', 'opticom2-not-least-squares', dict(variant=variant, option=2), rep,
                          dict(impl=r['opticom'][2][1], detail='the returned coefficients are not the normalised least-squares '
                               'coefficients over the validation points (certificate rejected by residual_ok_floor)'),
                          failing_input=False)
            ok = False
        else:
            chk.count('opticom2-certified')
    return ok


def _check_opticom(chk, c, rep, r):
    ok = True
    k = c['kind']
    for option in (1, 2, 3):
        o = r['opticom'][option]
        chk.count('opticom-option-%d' % option)
        variant = ('adaptive' if k == 'train-adaptive' else 'standard') + ('-regularised' if c['lam'] != 0 else '-plain')
        if o[0] == 'exc':
            chk.violation('oracle:opticom_sum_one', 'opticom-raises', dict(option=option, variant=variant, exc=o[1], where=o[2]),
                          rep, dict(exception=o[1:]))
            ok = False
            continue
        if not all(math.isfinite(x) for x in o[1]):
            # which variant, and whether some component grid reproduces the validation targets exactly (error 0 -> x/0)
            chk.violation('oracle:opticom_sum_one', 'opticom-not-finite',
                          dict(option=option, variant=variant,
                               all_surpluses_zero=all(v == 0 for al in r['surpluses'].values() for v in al),
                               constant_targets=len(set(r['train_y'])) == 1), rep, dict(coefficients=o[1]))
            ok = False
            continue
        coefs = fr(o[1])
        if len(coefs) != len(r['scheme']):
            chk.violation('oracle:opticom_sum_one', 'opticom-sum-not-one', dict(option=option, variant=variant), rep,
                          dict(coefficients=o[1], grids=len(r['scheme'])))
            ok = False
            continue
        s = sum(coefs, F(0))
        if not _de.close(s, 1, 1e-9):
            chk.violation('oracle:opticom_sum_one', 'opticom-sum-not-one', dict(option=option, variant=variant), rep,
                          dict(coefficients=o[1], sum=float(s)))
            ok = False
    return ok


def _axes(chk, c):
    chk.count('kind=' + c['kind']); chk.count('dim=%d' % c['dim'])
    chk.count('lambda=%g' % c['lam']); chk.count('matrix=' + c['matrix'])
    chk.count('samples=' + _bucket(len(c['data'])))
    chk.count('data-style=' + c.get('style', 'corpus')); chk.count('target-style=' + c.get('ystyle', 'corpus'))
    chk.count('container=' + c.get('container', 'ndarray'))
    if c['kind'] in ('train', 'train-adaptive'):
        chk.count('level-range=%d..%d' % (c['lmin'], c['lmax']) if c['kind'] == 'train' else 'max_evaluations=%d' % c.get('max_evals', 0))
        chk.count('test-share=%g' % c['pct'])
        chk.count('noisy_data=%s' % bool(c.get('noisy')))
    if c['kind'] == 'uniform':
        chk.count('level-vector=%s' % ('isotropic' if len(set(c['lv'])) == 1 else 'anisotropic'))
    if c.get('rows') is not None:
        chk.count('training-subset-changed-on-one-object')
    if c.get('all_defaults'):
        chk.count('constructor=all-defaults')
    if c.get('lv_container'):
        chk.count('level-vector-container=' + c['lv_container'])
    for flag in ('reinit', 'same_arrays', 'implicit_defaults'):
        if c.get(flag):
            chk.count('step:' + flag)
    if c.get('obj'):
        chk.count('step-on-second/third-live-object')


def process(chk, cases, verbose=False):
    import time
    nv0 = len(chk.violations)
    t0 = time.time()
    impl = run_impl(impl_case, cases, limit=600) if len(cases) > 1 else run_impl(impl_case, cases, nproc=1, limit=600)
    t_impl = time.time() - t0
    # ---- flatten to steps and component-grid solves
    steps = []          # (case index, step case, report case, result)
    for i, c in enumerate(cases):
        st, r = impl[i]
        hist = c['kind'] == 'history'
        sts = c['steps'] if hist else [c]
        if hist:
            chk.count('history=' + c.get('flavour', '?')); chk.count('history-length=%d' % len(sts))
        if st != 'ok':          # time-out or failure outside the steps
            exc = r[0] if r else st
            chk.violation('oracle:construct_and_train', 'raises', dict(path=c['kind'], exc=exc, where=(r[1] if r else '').split(':')[0],
                                                                       targets_below_minus_one=False), c, dict(impl=str(r)))
            continue
        for k, (s, (sst, sr)) in enumerate(zip(sts, r)):
            rep = dict(c, steps=sts[:k + 1]) if hist else c
            steps.append((i, s, rep, sst, sr))
    units = []
    step_units = []
    for (i, s, rep, sst, sr) in steps:
        _axes(chk, s)
        if s.get('reuse'):
            chk.count('step-on-reused-object')
        if sst != 'ok':
            exc, where = sr[0], sr[1].split(':')[0]
            sg = dict(path=s['kind'], exc=exc, where=where, targets_below_minus_one=min(s['y']) < -1)
            if s.get('noisy'):
                # train(noisy_data=True) draws noise with standard deviation max(targets) * 0.01
                sg.update(noisy_data=True, max_target_negative=max(s['y']) < 0)
            chk.violation('oracle:construct_and_train', 'raises', sg, rep, dict(impl=str(sr)))
            step_units.append(None)
            continue
        chk.traces += 1
        if s['kind'] == 'sibling':
            step_units.append([])
            continue
        # ---- sweep oracles: arguments untouched, results not aliased to the object's state, observers leave the state alone
        if sr.get('mutated'):
            chk.violation('oracle:argument_immutability', 'argument-mutated', dict(path=s['kind'], arguments=sorted(set(sr['mutated']))), rep,
                          dict(mutated=sr['mutated'], container=s.get('container', 'ndarray')))
        for name in sr.get('aliased') or []:
            chk.violation('oracle:returned_objects', 'result-aliases-internal-state', dict(path=s['kind'], call=name), rep,
                          dict(call=name, detail='writing into the object returned by the call changed what the Regression object '
                                                 'stores / returns afterwards'))
        if sr.get('observer_changed'):
            chk.violation('oracle:observers', 'observer-changed-state', dict(path=s['kind'], changed=sr['observer_changed']), rep,
                          dict(observers=sr.get('observers'), changed=sr['observer_changed']))
        if sr.get('surpluses_after_opticom_unchanged') is False:
            chk.violation('oracle:observers', 'observer-changed-state', dict(path=s['kind'], changed=['surpluses'], by='optimize_coefficients'),
                          rep, 'the coefficient optimisation changed the stored surpluses')
        for name in sr.get('observers') or []:
            chk.count('observer-between-steps=' + name)
        if not _check_scaling(chk, s, rep, sr):
            step_units.append(None)
            continue
        if s['kind'].startswith('construct'):
            step_units.append([])
            continue
        if s['kind'] in ('train', 'train-adaptive') and not _check_split(chk, s, rep, sr):
            step_units.append(None)
            continue
        us = _units_of_step(chk, s, rep, sr)
        step_units.append(us)
        if us:
            units += us
    # ---- model calls (three tiers by cost)
    mc, slot = [], []
    opt_reqs = []
    garcke_reqs = []
    garcke_budget = chk.n(5000, 200000)
    opt_budget = chk.n(10000, 200000)
    for (i, s, rep, sst, sr), us in zip(steps, step_units):
        if us is None or s['kind'] not in ('train', 'train-adaptive'):
            continue
        req = _opticom_request(s, sr)
        greq = _garcke_request(s, sr)
        if greq is not None:
            garcke_budget -= _garcke_cost(sr['scheme'], len(sr['val_y'])) if sr['garcke']['lam'] != 0 else 50
            if garcke_budget < 0:
                chk.count('opticom1-model-skipped(budget of the run used up)')
                greq = None
        if greq is not None:
            gh = {}
            garcke_reqs.append((s, rep, sr, greq, gh))
            mc.append((greq[0], greq[1])); slot.append((gh, 'res'))
        if req is None:
            chk.count('opticom-model-skipped(cost or not observable)')
            continue
        opt_budget -= req[4]
        if opt_budget < 0:
            chk.count('opticom-model-skipped(budget of the run used up)')
            continue
        if req is not None:
            holder = {}
            opt_reqs.append((s, rep, sr, req, holder))
            mc.append((req[0], req[1])); slot.append((holder, 'res'))
    nbig = 0
    for u in units:
        c = u.c
        lam = sx.rat(c['lam']); useC = c['matrix'] == 'C'
        N = u.nhats(); m = len(u.data_s); d = c['dim']
        cost = N * N * m + 4 * N * N * d
        uniform = 'lv' in u.grid
        garg = u.grid['lv'] if uniform else fr(u.grid['stripes'])
        if cost <= CAP_FULL and (cost <= 30000 or nbig < chk.n(10, 60)):
            nbig += cost > 30000
            u.tier = 'full'
            mc.append((0 if uniform else 1, [garg, lam, useC, u.data_s, u.y_s, fr(u.al_i), TOL_RES])); slot.append((u, 'res'))
        else:
            u.tier = 'design-rows+C' if N <= N_C_MODEL else 'design-rows'
            u.rows = sample_rows(m, N, chk.rng)
            mc.append((5 if uniform else 6, [garg, [u.data_s[k] for k in u.rows]])); slot.append((u, 'resA'))
            if N <= N_C_MODEL:
                mc.append((2 if uniform else 3, [garg])); slot.append((u, 'resC'))
        if u.C_i is not None and N <= 9 and d >= 2:
            # verified checker psd_check on the exact rational image of the implementation's smoothing matrix
            mc.append((7, [fr(u.C_i)])); slot.append((u, 'resP'))
    t0 = time.time()
    for (u, name), res in zip(slot, run_model(20, mc, nproc=max(1, min(16, int(os.environ.get('VERIF_NPROC', '0') or 16))))):
        if isinstance(u, dict):
            u[name] = res
        else:
            setattr(u, name, res)
    t_model = time.time() - t0
    t0 = time.time()
    # ---- compare
    keys, samples = [], []
    oks = {}
    for u in units:
        oks[id(u)] = _check_grid(chk, u)
    opt_ok = {}
    for (s_, rep_, sr_, req, holder) in opt_reqs:
        opt_ok[id(sr_)] = _check_opticom_model(chk, s_, rep_, sr_, req, holder.get('res'))
    for (s_, rep_, sr_, greq, gh) in garcke_reqs:
        opt_ok[id(sr_)] = _check_garcke_model(chk, s_, rep_, sr_, greq, gh.get('res')) and opt_ok.get(id(sr_), True)
    for (i, s, rep, sst, sr), us in zip(steps, step_units):
        if us is None:
            continue
        ok = all(oks[id(u)] for u in us) and opt_ok.get(id(sr), True)
        if s['kind'] in ('train', 'train-adaptive'):
            ok = _check_opticom(chk, s, rep, sr) and ok
        if verbose:
            print('case', i, s['kind'], 'ok' if ok else 'DIFFERS')
        if s['kind'].startswith('construct') or s['kind'].startswith('train') or any(u.nhats() >= 3 for u in us):
            keys.append(_key(s) + (('reuse', len(rep.get('steps', []))) if s.get('reuse') else ()))
        if ok and len(samples) < 3 and s['kind'] in ('uniform', 'dimension-wise') and s['dim'] >= 2 and len(s['data']) <= 12 \
                and us and us[0].nhats() <= 30:
            samples.append(dict(case={kk: s[kk] for kk in s}, impl_surpluses=sr['alphas'][:8], impl_C_row0=(sr['C'] or [[None]])[0][:8]))
    ph = chk.extra.setdefault('phase_seconds', dict(implementation=0.0, model=0.0, oracle=0.0))
    ph['implementation'] += round(t_impl, 1); ph['model'] += round(t_model, 1); ph['oracle'] += round(time.time() - t0, 1)
    # last step of Opticom through the model (shared normalisation), on dyadic raw coefficients
    raw = [[F(chk.rng.randrange(-20, 21), 4) for _ in range(chk.rng.randrange(1, 7))] for _ in range(20)]
    raw = [cs for cs in raw if sum(cs) != 0]
    for cs, m in zip(raw, run_model(20, [(4, [cs]) for cs in raw])):
        if sx.q(m[1]) != 1:
            chk.violation('corr:C20/normalise', 'model-normalise', {}, dict(coefs=[str(x) for x in cs]), str(m), failing_input=False)
    chk.record_cases(len(steps), keys,
                     'Regression: default construction; direct calls on uniform level vectors (d 1..3, N<=49, mostly anisotropic; some '
                     'with 200..2047 hats) and dimension-wise stripes (N<=40); train() with StandardCombi (d 1..4, levels 1..4, '
                     'lmin 1..2, test share .1...5, noisy_data on/off, 6..4400 training samples straddling 64/128/200/256/512/1024/'
                     '2048/4096) and train_spatially_adaptive (initial scheme and 6..20 refinement evaluations, every solve of the run) '
                     'followed by the three Opticom variants; histories of 2-4 requests on one object / several objects per process; '
                     'data on dyadic lattices, random floats, shifted/scaled, integer, duplicated, constant feature; targets dyadic/'
                     'float/constant/large/ties (construction cases also below -1); lambda in {0,1e-6,1e-4,.01,.125,1,10,100}, matrix C/I; '
                     'counted = steps; non-trivial = at least 3 grid points or a training run; distinct by full step',
                     samples)
    return len(chk.violations) - nv0


# ----------------------------------------------------------------------------------------------- failing-input search
class _Scratch:
    """collector with the interface of Check used by process(), for re-running reduced cases"""
    def __init__(self, chk):
        self.violations = []; self.traces = 0; self.rng = chk.rng; self.extra = {}; self.quick = chk.quick
        self.n = chk.n

    def count(self, *a, **k):
        pass

    def record_cases(self, *a, **k):
        pass

    def violation(self, check, kind, sig, case, detail, failing_input=True, size=None):
        self.violations.append(dict(check=check, kind=kind, sig=sig, case=case, detail=detail, failing_input=failing_input))


def shrink(chk, first_new):
    """large failing inputs: replace by the smallest leading part of the data set (bisection) that still shows a violation of
    the same kind"""
    done = 0
    kinds = ('design-matrix-differs', 'normal-equations-violated', 'surpluses-do-not-solve-model-system', 'scaling-differs',
             'training-split-differs', 'C-matrix-differs-from-model', 'stored-surpluses-differ', 'opticom-sum-not-one', 'raises')
    for v in chk.violations[first_new:]:
        c = v['case']
        if done >= 2:
            break
        if v['kind'] not in kinds or v['sig'].get('model_predicts'):
            continue       # (known) findings that do not depend on the size of the data set
        if not v['failing_input'] or not isinstance(c, dict) or c.get('kind') not in ('train', 'uniform', 'dimension-wise', 'train-adaptive'):
            continue
        n = len(c.get('data', []))
        if n <= 96 or c.get('rows') is not None:
            continue

        def fails(k):
            cc = dict(c, data=c['data'][:k], y=c['y'][:k])
            s = _Scratch(chk)
            try:
                process(s, [cc])
            except Exception:
                return None
            hit = [w for w in s.violations if w['kind'] == v['kind'] and w['failing_input']]
            return hit[0] if hit else None
        done += 1
        try:       # workers forked from here on inherit the loaded library (no import per reduced case)
            import sparseSpACE.GridOperation  # noqa: F401
        except Exception:
            pass
        lo, hi, best = 8, n, None
        for _ in range(10):
            if hi - lo <= 1:
                break
            mid = (lo + hi) // 2
            w = fails(mid)
            if w:
                hi, best = mid, w
            else:
                lo = mid
        if best:
            v['case'] = best['case']; v['detail'] = dict(best['detail'], reduced_from_samples=n) if isinstance(best['detail'], dict) else best['detail']
            v['size'] = len(str(best['case']))


def confirm_alone(chk, first_new, cases):
    """worker processes serve many cases, so state shared across instances (class attributes, module caches) can make a single
    request fail that is fine in a fresh process.  Such a violation is re-run alone; if it does not reproduce, the request is
    paired with earlier requests of the run (two objects in one fresh process) until it does, and that history is reported."""
    done = 0
    singles = [c for c in cases if c.get('kind') in ('train', 'uniform', 'dimension-wise', 'train-adaptive') and len(c['data']) <= 64]
    for v in chk.violations[first_new:]:
        c = v['case']
        if done >= 3 or not v['failing_input'] or not isinstance(c, dict) or c.get('kind') not in ('train', 'uniform', 'dimension-wise',
                                                                                                   'train-adaptive'):
            continue
        if v['sig'].get('model_predicts') or len(c.get('data', [])) > 300:
            continue
        done += 1
        try:
            import sparseSpACE.GridOperation  # noqa: F401  (forked workers inherit the loaded library)
        except Exception:
            pass

        def hit(case):
            sc = _Scratch(chk)
            try:
                process(sc, [case])
            except Exception:
                return None
            h = [w for w in sc.violations if w['kind'] == v['kind'] and w['failing_input']]
            return h[0] if h else None
        if hit(c):
            v['detail'] = dict(v['detail'], reproduced_alone_in_a_fresh_process=True) if isinstance(v['detail'], dict) else v['detail']
            continue
        found = None
        for prev in singles[:25]:
            if prev is c:
                continue
            found = hit(dict(kind='history', flavour='objects', dim=prev['dim'], steps=[prev, c]))
            if found:
                break
        if found:
            v['case'] = found['case']
            v['detail'] = dict(found['detail'], needs_an_earlier_object_in_the_same_process=True) if isinstance(found['detail'], dict) else found['detail']
        elif isinstance(v['detail'], dict):
            v['detail'] = dict(v['detail'], reproduced_alone_in_a_fresh_process=False,
                               note='fails only after other requests in the same worker process (state shared across instances)')


def run(chk):
    import time
    t0 = time.time()
    # source-derived model: regenerate coq/Gen/RegressGen.v from the working tree BEFORE the obligations, so that the C20_gen_*
    # theorems are re-checked against the entry computation of build_C_matrix as it is now
    gen_info = _c20_gen.regenerate(chk)
    chk.coq_obligations(extra_props=_c20_gen.EXTRA_PROPS)
    gen_problem = _c20_gen.diagnose(chk, gen_info)
    chk.extra['seconds_coq_obligations_incl_waiting_for_the_build_lock'] = round(time.time() - t0, 1)
    rng = chk.rng
    q = chk.quick
    cases = list(CORPUS)
    cases += [gen_construct(rng) for _ in range(chk.n(8, 60))]
    cases += [gen_direct(rng, q, True) for _ in range(chk.n(60, 1200))]
    cases += [gen_direct(rng, q, False) for _ in range(chk.n(50, 1000))]
    cases += [gen_direct(rng, q, True, size='manyrows') for _ in range(chk.n(4, 20))]
    cases += [gen_direct(rng, q, False, size='manyrows') for _ in range(chk.n(4, 20))]
    cases += [gen_direct(rng, q, True, size='manyhats') for _ in range(chk.n(2, 12))]
    cases += [gen_direct(rng, q, True, size='midhats') for _ in range(chk.n(2, 12))]
    cases += [gen_train(rng) for _ in range(chk.n(14, 150))]
    cases += [gen_train(rng, size='medium') for _ in range(chk.n(6, 30))]
    cases += [gen_train(rng, size='large') for _ in range(chk.n(3, 20))]
    cases += [gen_train(rng, size='xlarge') for _ in range(chk.n(1, 6))]
    cases += [gen_train(rng, adaptive=True) for _ in range(chk.n(8, 60))]
    cases += [gen_train(rng, adaptive=True, size='medium') for _ in range(chk.n(1, 8))]
    cases += [gen_train(rng, adaptive=True, size='large') for _ in range(chk.n(1, 6))]
    # every flavour of history occurs at least three times in every run, the rest is drawn at random
    cases += [gen_history(rng, q, fl) for fl in HISTORY_FLAVOURS for _ in range(5 if fl == 'reinit' else 3)]
    cases += [gen_history(rng, q) for _ in range(chk.n(8, 300))]
    nv0 = len(chk.violations)
    process(chk, cases)
    shrink(chk, nv0)
    confirm_alone(chk, nv0, cases)
    _c20_gen.finish(chk, gen_info, gen_problem)


def replay(chk, rep):
    c = rep['case']
    c = {k: v for k, v in c.items()}
    n = process(chk, [c], verbose=True)
    for v in chk.violations:
        print('check:', v['check'], 'kind:', v['kind'], 'sig:', v['sig'], 'failing_input:', v['failing_input'])
        print('detail:', str(v['detail'])[:1500])
    print('property predicate:', 'VIOLATED' if any(v['failing_input'] for v in chk.violations) else 'holds')
    return 1 if n else 0
