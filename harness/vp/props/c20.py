"""C20: regression solves the regularised least-squares problem on every component grid.
Correspondence  Model/Regress.v (extracted)  <->  GridOperation.Regression, plus the property's own predicate
(exact-rational design matrix, gradient Gram matrix, normal-equation residual) on the implementation outputs."""
import itertools
from fractions import Fraction as F

from .. import sx
from ..impl import run_impl
from ..model import run_model
from . import _de
from ._de import fr, qvec, qmat, vec_close, mat_close

ASSUMPTIONS = [
    'exact-arithmetic model over Qc; implementation floats converted to exact rationals; tolerance 1e-11 for matrix entries',
    'np.linalg.lstsq is not modelled: its result is checked by the verified residual checker residual_ok '
    '(|L alpha - r|_i <= 1e-8 * max_i (sum_j |L_ij||alpha_j| + |r_i|)) against the model system',
    'the scaled training data are read from the implementation (DataSet scaling itself is C18); the scaling to '
    '[0.05, 0.95] is checked by the oracle only',
    'sklearn train_test_split is not modelled: the training split is read from the implementation',
    'Opticom: only the property clause (coefficients sum to one) and the shared normalisation step are checked',
]

REL_M = 1e-11
TOL_RES = F(1, 10 ** 8)
RANGE = (0.05, 0.95)


# ----------------------------------------------------------------------------------------------- specification
def slope1(t, x):
    lo, p, hi = t
    if x <= lo or x >= hi:
        return F(0)
    return 1 / (p - lo) if x < p else -1 / (hi - p)


def gradgram1(ti, tj):
    """integral of the product of the derivatives of two hats (piecewise constant)"""
    bps = sorted(set(ti) | set(tj))
    s = F(0)
    for a, b in zip(bps, bps[1:]):
        m = (a + b) / 2
        s += (b - a) * slope1(ti, m) * slope1(tj, m)
    return s


def spec_C(stripes):
    hs = _de.grid_hats(stripes)
    n = len(hs)
    dim = len(stripes)
    C = [[F(0)] * n for _ in range(n)]
    for i in range(n):
        for j in range(i, n):
            v = F(0)
            for d in range(dim):
                t = gradgram1(hs[i][d], hs[j][d])
                for m in range(dim):
                    if t == 0:
                        break
                    if m != d:
                        t *= _de.gram1(hs[i][m], hs[j][m])
                v += t
            C[i][j] = C[j][i] = v
    return C


def spec_A(stripes, data):
    hs = _de.grid_hats(stripes)
    return [[_de.spec_hat_nd(t, x) for t in hs] for x in data]


def is_psd(G):
    """exact: symmetric and positive semi-definite (symmetric elimination; a zero pivot needs a zero row)"""
    n = len(G)
    A = [list(map(F, r)) for r in G]
    for i in range(n):
        for j in range(i):
            if A[i][j] != A[j][i]:
                return False, 'not symmetric at (%d,%d)' % (i, j)
    for k in range(n):
        p = A[k][k]
        if p < 0:
            return False, 'negative pivot'
        if p == 0:
            if any(A[k][c] != 0 for c in range(k, n)):
                return False, 'zero pivot with non-zero row'
            continue
        for r in range(k + 1, n):
            f = A[r][k] / p
            if f != 0:
                for c in range(k, n):
                    A[r][c] -= f * A[k][c]
    return True, ''


def spec_residual(A, C, lam, use_C, y, alpha):
    """returns max_i |(L alpha - r)_i| / max_i (sum_j |L_ij||alpha_j| + |r_i|) for the stated problem"""
    m = len(A)
    n = len(A[0]) if A else 0
    cols = [[A[r][c] for r in range(m)] for c in range(n)]
    ress, bounds = [], []
    for i in range(n):
        row = []
        for j in range(n):
            v = sum((a * b for a, b in zip(cols[i], cols[j])), F(0)) / m
            if lam != 0:
                v += lam * (C[i][j] if use_C else (1 if i == j else 0))
            row.append(v)
        ri = sum((a * b for a, b in zip(cols[i], y)), F(0)) / m
        ress.append(abs(sum((a * b for a, b in zip(row, alpha)), F(0)) - ri))
        bounds.append(sum((abs(a) * abs(b) for a, b in zip(row, alpha)), F(0)) + abs(ri))
    scale = max(bounds + [F(0)])
    worst = max(ress + [F(0)])
    if worst == 0:
        return F(0)
    return worst / scale if scale != 0 else F(10 ** 9)


# ----------------------------------------------------------------------------------------------- generators
def gen_xy(rng, dim, M, below_minus_one=False):
    data = []
    for _ in range(M):
        data.append([_de.dyadic(rng, rng.choice([2, 3, 4])) for _ in range(dim)])
    # make sure every feature has a non-degenerate range
    for d in range(dim):
        data[rng.randrange(M)][d] = 0.0
        data[rng.randrange(M)][d] = 1.0
    if rng.random() < 0.8:
        # mid-range coordinates scale to 0.5 - 2^-54, one ulp below the node 0.5 (see finding C20-cv-hat-ulp-below-node);
        # most cases avoid them so that the downstream checks are exercised
        data = [[0.5625 if v == 0.5 else v for v in x] for x in data]
    lo = -16 if below_minus_one else -4
    y = [rng.randrange(lo, 17) / 4 for _ in range(M)]
    return data, y


def gen_direct(rng, quick, uniform):
    dim = rng.choice([1, 2, 2, 2, 3])
    if uniform:
        while True:
            lv = [rng.choice([1, 1, 2, 2, 3]) for _ in range(dim)]
            N = 1
            for l in lv:
                N *= 2 ** l - 1
            if N <= (27 if quick else 49):
                break
        grid = dict(lv=lv)
    else:
        while True:
            sl = [_de.gen_stripe(rng, rng.choice([2, 3, 3, 4]), 1, 5) for _ in range(dim)]
            N = 1
            for s, _ in sl:
                N *= len(s) - 2
            if N <= (24 if quick else 40):
                break
        grid = dict(stripes=[s for s, _ in sl], levels=[l for _, l in sl])
    M = rng.choice([3, 5, 8, 12, 20, 30])
    data, y = gen_xy(rng, dim, M)
    c = dict(kind='uniform' if uniform else 'dimension-wise', dim=dim, lam=rng.choice([0, 0, 0.125, 0.125, 0.01, 1.0]),
             matrix=rng.choice(['C', 'C', 'I']), data=data, y=y)
    c.update(grid)
    return c


def gen_train(rng, adaptive=False):
    dim = rng.choice([1, 2, 2])
    M = rng.choice([12, 20, 30])
    data, y = gen_xy(rng, dim, M)
    return dict(kind='train-adaptive' if adaptive else 'train', dim=dim, lam=rng.choice([0, 0.125, 0.01]),
                matrix=rng.choice(['C', 'I']), data=data, y=y, lmin=1, lmax=rng.choice([2, 3]) if dim < 3 else 2,
                pct=rng.choice([0.2, 0.3]))


def gen_construct(rng):
    dim = rng.choice([1, 2, 3])
    M = rng.choice([2, 5, 9])
    data, y = gen_xy(rng, dim, M, below_minus_one=rng.random() < 0.5)
    return dict(kind='construct', dim=dim, lam=rng.choice([0, 0.125]), matrix=rng.choice(['C', 'I']), data=data, y=y)


CORPUS = [
    # exemplars of the known findings
    dict(kind='construct', dim=1, lam=0.125, matrix='C', data=[[0.0], [1.0]], y=[1.0, 2.0]),
    dict(kind='construct-explicit-range', dim=1, lam=0.125, matrix='C', data=[[0.0], [1.0]], y=[-2.0, 1.0]),
    dict(kind='uniform', dim=2, lv=[1, 2], lam=0.125, matrix='C', data=[[0.0, 0.0], [1.0, 1.0], [0.5, 0.25], [0.25, 0.75]],
         y=[1.0, 2.0, 0.5, -1.0]),
    dict(kind='dimension-wise', dim=1, stripes=[[0.0, 0.25, 0.5, 0.75, 1.0]], levels=[[0, 2, 1, 2, 0]], lam=0.125, matrix='C',
         data=[[0.0], [1.0], [0.5], [0.25]], y=[1.0, 2.0, 0.5, -1.0]),
    dict(kind='train', dim=1, lam=0.125, matrix='C', data=[[i / 16] for i in range(0, 17)], y=[(i % 5) / 4 for i in range(17)],
         lmin=1, lmax=2, pct=0.2),
    dict(kind='uniform', dim=2, lv=[2, 2], lam=0.125, matrix='C',
         data=[[0.0, 0.0], [1.0, 1.0], [0.5, 0.25], [0.25, 0.75], [0.75, 0.5]], y=[1.0, 2.0, 0.5, -1.0, 0.0]),
    # sample at the mid-range: scales to 0.5 - 2^-54, one ulp below the node 0.5
    dict(kind='dimension-wise', dim=1, stripes=[[0.0, 0.5, 1.0]], levels=[[0, 1, 0]], lam=0, matrix='I',
         data=[[0.0], [1.0], [0.5], [0.25]], y=[1.0, 2.0, 0.5, -1.0]),
    dict(kind='train-adaptive', dim=1, lam=0, matrix='I', data=[[i / 16] for i in range(0, 17)], y=[(i % 5) / 4 for i in range(17)],
         lmin=1, lmax=2, pct=0.2),
]


# ----------------------------------------------------------------------------------------------- implementation
def _mk(case, default_range=False):
    import numpy as np
    from sparseSpACE.GridOperation import Regression
    from sparseSpACE.Utils import print_levels, log_levels
    kw = dict(print_level=print_levels.ERROR, log_level=log_levels.ERROR)
    if not default_range:
        kw['rangee'] = RANGE
    return Regression(data=np.array(case['data'], dtype=float), target_values=np.array(case['y'], dtype=float),
                      regularization=case['lam'], regularization_matrix=case['matrix'], **kw)


def impl_case(case):
    import numpy as np
    kind = case['kind']
    out = {}
    if kind == 'construct':
        r = _mk(case, default_range=True)       # "with default construction arguments"
        out['data'] = _de.tolist(r.data); out['y'] = _de.tolist(r.target_values)
        return out
    r = _mk(case)
    out['data'] = _de.tolist(r.data); out['y'] = _de.tolist(r.target_values)
    if kind == 'construct-explicit-range':
        return out
    dim = case['dim']
    if kind in ('uniform', 'dimension-wise'):
        r.training_data = r.data
        r.training_target_values = r.target_values
        if kind == 'uniform':
            lv = [int(l) for l in case['lv']]
            r.grid.numPoints = 2 ** np.asarray(lv, dtype=int) - 1
            out['A'] = _de.tolist(r.build_A_matrix(lv))
            out['C'] = _de.tolist(r.build_C_matrix(lv))
            from sparseSpACE.ComponentGridInfo import ComponentGridInfo
            out['alphas'] = _de.tolist(r.evaluate_levelvec(ComponentGridInfo(lv, 1)))
        else:
            from sparseSpACE.Grid import GlobalTrapezoidalGrid
            stripes = [list(s) for s in case['stripes']]
            levels = [list(l) for l in case['levels']]
            r.grid = GlobalTrapezoidalGrid(a=np.zeros(dim), b=np.ones(dim), modified_basis=False, boundary=False)
            r.grid.set_grid(stripes, levels)
            out['A'] = _de.tolist(r.build_A_matrix_dimension_wise(stripes, levels))
            out['C'] = _de.tolist(r.build_C_matrix_dimension_wise(stripes, levels))
            if case['lam'] == 0:
                al = r.solve_regression_dimension_wise(stripes, levels, None)
            else:
                al = r.solve_regression_dimension_wise_smooth(stripes, levels, None)
            out['alphas'] = _de.tolist(al)
        return out
    # training runs + Opticom
    opt = {}
    for option in (1, 2, 3):
        rr = _mk(case)
        stripes_log = {}
        if kind == 'train-adaptive':
            orig = rr.calculate_operation_dimension_wise

            def logged(stripes, levels, cg, orig=orig, log=stripes_log):
                log[','.join(str(int(x)) for x in cg.levelvector)] = [[float(v) for v in s] for s in stripes]
                return orig(stripes, levels, cg)
            rr.calculate_operation_dimension_wise = logged
        if kind == 'train':
            combi = rr.train(case['pct'], case['lmin'], case['lmax'], False)
        else:
            combi = rr.train_spatially_adaptive(case['pct'], 0.5, 1e-5, 0, False, False)
        if option == 1:
            out['train_data'] = _de.tolist(rr.training_data)
            out['train_y'] = _de.tolist(rr.training_target_values)
            out['scheme'] = [[int(x) for x in g.levelvector] for g in combi.scheme]
            out['surpluses'] = {','.join(str(int(x)) for x in k): _de.tolist(v) for k, v in rr.surpluses.items()}
            out['stripes'] = stripes_log
        try:
            if kind == 'train':
                rr.optimize_coefficients(combi, option)
            else:
                rr.optimize_coefficients_spatially_adaptive(combi, option)
            opt[option] = ('ok', [float(g.coefficient) for g in combi.scheme])
        except Exception as e:       # exceptions are observables
            import traceback
            tb = traceback.extract_tb(e.__traceback__)
            opt[option] = ('exc', type(e).__name__, '%s:%d' % (tb[-1].filename.split('/')[-1], tb[-1].lineno), str(e)[:120])
    out['opticom'] = opt
    return out


# ----------------------------------------------------------------------------------------------- comparison
def _sig(case, obs, **kw):
    s = dict(path=case['kind'], obs=obs, matrix=case.get('matrix'), regularised=case.get('lam', 0) != 0)
    s.update(kw)
    return s


def _key(case):
    return (case['kind'], str(case.get('lv') or case.get('stripes') or (case.get('lmin'), case.get('lmax'))), case['lam'],
            case['matrix'], str(case['data']), str(case['y']))


def _stripes(case):
    if 'lv' in case:
        return _de.uniform_stripes(case['lv'])
    return fr(case['stripes'])


def near_node(stripes, data):
    """some sample coordinate lies within 2^-52 below an inner grid node (binary64 neighbourhood of the node)"""
    eps = F(1, 2 ** 52)
    for d, st in enumerate(stripes):
        for p in st[1:-1]:
            for x in data:
                if 0 < p - x[d] <= eps:
                    return True
    return False


def _check_scaling(chk, c, r):
    """property clause 'data scaling at construction': min-max scaling of every feature to [0.05, 0.95], targets untouched"""
    data = fr(c['data']); sd = fr(r['data'])
    lo, hi = sx.rat(RANGE[0]), sx.rat(RANGE[1])
    for d in range(c['dim']):
        col = [x[d] for x in data]
        mn, mx = min(col), max(col)
        for x, s in zip(data, sd):
            want = lo + (x[d] - mn) / (mx - mn) * (hi - lo) if mx != mn else None
            if want is not None and not _de.close(s[d], want, 1e-12):
                chk.violation('oracle:scaling', 'scaling-differs', _sig(c, 'scaling'), c, dict(got=float(s[d]), want=float(want)))
                return False
    if fr(r['y']) != fr(c['y']):
        chk.violation('oracle:scaling', 'targets-changed', _sig(c, 'targets'), c, dict(got=r['y'][:5]))
        return False
    return True


def _check_grid(chk, c, grid, A_i, C_i, al_i, data_s, y_s, mres, via):
    """one component grid: design matrix, smoothing matrix, normal equations. grid = dict(lv=..) or dict(stripes=..)"""
    uniform = 'lv' in grid
    stripes = _de.uniform_stripes(grid['lv']) if uniform else fr(grid['stripes'])
    lam = sx.rat(c['lam']); use_C = c['matrix'] == 'C'
    gsig = dict(grid='uniform' if uniform else 'dimension-wise', via=via)
    nn = near_node(stripes, data_s)
    if sx.is_err(mres) or isinstance(mres, tuple):
        chk.violation('corr:C20/model', 'model-rejects', gsig, dict(c, **grid), str(mres)[:300], failing_input=False)
        return False
    A_m, Cc_m, Cs_m, ok_coded, ok_spec = qmat(mres[0]), qmat(mres[1]), qmat(mres[2]), bool(mres[3]), bool(mres[4])
    case = dict(c, **grid)
    ok = True
    # ---- design matrix = basis values at the training points
    if A_i is not None:
        A_s = spec_A(stripes, data_s)
        okm = mat_close(fr(A_i), A_m, REL_M, 1e-14); oks = mat_close(fr(A_i), A_s, REL_M, 1e-14)
        if not (okm and oks):
            sg = dict(gsig, near_node=nn)
            chk.violation('corr:C20/A' if not okm else 'oracle:design_matrix', 'design-matrix-differs', sg, case,
                          dict(impl_vs_model=okm, impl_vs_spec=oks, impl=str(A_i)[:300],
                               basis_values=str([[float(x) for x in r] for r in A_s])[:300]), failing_input=not oks)
            return False
    # ---- smoothing matrix
    C_s = spec_C(stripes)
    model_predicts = Cc_m != Cs_m
    if mat_close(Cs_m, C_s, 1e-30, 0) is False:
        chk.violation('corr:C20/C-spec', 'model-spec-vs-oracle', gsig, case, 'Coq specification matrix differs from the Python oracle',
                      failing_input=False)
        return False
    if C_i is not None:
        okm = mat_close(fr(C_i), Cc_m, REL_M, 1e-14)
        oks = mat_close(fr(C_i), C_s, REL_M, 1e-14)
        if oks:
            # the implementation matrix IS the gradient Gram matrix (property clause holds)
            chk.count('C-equals-gradient-gram')
            psd, why = is_psd(fr(C_i))
            if not psd:
                chk.violation('oracle:psd', 'C-matrix-not-psd', _sig(c, 'C', **gsig), case, dict(why=why))
                ok = False
        elif okm:
            # the faithful model of the code reproduces the implementation and both differ from the gradient Gram matrix
            iso = uniform and len(set(grid['lv'])) == 1
            chk.violation('oracle:gradient_gram', 'C-matrix-not-gradient-gram',
                          dict(gsig, model_predicts=model_predicts, isotropic=iso), dict(case, lam=c['lam']),
                          dict(impl=str(C_i)[:300], gradient_gram=str([[float(x) for x in r] for r in C_s])[:300]))
            ok = False
        else:
            chk.violation('corr:C20/C', 'C-matrix-differs-from-model', _sig(c, 'C', **gsig), case,
                          dict(impl=str(C_i)[:400], model=str([[float(x) for x in r] for r in Cc_m])[:400],
                               gradient_gram=str([[float(x) for x in r] for r in C_s])[:400]))
            return False
    # ---- normal equations of the stated problem, residual of the implementation's surpluses
    chk.count('residual-checks')
    worst = spec_residual(spec_A(stripes, data_s), C_s, lam, use_C, y_s, fr(al_i))
    spec_ok = worst <= TOL_RES
    if spec_ok != ok_spec and not (TOL_RES / 4 <= worst <= TOL_RES * 4):
        chk.violation('checker:residual_ok', 'checker-vs-oracle', gsig, case, dict(worst=float(worst), checker=ok_spec), failing_input=False)
        return False
    if spec_ok:
        chk.count('normal-equations-hold')
    elif ok_coded:
        chk.violation('oracle:normal_equations', 'normal-equations-violated',
                      dict(gsig, model_predicts=model_predicts and use_C and lam != 0, matrix=c['matrix']), case,
                      dict(relative_residual=float(worst), surpluses=str(al_i)[:300]))
        ok = False
    else:
        chk.violation('corr:C20/surpluses', 'surpluses-do-not-solve-model-system', dict(gsig, near_node=nn, matrix=c['matrix']), case,
                      dict(impl=str(al_i)[:300], worst_residual_vs_stated_problem=float(worst)))
        return False
    return ok


def process(chk, cases, verbose=False):
    nv0 = len(chk.violations)
    impl = run_impl(impl_case, cases, limit=300)
    # model calls
    mc, mi = [], []
    for i, c in enumerate(cases):
        st, r = impl[i]
        if st != 'ok':
            continue
        k = c['kind']
        lam = sx.rat(c['lam']); useC = c['matrix'] == 'C'
        if k == 'uniform':
            mc.append((0, [c['lv'], lam, useC, fr(r['data']), fr(r['y']), fr(r['alphas']), TOL_RES])); mi.append((i, None))
        elif k == 'dimension-wise':
            mc.append((1, [fr(c['stripes']), lam, useC, fr(r['data']), fr(r['y']), fr(r['alphas']), TOL_RES])); mi.append((i, None))
        elif k in ('train', 'train-adaptive'):
            for lv in r['scheme']:
                key = ','.join(map(str, lv))
                al = r['surpluses'][key]
                if k == 'train':
                    mc.append((0, [lv, lam, useC, fr(r['train_data']), fr(r['train_y']), fr(al), TOL_RES]))
                else:
                    mc.append((1, [fr(r['stripes'][key]), lam, useC, fr(r['train_data']), fr(r['train_y']), fr(al), TOL_RES]))
                mi.append((i, tuple(lv)))
    mres = dict(zip(mi, run_model(20, mc)))
    keys, samples = [], []
    for i, c in enumerate(cases):
        k = c['kind']
        st, r = impl[i]
        chk.count('kind=' + k); chk.count('dim=%d' % c['dim'])
        if st != 'ok':
            exc = r[0] if r else st
            where = (r[1] if r else '').split(':')[0]
            targets_below = min(c['y']) < -1
            chk.violation('oracle:construct_and_train', 'raises', dict(path=k, exc=exc, where=where, targets_below_minus_one=targets_below), c,
                          dict(impl=str(r)))
            continue
        chk.traces += 1
        if not _check_scaling(chk, c, r):
            continue
        if k.startswith('construct'):
            keys.append(_key(c))
            continue
        ok = True
        if k in ('uniform', 'dimension-wise'):
            grid = dict(lv=c['lv']) if k == 'uniform' else dict(stripes=c['stripes'])
            ok = _check_grid(chk, c, grid, r['A'], r['C'], r['alphas'], fr(r['data']), fr(r['y']), mres[(i, None)], 'direct')
        else:
            for lv in r['scheme']:
                key = ','.join(map(str, lv))
                al = r['surpluses'][key]
                grid = dict(lv=lv) if k == 'train' else dict(stripes=r['stripes'][key])
                ok = _check_grid(chk, c, grid, None, None, al, fr(r['train_data']), fr(r['train_y']), mres[(i, tuple(lv))],
                                 k) and ok
            for option in (1, 2, 3):
                o = r['opticom'][option]
                chk.count('opticom-option-%d' % option)
                variant = ('adaptive' if k == 'train-adaptive' else 'standard') + ('-regularised' if c['lam'] != 0 else '-plain')
                if o[0] == 'exc':
                    chk.violation('oracle:opticom_sum_one', 'opticom-raises', dict(option=option, variant=variant, exc=o[1], where=o[2]),
                                  c, dict(exception=o[1:]))
                    ok = False
                    continue
                coefs = fr(o[1])
                s = sum(coefs, F(0))
                if not _de.close(s, 1, 1e-9):
                    chk.violation('oracle:opticom_sum_one', 'opticom-sum-not-one', dict(option=option, variant=variant), c,
                                  dict(coefficients=o[1], sum=float(s)))
                    ok = False
        if verbose:
            print('case', i, k, 'ok' if ok else 'DIFFERS')
        N = len(mres[(i, None)][1]) if (i, None) in mres and not sx.is_err(mres[(i, None)]) else 3
        if N >= 3 or k.startswith('train'):
            keys.append(_key(c))
        if ok and len(samples) < 3 and k in ('uniform', 'dimension-wise') and c['dim'] >= 2:
            samples.append(dict(case={kk: c[kk] for kk in c}, impl_surpluses=r['alphas'][:8], impl_C_row0=r['C'][0][:8]))
    # last step of Opticom through the model (shared normalisation), on dyadic raw coefficients
    raw = [[F(chk.rng.randrange(-20, 21), 4) for _ in range(chk.rng.randrange(1, 7))] for _ in range(20)]
    raw = [cs for cs in raw if sum(cs) != 0]
    for cs, m in zip(raw, run_model(20, [(4, [cs]) for cs in raw])):
        if sx.q(m[1]) != 1:
            chk.violation('corr:C20/normalise', 'model-normalise', {}, dict(coefs=[str(x) for x in cs]), str(m), failing_input=False)
    chk.record_cases(len(cases), keys,
                     'Regression: default construction, direct calls on uniform level vectors (d 1..3, N<=49, mostly anisotropic) and '
                     'dimension-wise stripes (N<=40), train() with StandardCombi (lmax<=3) and train_spatially_adaptive (initial scheme) '
                     'followed by the three Opticom variants; data on dyadic lattices, targets in [-4,4] (construction cases also below -1), '
                     'lambda in {0,.01,.125,1}, matrix C/I; non-trivial = at least 3 grid points or a training run; distinct by full case',
                     samples)
    return len(chk.violations) - nv0


def run(chk):
    chk.coq_obligations()
    rng = chk.rng
    q = chk.quick
    cases = list(CORPUS)
    cases += [gen_construct(rng) for _ in range(chk.n(8, 60))]
    cases += [gen_direct(rng, q, True) for _ in range(chk.n(70, 1200))]
    cases += [gen_direct(rng, q, False) for _ in range(chk.n(60, 1000))]
    cases += [gen_train(rng) for _ in range(chk.n(14, 150))]
    cases += [gen_train(rng, adaptive=True) for _ in range(chk.n(6, 60))]
    process(chk, cases)


def replay(chk, rep):
    c = rep['case']
    c = {k: v for k, v in c.items()}
    n = process(chk, [c], verbose=True)
    for v in chk.violations:
        print('check:', v['check'], 'kind:', v['kind'], 'sig:', v['sig'], 'failing_input:', v['failing_input'])
        print('detail:', str(v['detail'])[:1500])
    print('property predicate:', 'VIOLATED' if any(v['failing_input'] for v in chk.violations) else 'holds')
    return 1 if n else 0
