"""C14: source-derived model of the new-object marker of class RefinementContainer (DESIGN.md 0.5 scheme).
coq/Gen/NewMarkerGen.v is regenerated from the working tree ($VERIF_REPO) by harness/translate/py2gallina_c14.py (own small front end in
the pattern of py2gallina_c08_area.py) under the build lock, before the proof obligations are (re)built; Props/C14gen.v holds the theorems
about the generated definitions (nothing is new after clear_new_objects, the added children are the new objects, the two updates are the
marker updates of Model/Accum.v)."""
import fcntl
import hashlib
import os
import re
import subprocess
import sys
from ..core import ROOT, COQ
from .. import gen

TRANSLATOR = os.path.join(ROOT, 'harness', 'translate', 'py2gallina_c14.py')
GEN_FILE = 'NewMarkerGen.v'
GEN_CHAIN = ['Gen/NewMarkerGen.v', 'Proofs/GenNewMarkerEq.v', 'Proofs/GenNewMarkerResume.v', 'Props/C14gen.v']
EXTRA_PROPS = ('C14gen',)
ASSUMPTION = (
    'source-derived model of the new-object marker (py2gallina_c14.py): Python `ast` and the translation scheme are trusted; '
    'RefinementContainer.clear_new_objects / get_new_objects / new_objects_size / add are translated statement by statement over the record '
    '(refinementObjects : list of abstract objects, startNewObjects : int); len = py_len, l[lo:] = py_slice of coq/Base/PyNum.v (Python slice '
    'semantics incl. negative and too large bounds), list.extend = append; anything else in these methods is rejected')


def regenerate(chk):
    with open(os.path.join(ROOT, '.buildlock'), 'w') as lk:
        fcntl.flock(lk, fcntl.LOCK_EX)
        p = subprocess.run([sys.executable, TRANSLATOR], capture_output=True, text=True)
    msg = '\n'.join(l for l in p.stderr.splitlines() if 'conda' not in l).strip()
    chk.checker_cmds.append('/venv/bin/python harness/translate/py2gallina_c14.py  (regenerates coq/Gen/%s from sparseSpACE/RefinementContainer.py)' % GEN_FILE)
    info = dict(rc=p.returncode, message=msg, target='newmarker')
    try:
        src = open(os.path.join(COQ, 'Gen', GEN_FILE)).read()
        info['generated_sha256'] = hashlib.sha256(src.encode()).hexdigest()
        info['translated'] = re.findall(r'^\(\* (\S+:\d+-\d+)  (\S+) \*\)$', src, re.M)
    except OSError:
        pass
    chk.extra['source_derived_model'] = info
    return info


def diagnose(chk, info):
    """after coq_obligations: None when the generated model is in place and its theorems hold, else the reason"""
    problem = gen.gen_diagnosis(chk, info, GEN_CHAIN)
    gen.report(chk, info, problem, 'C14_gen_*')
    return problem


def finish(chk, info, problem):
    gen.finish_gen(chk, info, problem)
