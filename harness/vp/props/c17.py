"""C17: density-estimation caching and size-dependent code paths are transparent.
(a) matrix-entry cache old_R: histories of grids built with one cache vs without, and vs Model/DECache.v (matrices AND the
    cache contents);  (b) reuse of old right-hand sides (find_closest_old_B, data bins) on nested grids beyond the threshold;
(c) complete spatially adaptive runs with reuse_old_values on / off (surpluses, scheme, interpolated densities);
(d) right-hand side and interpolation on both sides of the 200-point threshold against one and the same model function;
(e)-(g) wave 2, module _c17x: HISTORIES ON ONE OPERATION OBJECT (direct-call histories, adaptive runs driven step by step with
    interpolation at every stop, StandardCombi twice on one object) against Model/DEReuse.v (right-hand-side re-use machine, data
    bins through the verified checker, large-grid interpolation path with its support cache)."""
import itertools
from fractions import Fraction as F

from .. import sx
from ..impl import run_impl
from ..model import run_model
from . import _de
from . import c16
from . import _c17x as X
from . import _c17_gen
from ._de import fr, qvec, qmat, vec_close, mat_close

ASSUMPTIONS = [
    _c17_gen.ASSUMPTION,
    'the cache key str((sorted widths, sorted distances)) of Python floats is modelled as the pair of sorted rational lists '
    '(stripes are dyadic, so the floats are exact)',
    'reuse on/off comparisons use tolerance 1e-12 for matrix entries / right-hand sides and 1e-8 for quantities behind the LAPACK solve, '
    'both enlarged by 64*eps*max_cells 6(x/h)^3: calculate_R_value_analytically computes the off-diagonal entry h/6 as a difference of terms '
    'of size (x/h)^3 h, so its own rounding error grows like that (cancellation-aware bound of DESIGN section 3)',
    'adaptive runs are driven with the library error estimators of the repository tests (ErrorCalculatorSingleDimVolumeGuided, '
    'ErrorCalculatorSingleDimMisclassificationGlobal); a run in which both settings raise the same exception is skipped and counted',
    'adaptive runs are compared solve by solve (grid + surpluses in call order); with the misclassification estimator (discrete counts) '
    'a separation of the two histories after agreeing solves is classed ambiguous-by-rounding and counted (also with the volume-guided '
    'estimator, whose refinement test benefit >= max_benefit*margin has exact ties on lattice data: every solve up to the separation must '
    'agree within the tolerance, a difference in a solve is a violation)',
    'the two right-hand-side / interpolation code paths cannot be forced on one grid through the public API: both are compared with the '
    'same model function on grids on either side of the threshold (their equality on EVERY grid is proved on the model: '
    'C17_rhs_large_path_equals_small_path, C17_interp_large_path_equals_small_path)',
    'np.argsort output (sorted_data) is read off the implementation and passed to the re-use model; the theorems hold for every index list '
    'that contains every sample index (checked per case by check_perms)',
    'the data bins the implementation holds at the end of a history are accepted by a verified checker (every sample strictly inside an '
    'interval sits inside the stored index range), not compared for equality with the model bins (equality is reported in the histogram): '
    'a rewrite that stores tighter or wider covering ranges is property preserving; likewise the choice of the old right-hand side',
    'adaptive runs of kind adaptive-steps are driven by a scripted error calculator (errors depend only on the geometry of the refinement '
    'object, so both settings follow one refinement history by construction) or by ErrorCalculatorSingleDimMisclassificationGlobal',
    'the extracted model keeps nat in unary representation: the re-use machine and the bins checker are evaluated for data sets of up to 100 '
    'samples and grids of up to 520 points; larger cases are compared with the model right-hand side the machine is proved to equal',
    'GlobalTrapezoidalGrid(boundary=True) is compared reuse on/off only (the model covers grids without boundary points)',
    'argument protocol of the single-object histories: every argument object is snapshotted at hand-over and compared after every step '
    '(argument-mutated); data / label / evaluation-point objects are shared between the objects and calls of a case (C, Fortran, strided view); '
    'lists handed to a call are overwritten by the harness after the call, returned arrays are overwritten with the sentinel 12345.678 and the '
    'caches old_B/new_B/surpluses/old_R are scanned for it (result-aliases-internal-state); get_result() hands out the surplus dictionary '
    'itself by design and is not overwritten',
    'the pure public getters called between the steps must leave a fingerprint of the operation state (old_B, new_B, surpluses, old_R size, '
    'data bins, lambda, grid size) unchanged (observer-changed-state); a second post_processing legitimately empties old_B',
]

REL = 1e-12


# ----------------------------------------------------------------------------------------------- generators
def gen_history_numeric(rng):
    """numeric_calculation=True (scipy nquad per matrix entry): tiny grids only"""
    dim = rng.choice([1, 2])
    grids = []
    for step in range(2):
        sl = [_de.gen_stripe(rng, 3, 1, 2)[0] for _ in range(dim)]
        grids.append(sl)
    return dict(kind='rcache-history', dim=dim, grids=grids, lam=rng.choice([0.0, 0.125]), numeric=True)


def gen_history(rng, quick):
    dim = rng.choice([1, 2, 2, 3])
    grids = []
    base = None
    for step in range(rng.choice([2, 3, 4])):
        while True:
            if base is not None and rng.random() < 0.6:
                # refinement-like: add a few points to the previous grid
                L = 4
                n = 2 ** L
                sl = []
                for s in base:
                    idx = sorted(set(int(round(x * n)) for x in s) | set(rng.sample(range(1, n), rng.choice([0, 1, 1, 2]))))
                    sl.append([i / n for i in idx])
            else:
                sl = [_de.gen_stripe(rng, rng.choice([2, 3, 4]), 1, 6)[0] for _ in range(dim)]
            N = 1
            for s in sl:
                N *= len(s) - 2
            if N <= (30 if quick else 48):
                break
        grids.append(sl)
        base = sl
    c = dict(kind='rcache-history', dim=dim, grids=grids, lam=rng.choice([0.0, 0.125, 0.01]), sentinel=rng.random() < 0.4)
    if rng.random() < 0.4:
        c['lams'] = [c['lam']] + [rng.choice([0.0, 0.5, 2.0 ** -20, 64.0, 0.01]) for _ in grids[1:]]
    return c


def _lev(i, n, L):
    if i == 0 or i == n:
        return 0
    l = L
    while i % 2 == 0:
        i //= 2
        l -= 1
    return l


def gen_breuse(rng):
    dim = 2
    L = 5
    n = 2 ** L
    while True:
        k = [rng.choice([14, 15, 16, 18, 20]) for _ in range(dim)]
        idx1 = [sorted(set([0, n] + rng.sample(range(1, n), k[d]))) for d in range(dim)]
        N1 = 1
        for ix in idx1:
            N1 *= len(ix) - 2
        if 200 <= N1 <= 420:
            break
    idx2 = [sorted(set(ix + rng.sample(range(1, n), rng.choice([1, 2, 4])))) for ix in idx1]
    M = rng.choice([10, 25, 40])
    data = [[rng.randrange(0, 65) / 64 for _ in range(dim)] for _ in range(M)]
    lab = rng.random() < 0.4
    return dict(kind='b-reuse', dim=dim, grids=[[[i / n for i in ix] for ix in idx] for idx in (idx1, idx2)],
                levels=[[[_lev(i, n, L) for i in ix] for ix in idx] for idx in (idx1, idx2)],
                data=data, classes=[rng.choice([-1, 1]) for _ in range(M)] if lab else None)


def gen_breplace(rng):
    """old grid and new grid differ in ONE stripe coordinate: an inner point q is replaced by another point p with the same
    two neighbours (what a rebalancing rotation of the refinement tree does); plus possibly a few added points"""
    dim = 2
    L = 6
    n = 2 ** L
    while True:
        k = [rng.choice([14, 15, 16, 18, 20]) for _ in range(dim)]
        idx1 = [sorted(set([0, n] + [2 * v for v in rng.sample(range(1, n // 2), k[d])])) for d in range(dim)]
        N1 = 1
        for ix in idx1:
            N1 *= len(ix) - 2
        if 200 <= N1 <= 420:
            break
    idx2 = [list(ix) for ix in idx1]
    d = rng.randrange(dim)
    j = rng.randrange(1, len(idx2[d]) - 1)
    q = idx2[d][j]
    cand = [v for v in range(idx2[d][j - 1] + 1, idx2[d][j + 1]) if v != q]
    idx2[d][j] = rng.choice(cand)
    if rng.random() < 0.5:
        e = 1 - d
        idx2[e] = sorted(set(idx2[e] + rng.sample(range(1, n), rng.choice([1, 2]))))
    M = rng.choice([10, 25, 40])
    # samples concentrated around the replaced point so that its right-hand-side entry is non-trivial
    c0 = q / n
    data = []
    for _ in range(M):
        x = [rng.randrange(0, 129) / 128 for _ in range(dim)]
        if rng.random() < 0.6:
            x[d] = min(1.0, max(0.0, c0 + rng.randrange(-6, 7) / 128))
        data.append(x)
    lab = rng.random() < 0.3
    return dict(kind='b-reuse', variant='replaced-point', dim=dim,
                grids=[[[i / n for i in ix] for ix in idx] for idx in (idx1, idx2)],
                levels=[[[_lev(i, n, L) for i in ix] for ix in idx] for idx in (idx1, idx2)],
                data=data, classes=[rng.choice([-1, 1]) for _ in range(M)] if lab else None)


def gen_breuse_boundary(rng):
    """grids WITH boundary points (GlobalTrapezoidalGrid(boundary=True)): nested pair beyond the threshold, re-use on / off"""
    c = gen_breuse(rng)
    c.update(kind='b-reuse-boundary')
    if rng.random() < 0.5:                       # samples on the domain boundary as well
        c['data'] = c['data'] + [[1.0, 0.5], [0.0, 0.25], [1.0, 1.0]]
        if c['classes'] is not None:
            c['classes'] = c['classes'] + [1, -1, 1]
    return c


def impl_breuse_boundary(case):
    import numpy as np
    import warnings
    from sparseSpACE.GridOperation import DensityEstimation
    out = {}
    for reuse in (False, True):
        op = X._mk_op(DensityEstimation, case['dim'], case['data'], case['classes'], 0.0, reuse, boundary=True)
        op.init_dimension_wise(op.grid, None, _de._RC(), [1] * case['dim'], [6] * case['dim'], np.zeros(case['dim']), np.ones(case['dim']))
        op.initialize_evaluation_dimension_wise(_de._RC())
        bs = []
        for st, lv in zip(case['grids'], case['levels']):
            stripes = [[np.float64(v) for v in s] for s in st]      # the refinement hands over numpy floats
            levels = [list(l) for l in lv]
            op.grid.set_grid(stripes, levels)
            with warnings.catch_warnings():
                warnings.simplefilter('ignore')
                bs.append(_de.tolist(op.calculate_B_dimension_wise(op.data, stripes, levels)))
            op.surpluses = {(1,) * case['dim']: np.zeros(1)}
            op.post_processing()
        out['on' if reuse else 'off'] = bs
    return out


def gen_adaptive_rebalance(rng):
    """skewed data, rebalancing on, refined until component grids exceed the threshold over several refinement steps"""
    dim = 2
    M = rng.choice([40, 60, 80])
    skew = rng.choice([2, 3])
    data = []
    for _ in range(M):
        u = rng.randrange(0, 65) / 64
        x0 = round((u ** skew) * 256) / 256
        if rng.random() < 0.5:
            x0 = 1.0 - x0 if rng.random() < 0.3 else x0
        data.append([x0, rng.randrange(0, 65) / 64])
    # make sure both coordinates span [0,1] (no rescaling by initialize())
    data[0] = [0.0, 0.0]; data[1] = [1.0, 1.0]
    return dict(kind='adaptive', variant='rebalance', dim=dim, data=data, classes=None, estimator='volume',
                lam=rng.choice([0.02, 0.0625, 0.01]), lmax=5, max_evaluations=rng.choice([900, 1200, 1500]),
                rebalancing=True, tol=0.0, points=[[rng.randrange(0, 65) / 64 for _ in range(dim)] for _ in range(8)])


def gen_adaptive(rng, quick, big=False):
    dim = rng.choice([1, 2, 2]) if not big else 2
    M = rng.choice([20, 40, 60])
    data = [[rng.randrange(0, 65) / 64 for _ in range(dim)] for _ in range(M)]
    lab = rng.random() < 0.4
    lmax = (rng.choice([2, 3]) if dim == 2 else rng.choice([3, 4, 5])) if not big else 4
    return dict(kind='adaptive', dim=dim, data=data, classes=[rng.choice([-1, 1]) for _ in range(M)] if lab else None,
                estimator='misclassification' if (lab and rng.random() < 0.4) else 'volume',
                lam=rng.choice([0.0625, 0.125, 0.01]), lmax=lmax, max_evaluations=rng.choice([60, 120, 200]) if not big else 700,
                rebalancing=rng.random() < 0.5, tol=rng.choice([1e-2, 1e-3]),
                points=[[rng.randrange(0, 65) / 64 for _ in range(dim)] for _ in range(6)])


def gen_threshold(rng, uniform, above):
    if uniform:
        lv = rng.choice([[8], [4, 4], [5, 3], [3, 5], [2, 2, 4]] if above else [[7], [3, 4], [4, 3], [2, 2, 3], [6], [5, 2]])
        dim = len(lv)
        st = [[i / 2 ** l for i in range(2 ** l + 1)] for l in lv]
        c = dict(kind='uniform-large', dim=dim, lv=lv)
    else:
        dim = rng.choice([2, 2, 3])
        while True:
            sl = [_de.gen_stripe(rng, 5, 3, 24) for _ in range(dim)]
            N = 1
            for s, _ in sl:
                N *= len(s) - 2
            if (200 <= N <= 300) if above else (120 <= N <= 199):
                break
        st = [s for s, _ in sl]
        c = dict(kind='nonuniform-large', dim=dim, stripes=st, levels=[l for _, l in sl])
    M = rng.choice([3, 8, 15])
    lab = rng.random() < 0.4
    c.update(lam=0.0, ml=False, data=_de.gen_data(rng, dim, M, st),
             classes=[rng.choice([-1, 1]) for _ in range(M)] if lab else None)
    c['points'] = c['data'][:4] + _de.eval_points(rng, dim, st, 5)
    c['surplus_seed'] = rng.randrange(1 << 30)
    c['side'] = 'above' if above else 'below'
    return c


import json as _json
import os as _os

CORPUS = [
    # exemplar of the known finding C17-rhs-reuse-drops-largest-sample
    dict(kind='b-reuse', dim=2,
         grids=[[[i / 32 for i in [0] + list(range(1, 32, 2)) + [32]], [i / 32 for i in [0] + list(range(2, 32, 2)) + [32]]],
                [[i / 32 for i in [0] + list(range(1, 32, 2)) + [32]], [i / 32 for i in [0, 1] + list(range(2, 32, 2)) + [32]]]],
         levels=[[[_lev(i, 32, 5) for i in [0] + list(range(1, 32, 2)) + [32]], [_lev(i, 32, 5) for i in [0] + list(range(2, 32, 2)) + [32]]],
                 [[_lev(i, 32, 5) for i in [0] + list(range(1, 32, 2)) + [32]], [_lev(i, 32, 5) for i in [0, 1] + list(range(2, 32, 2)) + [32]]]],
         data=[[0.5, 0.015625], [0.25, 0.03125], [0.984375, 0.03125]], classes=None),
    dict(kind='rcache-history', dim=2, lam=0.125,
         grids=[[[0.0, 0.25, 0.5, 1.0], [0.0, 0.5, 1.0]], [[0.0, 0.25, 0.5, 0.75, 1.0], [0.0, 0.5, 1.0]],
                [[0.0, 0.25, 0.5, 0.75, 1.0], [0.0, 0.25, 0.5, 1.0]]]),
]


# exemplar of the known finding C17-debug-assert-large-interpolation (debug=True, 200 points spaced 3/1024, evaluation at 0.75)
CORPUS.append(dict(kind='op-history', dim=1, size='edge200', data=[[0.0], [1.0], [0.5]], classes=None, lam=0.0, debug=True, decoy=False,
                   points=[[0.75]],
                   steps=[dict(ops=[], grids=[dict(lv=[1], stripes=[[0.0] + [3 * i / 1024 for i in range(1, 201)] + [1.0]],
                                                   levels=[[0] + [1] * 200 + [0]], solve=False, seed=1)],
                               order='post-first', points2=None, twice=False)]))

# exemplar of the known finding C17-reuse-boundary-old-point-list (grid WITH boundary points, 17 x 17 points, one coordinate added)
_s0 = [i / 32 for i in range(0, 33, 2)]
CORPUS.append(dict(kind='b-reuse-boundary', dim=2, grids=[[_s0, _s0], [sorted(_s0 + [1 / 32]), _s0]],
                   levels=[[[1] * 17, [1] * 17], [[1] * 18, [1] * 17]],
                   data=[[0.3125, 0.40625], [0.546875, 0.703125], [0.796875, 0.203125]], classes=None))

# exemplar of the known finding C17-rhs-reuse-adaptive-run (complete adaptive run reaching 217 points)
_p = _os.path.join(_os.path.dirname(__file__), 'c17_corpus_adaptive.json')
if _os.path.exists(_p):
    CORPUS.append(_json.load(open(_p)))


# ----------------------------------------------------------------------------------------------- implementation
def _op(case, reuse, data=None, classes=None, lam=0.0):
    c = dict(dim=case['dim'], data=data if data is not None else [[0.5] * case['dim']], classes=classes, lam=lam, reuse=reuse,
             numeric=bool(case.get('numeric')))
    return _de.make_op(c, True)


def impl_history(case):
    import numpy as np
    out = {}
    for reuse in (False, True):
        op = _op(case, reuse, lam=case['lam'])
        Rs = []
        for n, st in enumerate(case['grids']):
            stripes = [list(s) for s in st]
            levels = [[0] * len(s) for s in st]
            if case.get('lams'):
                op.lambd = case['lams'][n]       # the regularisation parameter changes between the grids of one object
            op.grid.set_grid(stripes, levels)
            R = op.build_R_matrix_dimension_wise(stripes, levels)
            Rs.append(_de.tolist(R))
            if case.get('sentinel'):
                R[...] = X.SENTINEL              # the caller writes into the returned matrix
                if any(v == X.SENTINEL for v in op.old_R.values()):
                    out['aliased'] = dict(step=n, where=['old_R'])
        out['on' if reuse else 'off'] = Rs
        if reuse:
            cache = []
            for k, v in op.old_R.items():
                w, d = eval(k, {'np': np})
                cache.append(([float(x) for x in w], [float(x) for x in d], float(v)))
            out['cache'] = cache
    return out


def impl_breuse(case):
    import numpy as np
    out = {}
    for reuse in (False, True):
        op = _op(case, reuse, data=case['data'], classes=case['classes'])
        bs = []
        for st, lv in zip(case['grids'], case['levels']):
            stripes = [list(s) for s in st]
            levels = [list(l) for l in lv]
            op.grid.set_grid(stripes, levels)
            bs.append(_de.tolist(op.calculate_B_dimension_wise(op.data, stripes, levels)))
            op.surpluses = {(1,) * case['dim']: np.zeros(1)}
            op.post_processing()
        out['on' if reuse else 'off'] = bs
        if reuse:
            out['sorted_last'] = [int(op.sorted_data[d][-1]) for d in range(case['dim'])]
    return out


def impl_adaptive(case):
    import numpy as np
    from sparseSpACE.GridOperation import DensityEstimation
    from sparseSpACE.Grid import GlobalTrapezoidalGrid
    from sparseSpACE.Utils import print_levels, log_levels
    from sparseSpACE.ErrorCalculator import ErrorCalculatorSingleDimVolumeGuided, ErrorCalculatorSingleDimMisclassificationGlobal
    from sparseSpACE.spatiallyAdaptiveSingleDimension2 import SpatiallyAdaptiveSingleDimensions2

    class LoggingDE(DensityEstimation):
        """records every component-grid solve (grid and returned surpluses) in call order"""
        def solve_density_estimation_dimension_wise(self, stripes, levels, cg):
            a = super().solve_density_estimation_dimension_wise(stripes, levels, cg)
            self.solve_log.append(([int(x) for x in cg.levelvector], [[float(v) for v in s] for s in stripes], _de.tolist(a)))
            return a

    dim = case['dim']
    out = {}
    for reuse in (False, True):
        a = np.zeros(dim); b = np.ones(dim)
        data = np.array(case['data'], dtype=float)
        classes = np.array(case['classes']) if case['classes'] is not None else None
        grid = GlobalTrapezoidalGrid(a=a, b=b, modified_basis=False, boundary=False)
        op = LoggingDE(data, dim, grid=grid, lambd=case['lam'], classes=classes, reuse_old_values=reuse,
                       print_level=print_levels.ERROR, log_level=log_levels.ERROR)
        op.solve_log = []
        S = SpatiallyAdaptiveSingleDimensions2(a, b, operation=op, margin=0.5, rebalancing=case['rebalancing'],
                                               rebalancing_safety_factor=0.2, log_level=log_levels.ERROR,
                                               print_level=print_levels.ERROR)
        misc = classes is not None and case.get('estimator') == 'misclassification'
        ec = ErrorCalculatorSingleDimMisclassificationGlobal() if misc else ErrorCalculatorSingleDimVolumeGuided()
        try:
            S.performSpatiallyAdaptiv(1, case['lmax'], ec, case['tol'], max_evaluations=case['max_evaluations'])
            res = dict(status='ok', log=op.solve_log,
                       surpluses={','.join(str(int(x)) for x in k): _de.tolist(v) for k, v in op.surpluses.items()},
                       scheme=sorted([[int(x) for x in g.levelvector], float(g.coefficient)] for g in S.scheme),
                       density=_de.tolist(np.asarray(S([tuple(p) for p in case['points']])).reshape(-1)),
                       cache_size=len(op.old_R), maxN=max(len(v) for v in op.surpluses.values()))
        except Exception as e:
            res = dict(status='exc', exc=type(e).__name__, msg=str(e)[:200], log=op.solve_log)
        out['on' if reuse else 'off'] = res
    return out


def impl_case(case):
    import time
    t0 = time.time()
    r = _impl_case(case)
    if isinstance(r, dict):
        r['_seconds'] = time.time() - t0
    return r


def _impl_case(case):
    k = case['kind']
    if k == 'rcache-history':
        return impl_history(case)
    if k == 'b-reuse':
        return impl_breuse(case)
    if k == 'adaptive':
        return impl_adaptive(case)
    if k == 'b-reuse-boundary':
        return impl_breuse_boundary(case)
    if k == 'op-history':
        return X.impl_ophist(case)
    if k == 'adaptive-steps':
        return X.impl_steps(case)
    if k == 'std-history':
        return X.impl_std(case)
    return c16.impl_case(case)


# ----------------------------------------------------------------------------------------------- comparison
def _explained_by_dropped_samples(case, r, spec_b, step):
    """the reuse result equals the reference minus the contributions of the samples that are last in the per-dimension
    sort order (the off-by-one of find_data_in_domain), for every deviating entry"""
    stripes = fr(case['grids'][step])
    data = fr(case['data'])
    signs = case['classes']
    M = len(data)
    hs = _de.grid_hats(stripes)
    cand = sorted(set(r['sorted_last']))
    on = fr(r['on'][step]); off = fr(r['off'][step])
    for i in range(len(on)):
        if _de.close(on[i], off[i], REL, 0, 1e-15):
            continue
        diff = off[i] - on[i]
        ok = False
        for n in range(1, len(cand) + 1):
            for sub in itertools.combinations(cand, n):
                s = sum((_de.spec_hat_nd(hs[i], data[k]) * (signs[k] if signs else 1) for k in sub), F(0)) / M
                if _de.close(diff, s, 1e-9, 0, 1e-15):
                    ok = True
        if not ok:
            return False
    return True


def _domains(stripes):
    """inner grid point -> its hat support (lower/upper neighbour per dimension)"""
    per = [[(s[i], (s[i - 1], s[i + 1])) for i in range(1, len(s) - 1)] for s in stripes]
    out = {}
    for combo in itertools.product(*per):
        out[tuple(p for p, _ in combo)] = tuple(d for _, d in combo)
    return out


def process(chk, cases, verbose=False):
    import time as _t
    nv0 = len(chk.violations)
    _t0 = _t.time()
    impl = run_impl(impl_case, cases, limit=900)
    chk.extra['phase_seconds'] = dict(impl=round(_t.time() - _t0, 1))
    _t0 = _t.time()
    # model calls
    m17, i17 = [], []
    m16, i16 = [], []
    for i, c in enumerate(cases):
        if impl[i][0] != 'ok':
            continue
        k = c['kind']
        if k == 'rcache-history':
            m17.append((0, [sx.rat(c['lam']), [fr(g) for g in c['grids']]])); i17.append(i)
            for n, l_ in enumerate(c.get('lams') or []):
                m17.append((0, [sx.rat(l_), [fr(c['grids'][n])]])); i17.append((i, ('lam-step', n)))
        elif k == 'b-reuse':
            signs = c['classes'] if c['classes'] is not None else []
            m16.append((10, [fr(c['grids'][1]), fr(c['data']), signs])); i16.append((i, 'b2'))
        elif k in ('uniform-large', 'nonuniform-large'):
            signs = c['classes'] if c.get('classes') is not None else []
            uni = k.startswith('uniform')
            g = c['lv'] if uni else fr(c['stripes'])
            N = 1
            for s in c16._stripes_of(c):
                N *= len(s) - 2
            m16.append((11 if uni else 10, [g, fr(c['data']), signs])); i16.append((i, 'small'))
            m16.append((7 if uni else 6, [g, fr(c['data']), signs])); i16.append((i, 'large'))
            m16.append((9 if uni else 8, [g, fr(c16._surpluses(c, N)), fr(c['points'])])); i16.append((i, 'interp'))
        elif k == 'op-history':
            if all(isinstance(impl[i][1].get(n), list) for n in ('on', 'off')):
                for tag, sub, val in X.model_calls_ophist(c, impl[i][1]):
                    m16.append((sub, val)); i16.append((i, tag))
        elif k == 'adaptive-steps':
            for tag, sub, val in X.model_calls_steps(c, impl[i][1]):
                m16.append((sub, val)); i16.append((i, tag))
    for i, c in enumerate(cases):
        if c['kind'] == 'op-history' and impl[i][0] == 'ok' and all(isinstance(impl[i][1].get(n), list) for n in ('on', 'off')):
            for tag, sub, val in X.model17_calls_ophist(c, impl[i][1]):
                m17.append((sub, val)); i17.append((i, tag))
    r17 = dict(zip(i17, run_model(17, m17)))
    chk.extra['phase_seconds']['model17'] = round(_t.time() - _t0, 1)
    _t0 = _t.time()
    r16 = dict(zip(i16, run_model(16, m16)))
    chk.extra['phase_seconds']['model16'] = round(_t.time() - _t0, 1)
    chk.extra['phase_seconds']['model_calls'] = [len(m17), len(m16)]
    _t0 = _t.time()
    keys, samples = [], []
    for i, c in enumerate(cases):
        k = c['kind']
        st, r = impl[i]
        chk.count('kind=' + k); chk.count('dim=%d' % c['dim'])
        if st == 'ok' and isinstance(r, dict) and '_seconds' in r:
            chk.extra.setdefault('impl_seconds_by_kind', {})
            kk = k + ('/' + c['shape'] if k == 'adaptive-steps' else '')
            chk.extra['impl_seconds_by_kind'][kk] = round(chk.extra['impl_seconds_by_kind'].get(kk, 0.0) + r['_seconds'], 1)
            chk.extra['slowest_cases'] = sorted(chk.extra.get('slowest_cases', []) + [
                [round(r['_seconds'], 1), kk, str({f: c.get(f) for f in ('estimator', 'second_run', 'size', 'dim', 'lmax', 'max_evaluations')
                                                    if c.get(f) is not None})[:120]]], reverse=True)[:6]
        if st != 'ok':
            chk.violation('corr:C17/' + k, 'impl-exception', dict(path=k, exc=r[0] if r else st), c, dict(impl=str(r)))
            continue
        chk.traces += 1
        ok = True
        if k == 'rcache-history':
            m = r17[i]
            if sx.is_err(m) or isinstance(m, tuple):
                chk.violation('corr:C17/model', 'model-rejects', {}, c, str(m)[:300], failing_input=False)
                continue
            Mc = [qmat(x) for x in m[0]]; Mp = [qmat(x) for x in m[1]]
            if 'aliased' in r:
                chk.violation('oracle:results_not_aliased', 'result-aliases-internal-state', dict(path=k, what='old_R'), c, r['aliased'])
                continue
            if c.get('sentinel'):
                chk.count('rcache-history-sentinel')
            if Mc != Mp:
                chk.violation('theorem:C17_cache_transparent_for_every_history', 'model-cache-not-transparent', {}, c,
                              'extracted model: cached and plain matrices differ', failing_input=False)
            if c.get('lams'):
                chk.count('rcache-history-lambda-changes')
                Mp = [qmat(r17[(i, ('lam-step', n))][1][0]) for n in range(len(c['grids']))]
            for step, (Ron, Roff, Rm) in enumerate(zip(r['on'], r['off'], Mp)):
                tolm = 1e-12 + 64 * _de.EPS * _de.cancellation_amp(c['grids'][step]) + (1e-7 if c.get('numeric') else 0)
                ab = 1e-9 if c.get('numeric') else 1e-15
                same = mat_close(fr(Ron), fr(Roff), tolm, ab)
                okm = mat_close(fr(Ron), Rm, 10 * tolm, ab) and mat_close(fr(Roff), Rm, 10 * tolm, ab)
                if not same:
                    chk.violation('oracle:reuse_on_equals_off', 'matrix-reuse-differs', dict(path=k, obs='R'),
                                  dict(c, grids=c['grids'][:step + 1]),
                                  dict(step=step, reuse_on=str(Ron)[:300], reuse_off=str(Roff)[:300],
                                       err=_de.max_rel_err(fr(Ron), fr(Roff))))
                    ok = False
                    break
                if not okm:
                    chk.violation('corr:C17/R', 'matrix-differs-from-model', dict(path=k, obs='R'), dict(c, grids=c['grids'][:step + 1]),
                                  dict(step=step, impl=str(Ron)[:300]), failing_input=False)
                    ok = False
                    break
            if ok:
                # cache contents: same keys, same values
                mc = {(tuple(sx.q(x) for x in e[0]), tuple(sx.q(x) for x in e[1])): sx.q(e[2]) for e in m[2]}
                ic = {(tuple(fr(w)), tuple(fr(d))): sx.rat(v) for w, d, v in r['cache']}
                chk.count('cache-entries', len(ic))
                if set(mc) != set(ic):
                    chk.violation('corr:C17/cache', 'cache-keys-differ', dict(path=k), c,
                                  dict(only_model=str(sorted(set(mc) - set(ic)))[:300], only_impl=str(sorted(set(ic) - set(mc)))[:300]),
                                  failing_input=False)
                    ok = False
                elif any(not _de.close(ic[key], mc[key], 1e-11 + 64 * _de.EPS * max(_de.cancellation_amp(g) for g in c['grids'])
                                       + (1e-6 if c.get('numeric') else 0), 0, 1e-15 if not c.get('numeric') else 1e-9)
                         for key in mc):
                    chk.violation('corr:C17/cache', 'cache-values-differ', dict(path=k), c, 'cached value differs from the model cache')
                    ok = False
            N = max(len(x) for x in r['on'])
            if N >= 3 and len(c['grids']) >= 2:
                keys.append((k, str(c['grids']), c['lam']))
            if c.get('numeric'):
                chk.count('rcache-history-numeric-entries')
            if ok and len(samples) < 2 and c['dim'] >= 2:
                samples.append(dict(case=c, cache_entries=len(r['cache']), matrix0_row0=r['on'][0][0][:6]))
        elif k == 'b-reuse':
            ref = qvec(r16[(i, 'b2')])
            for step in (0, 1):
                on = fr(r['on'][step]); off = fr(r['off'][step])
                if step == 1 and not vec_close(off, ref, 1e-11):
                    chk.violation('corr:C17/b', 'rhs-differs-from-model', dict(path=k, reuse=False), c, dict(step=step), failing_input=False)
                    ok = False
                    break
                if not vec_close(on, off, REL, 1e-15):
                    expl = _explained_by_dropped_samples(c, r, None, step)
                    nbad = sum(1 for a, b in zip(on, off) if not _de.close(a, b, REL, 0, 1e-15))
                    chk.violation('oracle:reuse_on_equals_off', 'rhs-reuse-differs',
                                  dict(path=k, step=step, explained_by_dropped_last_sorted_sample=expl,
                                       variant=c.get('variant', 'nested')), c,
                                  dict(step=step, entries_differing=nbad,
                                       max_abs_diff=float(max(abs(a - b) for a, b in zip(on, off)))))
                    ok = False
                    break
            chk.count('b-reuse-' + c.get('variant', 'nested'))
            keys.append((k, str(c['grids']), str(c['data'])))
        elif k == 'b-reuse-boundary':
            for step in (0, 1):
                on = fr(r['on'][step]); off = fr(r['off'][step])
                if not vec_close(on, off, REL, 1e-15):
                    chk.violation('oracle:reuse_on_equals_off', 'rhs-reuse-differs',
                                  dict(path=k, step=step, boundary=True), c,
                                  dict(step=step, entries_differing=sum(1 for a, b in zip(on, off) if not _de.close(a, b, REL, 0, 1e-15)),
                                       max_abs_diff=float(max(abs(a - b) for a, b in zip(on, off)))))
                    break
            keys.append((k, str(c['grids']), str(c['data'])))
        elif k == 'adaptive':
            on, off = r['on'], r['off']
            if on['status'] != 'ok' or off['status'] != 'ok':
                if on['status'] == off['status'] and on.get('exc') == off.get('exc'):
                    chk.count('adaptive-both-raise-' + str(on.get('exc')))
                else:
                    chk.violation('oracle:reuse_on_equals_off', 'adaptive-exception-differs',
                                  dict(path=k, on=on.get('exc', 'ok'), off=off.get('exc', 'ok')), c, dict(on=on, off=off))
                continue
            chk.count('adaptive-maxN>=200' if on['maxN'] >= _de.THRESHOLD else 'adaptive-maxN<200')
            # the situation a rebalancing rotation creates for the right-hand-side reuse: a grid with >= 200 points contains a
            # point that an earlier grid does not have, but whose hat support equals that of a point of the earlier grid
            # (inner point replaced by another one between the same neighbours)
            big_solves, repl = 0, 0
            doms = []
            for lvk, st_, al_ in on['log']:
                dm = _domains(st_)
                if len(al_) >= _de.THRESHOLD:
                    big_solves += 1
                    if any(any(pt not in od and dom in od.values() for pt, dom in dm.items()) for od in doms):
                        repl += 1
                doms.append(dm)
            if big_solves:
                chk.count('adaptive-runs-with-solves>=200')
                chk.count('adaptive-solves>=200', big_solves)
            if repl:
                chk.count('adaptive-runs-with-replaced-point-on->=200-grid')
                chk.count('adaptive-solves>=200-with-replaced-point', repl)
            why = None
            # the sequence of component-grid solves, in call order, up to the first point where the histories separate
            diverged = None
            for n, (x, y) in enumerate(zip(on['log'], off['log'])):
                if x[0] != y[0] or x[1] != y[1]:
                    diverged = n
                    break
                tol = 1e-8 + 64 * _de.EPS * _de.cancellation_amp(x[1]) / max(c['lam'], 1e-3)
                if not vec_close(fr(x[2]), fr(y[2]), tol, 1e-12):
                    why = ('surpluses', dict(solve=n, levelvector=x[0], stripes=x[1], on=x[2][:6], off=y[2][:6]))
                    break
            if why is None and diverged is None and len(on['log']) != len(off['log']):
                diverged = min(len(on['log']), len(off['log']))
            if why is None and diverged is not None:
                if c.get('estimator') == 'misclassification' and c['classes'] is not None:
                    # discrete misclassification counts: a density that vanishes up to rounding at a validation point decides
                    # the refinement; all solves before the separation agree -> ambiguous by rounding, not a caching defect
                    chk.count('ambiguous-misclassification-tie')
                    continue
                # volume-guided estimator: the refinement test `benefit >= max_benefit * margin` is decided on quantities that
                # agree only up to rounding (lattice data produce exact ties); every solve before the separation agrees within
                # the tolerance, so the separation is a rounding tie as well (seen on deep 1D refinements, h = 2^-10: surpluses
                # agree to 1e-10, then two more intervals are refined in one of the runs)
                chk.count('ambiguous-volume-history-separates-after-agreeing-solves')
                continue
            if why is None:
                if on['scheme'] != off['scheme']:
                    why = ('scheme', dict(on=on['scheme'][:6], off=off['scheme'][:6]))
                elif not vec_close(fr(on['density']), fr(off['density']),
                                   1e-8 + 64 * _de.EPS * max(_de.cancellation_amp(x[1]) for x in on['log']) / max(c['lam'], 1e-3), 1e-12):
                    why = ('density', dict(on=on['density'], off=off['density']))
            if why:
                chk.violation('oracle:reuse_on_equals_off', 'adaptive-run-differs',
                              dict(path=k, obs=why[0], maxN_ge_threshold=on['maxN'] >= _de.THRESHOLD), c, why[1])
                ok = False
            if len(on['surpluses']) >= 4:
                keys.append((k, str(c['data']), c['lmax'], c['max_evaluations'], c['rebalancing'], c['lam']))
            if ok and len(samples) < 3:
                samples.append(dict(case={kk: c[kk] for kk in c if kk != 'data'}, grids=len(on['surpluses']),
                                    cache_size=on['cache_size'], density_on=on['density'][:3], density_off=off['density'][:3]))
        elif k in ('op-history', 'adaptive-steps', 'std-history'):
            mm = {tag: v for (j, tag), v in r16.items() if j == i}
            bad = [t for t, v in mm.items() if sx.is_err(v) or isinstance(v, tuple)]
            if bad:
                chk.violation('corr:C17/model', 'model-rejects', dict(path=k), c, str(bad[:3]), failing_input=False)
                continue
            if k == 'op-history':
                ok = X.check_ophist(chk, c, r, mm)
                m7 = {tag[1]: v for tag, v in r17.items() if isinstance(tag, tuple) and tag[0] == i}
                if ok and m7:
                    bad7 = [t for t, v in m7.items() if sx.is_err(v) or isinstance(v, tuple)]
                    if bad7:
                        chk.violation('corr:C17/model', 'model-rejects', dict(path=k, driver=17), c, str(bad7[:3]), failing_input=False)
                        ok = False
                    else:
                        ok = X.check_ophist17(chk, c, r, m7)
                chk.count('op-history-size=' + c['size'])
                for fl in ('debug', 'decoy', 'ml', 'rescale', 'pre_scaled'):
                    if c.get(fl):
                        chk.count('op-history-' + fl)
                if c['classes'] is not None:
                    chk.count('op-history-labelled')
                    if set(c['classes']) - {-1, 1}:
                        chk.count('op-history-labels-not-pm1')
                ar_ = c.get('args') or {}
                for fl in ('share', 'scribble', 'sentinel'):
                    if ar_.get(fl):
                        chk.count('op-history-args-' + fl)
                chk.count('op-history-args-layout=' + ar_.get('layout', 'C'))
                chk.count('op-history-args-points=' + ar_.get('points_as', 'tuples'))
                for fl in ('observers', 'fine'):
                    if c.get(fl):
                        chk.count('op-history-' + fl)
                chk.count('op-history-surplus-scale=2^%d' % c.get('ascale', 0))
                chk.count('op-history-lambda-changes', sum(1 for st_ in c['steps'] if st_.get('lam') is not None))
                chk.count('op-history-post_processing-twice', sum(1 for st_ in c['steps'] if st_.get('post_again') and c.get('observers')))
                if any(max(max(l_) for l_ in g_['levels']) > 4 for st_ in c['steps'] for g_ in st_['grids']):
                    chk.count('op-history-level-values>4')
                if len(set(map(tuple, c['data']))) < len(c['data']):
                    chk.count('op-history-repeated-samples')
                chk.count('op-history-M=%s' % (len(c['data']) if len(c['data']) in (1, 3) else ('<=60' if len(c['data']) <= 60 else '>60')))
                if len(c['points']) > 64:
                    chk.count('op-history-points>64')
                for st_ in c['steps']:
                    for o_ in st_['ops']:
                        chk.count('op-history-op=' + o_)
                    chk.count('op-history-order=' + st_['order'])
                if isinstance(r.get('on'), list) and 'bins' in r:
                    chk.count('op-history-old-b-reused', sum(1 for s_ in r['on'] for k_ in s_.get('chosen', []) if k_))
                    chk.count('data-bins', sum(len(b_) for b_ in r['bins']))
                keys.append((k, str(c['steps']), str(c['data'])))
                if ok and len(samples) < 4 and c['size'] in ('above', 'big') and len(c['steps']) >= 3:
                    samples.append(dict(case={kk: c[kk] for kk in ('kind', 'dim', 'size', 'lam', 'debug', 'decoy')},
                                        grids_per_step=[[g_['N'] for g_ in s_['grids']] for s_ in r['on']],
                                        ops=[s_['ops'] for s_ in c['steps']], chosen_old_b=[s_['chosen'] for s_ in r['on']]))
            elif k == 'adaptive-steps':
                ok = X.check_steps(chk, c, r, mm)
                chk.count('steps-shape=' + c['shape'])
                chk.count('steps-estimator=' + (c['estimator'] if isinstance(c['estimator'], str) else 'scripted'))
                for fl in ('boundary', 'debug', 'ml', 'second_run', 'rebalancing', 'observers'):
                    if c.get(fl):
                        chk.count('steps-' + fl)
                ar_ = c.get('args') or {}
                for fl in ('share', 'sentinel'):
                    if ar_.get(fl):
                        chk.count('steps-args-' + fl)
                chk.count('steps-args-layout=' + ar_.get('layout', 'C'))
                chk.count('steps-args-points=' + ar_.get('points_as', 'tuples'))
                if c['classes'] is not None:
                    chk.count('steps-labelled')
                if r['on']['status'] == 'ok':
                    chk.count('steps-old-b-reused', sum(1 for s_ in r['on']['stops'] for k_ in s_['chosen'] if k_))
                    keys.append((k, str(c['data']), c['shape'], str(c['estimator']), c['margin'], c['rebalancing']))
                    if ok and len(samples) < 6 and c['shape'] in X.LARGE_SHAPES:
                        samples.append(dict(case={kk: c[kk] for kk in c if kk not in ('data', 'points', 'stops', 'classes')},
                                            numpts_at_stops=[s_['numpts'] for s_ in r['on']['stops']],
                                            density_on=r['on']['stops'][-1].get('density', [])[:3],
                                            density_off=r['off']['stops'][-1].get('density', [])[:3]))
            else:
                ok = X.check_std(chk, c, r)
                keys.append((k, str(c['runs']), str(c['data'])))
        else:
            # both sides of the threshold against the same model functions
            small = qvec(r16[(i, 'small')]); large = qvec(r16[(i, 'large')]); ip = qvec(r16[(i, 'interp')])
            chk.count('threshold-' + c['side'])
            if small != large:
                chk.violation('corr:C17/model-paths', 'model-rhs-paths-differ', dict(path=k), c,
                              'model: large-grid right-hand side differs from the small-grid formula', failing_input=False)
                ok = False
            if not vec_close(fr(r['b']), small, 1e-11):
                chk.violation('corr:C17/b', 'rhs-threshold-path-differs', dict(path=k, side=c['side']), c,
                              dict(impl=str(r['b'])[:300], model=str([float(x) for x in small])[:300]))
                ok = False
            if not vec_close(fr(r['interp']), ip, 1e-11):
                chk.violation('corr:C17/interp', 'interpolation-threshold-path-differs', dict(path=k, side=c['side']), c,
                              dict(impl=str(r['interp'])[:300], model=str([float(x) for x in ip])[:300], points=c['points']))
                ok = False
            keys.append((k, str(c.get('lv') or c.get('stripes')), str(c['data'])))
        if verbose:
            print('case', i, k, 'ok' if ok else 'DIFFERS')
    chk.extra['phase_seconds']['compare'] = round(_t.time() - _t0, 1)
    chk.record_cases(len(cases), keys,
                     'histories of 2-4 dimension-wise grids (d 1..3, N<=48) with one matrix-entry cache; pairs of nested grids with '
                     '200..450 points for the right-hand-side reuse (nested, and with one inner point replaced by another point between '
                     'the same neighbours as after a rebalancing rotation); complete SpatiallyAdaptiveSingleDimensions2 density-estimation runs '
                     '(d 1..2, lmax 2..5, <=200 evaluations; plus runs on skewed data with rebalancing on, lmax 5, 900..1500 evaluations, whose '
                     'component grids exceed the threshold over several steps - runs in which such a grid contains a replaced point are counted in the histogram) with reuse on and off; '
                     'uniform and non-uniform grids with 60..300 points on both sides of the 200-point threshold; data on dyadic lattices; '
                     'HISTORIES ON ONE OBJECT: op-history = 2-4 refinement steps of a scheme of 1-3 component grids from one refinement tree '
                     '(d 1..3, 6..1200 points incl. exactly 199/200/201; refine/replace/repeat/remove/rekey between steps; 1..1025 samples, '
                     '9..1030 evaluation points; decoy object in between; options debug, masslumping, rescaled data, pre_scaled_data, labels), '
                     'adaptive-steps = SpatiallyAdaptiveSingleDimensions2 runs driven step by step (shapes 1d lmin=lmax=8, 2d 4/4, 4/5, 3/4 with '
                     'component grids >= 200 points at consecutive stops; small shapes with boundary/debug/masslumping/second run) with '
                     'interpolation at the stops, std-history = StandardCombi twice on one object; '
                     'non-trivial = history of >=2 grids with >=3 points / adaptive run with >=4 component-grid evaluations / any b-reuse, '
                     'threshold, op-history, adaptive-steps or std-history case; distinct by full case', samples)
    return len(chk.violations) - nv0


def run(chk):
    gen_info = _c17_gen.regenerate(chk)
    chk.coq_obligations(extra_props=_c17_gen.EXTRA_PROPS)
    gen_problem = _c17_gen.diagnose(chk, gen_info)
    rng = chk.rng
    q = chk.quick
    cases = list(CORPUS)
    cases += [gen_history(rng, q) for _ in range(chk.n(60, 800))]
    cases += [gen_history_numeric(rng) for _ in range(chk.n(2, 12))]
    cases += [gen_breuse(rng) for _ in range(chk.n(8, 80))]
    cases += [gen_breplace(rng) for _ in range(chk.n(10, 100))]
    cases += [gen_breuse_boundary(rng) for _ in range(chk.n(5, 40))]
    cases += [gen_adaptive_rebalance(rng) for _ in range(chk.n(4, 30))]
    cases += [gen_adaptive(rng, q) for _ in range(chk.n(16, 300))]
    if not q:
        cases += [gen_adaptive(rng, q, big=True) for _ in range(12)]
    for uniform in (True, False):
        for above in (True, False):
            cases += [gen_threshold(rng, uniform, above) for _ in range(chk.n(4, 40))]
    # wave 2: histories on one operation object (long cases first: better packing on the worker pool)
    large = [X.gen_steps(rng, 'large', shape='2d-45')] + [X.gen_steps(rng, 'large', shape=rng.choice(['2d-44', '2d-44', '1d-88', '1d-88', '2d-34']))
                                                            for _ in range(chk.n(9, 56))]
    if not q:
        large += [X.gen_steps(rng, 'large', shape='2d-45') for _ in range(3)]
    large += [X.gen_steps(rng, 'cheap') for _ in range(chk.n(18, 150))]
    cases = cases[:len(CORPUS)] + large + cases[len(CORPUS):]
    cases += [X.gen_ophist(rng) for _ in range(chk.n(70, 600))]
    # sizes beyond typical block sizes: many samples, many evaluation points, grids with more than 1024 points
    cases += [X.gen_ophist(rng, size='above', M=257), X.gen_ophist(rng, size='edge200', M=1025),
              X.gen_ophist(rng, size='big', npoints=1030), X.gen_ophist(rng, size='small', M=100, npoints=260),
              X.gen_ophist(rng, size='huge'), X.gen_ophist(rng, size='huge', M=65), X.gen_ophist(rng, size='above', M=2049)]
    cases += [X.gen_std(rng) for _ in range(chk.n(4, 30))]
    process(chk, cases)
    _c17_gen.finish(chk, gen_info, gen_problem)


def replay(chk, rep):
    c = rep['case']
    n = process(chk, [c], verbose=True)
    for v in chk.violations:
        print('check:', v['check'], 'kind:', v['kind'], 'sig:', v['sig'], 'failing_input:', v['failing_input'])
        print('detail:', str(v['detail'])[:1500])
    print('property predicate:', 'VIOLATED' if any(v['failing_input'] for v in chk.violations) else 'holds')
    return 1 if n else 0
