"""C06 (second generated file): source-derived bookkeeping methods of RefinementContainer (DESIGN.md 0.5.4).  coq/Gen/RefContainerMachineGen.v is regenerated
from $VERIF_REPO/sparseSpACE/RefinementContainer.py (update_values, prepare_remove, add, refine, apply_remove, reinit_new_objects) by
harness/translate/py2gallina_machine.py --target container under the build lock; Props/C06gen2.v holds the theorems (generated methods =
cont_refine / cont_apply_remove / cont_reinit of Model/RefTree.v).  Separate from _c06_gen.py (get_next_object_for_refinement)."""
import fcntl
import hashlib
import os
import re
import subprocess
import sys
from ..core import ROOT, COQ
from .. import gen

TRANSLATOR = os.path.join(ROOT, 'harness', 'translate', 'py2gallina_machine.py')
TARGET = 'container'
GEN_FILE = 'RefContainerMachineGen.v'
GEN_CHAIN = ['Base/PyMachine.v', 'Base/PySort.v', 'Gen/RefContainerMachineGen.v', 'Proofs/GenContainerEq.v', 'Props/C06gen2.v']
EXTRA_PROPS = ('C06gen2',)
ASSUMPTION = ('source-derived container bookkeeping: the translation scheme of harness/translate/py2gallina_machine.py and the semantics libraries '
              'coq/Base/PyLib.v, PyNum.v, PyMachine.v, PySort.v (sorted = the stable insertion sort, list.pop(i) = list surgery with IndexError outside '
              'the bounds) are trusted; the elements of refinementObjects are values: attributes .value/.evaluations/.start are projections, the methods '
              '.refine()/.update()/.reinit() are oracle parameters whose returned element is written back; the theorems assume about them what the '
              'hand-written model assumes (refine() = the two children, no update information)')


def regenerate(chk):
    with open(os.path.join(ROOT, '.buildlock'), 'w') as lk:
        fcntl.flock(lk, fcntl.LOCK_EX)
        p = subprocess.run([sys.executable, TRANSLATOR, '--target', TARGET], capture_output=True, text=True)
    msg = '\n'.join(l for l in p.stderr.splitlines() if 'conda' not in l).strip()
    chk.checker_cmds.append('/venv/bin/python harness/translate/py2gallina_machine.py --target container  (regenerates coq/Gen/%s from '
                            'sparseSpACE/RefinementContainer.py)' % GEN_FILE)
    info = dict(rc=p.returncode, message=msg, target=TARGET)
    try:
        src = open(os.path.join(COQ, 'Gen', GEN_FILE)).read()
        info['generated_sha256'] = hashlib.sha256(src.encode()).hexdigest()
        info['translated'] = re.findall(r'^\(\* (\S+:\d+-\d+)  (\S+) \*\)$', src, re.M)
    except OSError:
        pass
    chk.extra['source_derived_model_container'] = info
    return info


def diagnose(chk, info):
    problem = gen.gen_diagnosis(chk, info, GEN_CHAIN)
    info['status'] = problem or 'generated, equivalent to the hand-written model (C06_gen_* of Props/C06gen2.v proved)'
    return problem


def finish(chk, info, problem):
    gen.finish_gen(chk, info, problem)
