"""C04: refinement never loses exactness the initial configuration had.

(a) dimension-wise strategy (SpatiallyAdaptiveSingleDimensions2, GlobalTrapezoidalGrid): scripted refinement histories on the
    real strategy with a VECTOR-VALUED integrand whose component 0 is an arbitrary refinement-driving function and whose other
    components are ALL hierarchical hat functions of the initial (lmin,lmax) sparse-grid space (modified basis: products of
    linear functions).  After every step the reported integral of every component (performSpatiallyAdaptiv(...)[3]) and the
    combined interpolant sa(points) at lattice / grid points are compared with the analytic values (= the property's own
    predicate) and with the extracted Coq model (Entry/C04.v sub 0 / sub 1: Model/DimWise.v + Model/DimWiseExact.v).
(b) extend-split (SpatiallyAdaptiveExtendScheme, TrapezoidalGrid with boundary) and the cell strategy
    (SpatiallyAdaptiveCellScheme): the reported integral of every multilinear monomial x^e, e in {0,1}^d equals the exact
    moment of the domain after every step; for extend-split the observed areas with their computed component grids are
    additionally fed to the verified checkers moments_additive / valid_local_combi and to the model value es_integral
    (Entry/C04.v sub 2)."""
import itertools
import random
import zlib
from fractions import Fraction
from .. import sx
from ..impl import run_impl
from ..model import run_model
from . import dimwise as dw

PROP = 4
TOL = 1e-11          # rounded class: |impl - exact| <= TOL * (1 + |exact|); inputs are dyadic, most values are bit exact

ASSUMPTIONS = [
    'coordinates/benefits on dyadic lattices: interval end points, hat values and the margin test are exact in binary64',
    'rebalancing test and version-3 rounding are decided in binary64: the model takes the set of arguments on which binary64 and exact '
    'arithmetic differ as an input computed by the harness with the same Python expression (as C03/C06)',
    'GlobalTrapezoidalGrid only; chebyshev / weighted mid points / force_balanced_refinement_tree not modelled',
    'initial sparse-grid space = span of the hierarchical hats (j,i) with sum_d max(j_d,lmin) <= lmax + (d-1) lmin (levels from 0 with boundary '
    'points, from 1 without); every one of them is checked to be exact in the INITIAL state of the implementation before it is demanded later',
    'modified basis: integrals of products of linear functions (incl. every coordinate function and 1); the interpolant of the implementation '
    'does not extrapolate to the boundary (zero boundary values), so the initial configuration does not interpolate linear functions exactly and '
    'the interpolant is outside the property there',
    'extend-split automatic_extend_split decisions depend on float error estimates of the integrand: they are not modelled here; the observed '
    'areas and their computed component grids are the input of the verified checkers',
    'cell strategy: implementation-only oracle (no model); supported configuration lmin = lmax',
    'rounded observables compared with |impl - exact| <= 1e-11 * (1 + |exact|)',
]

BOXES = [(0.0, 1.0), (0.0, 1.0), (-1.0, 1.0), (0.5, 2.0), (-3.0, 6.0), (2.0, 2.25)]


# =============================================================================================== (a) dimension-wise
def initial_hats(dim, lmin, lmax, boundary):
    lo = 0 if boundary else 1
    out = []
    for j in itertools.product(range(lo, lmax + 1), repeat=dim):
        if sum(max(x, lmin) for x in j) <= lmax + (dim - 1) * lmin:
            idx = [([0, 1] if jj == 0 else list(range(1, 2 ** jj, 2))) for jj in j]
            for i in itertools.product(*idx):
                out.append((list(j), list(i)))
    return out


def hat1_exact(a, b, j, i, x):
    h = (b - a) / 2 ** j
    c = a + i * h
    t = abs(x - c) / h
    return 1 - t if t <= 1 else Fraction(0)


def hat_value(a, b, j, i, x):
    v = Fraction(1)
    for d in range(len(a)):
        v *= hat1_exact(a[d], b[d], j[d], i[d], x[d])
    return v


def hat_integral(a, b, j, i):
    v = Fraction(1)
    for d in range(len(a)):
        h = (b[d] - a[d]) / 2 ** j[d]
        v *= h / 2 if (i[d] == 0 or i[d] == 2 ** j[d]) else h
    return v


def lin_value(cf, x):
    v = Fraction(1)
    for (al, be), xd in zip(cf, x):
        v *= al * xd + be
    return v


def lin_integral(a, b, cf):
    v = Fraction(1)
    for (al, be), ad, bd in zip(cf, a, b):
        v *= al * (bd * bd - ad * ad) / 2 + be * (bd - ad)
    return v


def gen_lin_fns(rng, dim):
    """products of linear functions prod_d (alpha_d x_d + beta_d): 1, every coordinate function, random products"""
    one = [[Fraction(0), Fraction(1)] for _ in range(dim)]
    fns = [one]
    for d in range(dim):
        f = [list(x) for x in one]
        f[d] = [Fraction(1), Fraction(0)]
        fns.append(f)
    for _ in range(4):
        fns.append([[Fraction(rng.choice([0, 1, 1, -1, 2, 3]), rng.choice([1, 2])), Fraction(rng.choice([0, 1, 2, -1, 5]), rng.choice([1, 2, 4]))]
                    for _ in range(dim)])
    return fns


def gen_case_dw(rng, tier):
    c = dw.gen_case(rng, tier, 0)
    dim = c['dim']
    # the number of hats grows quickly: keep the vector-valued integrand below ~250 components
    if dim == 4:
        c['lmin'], c['lmax'], c['steps'] = 1, 2, min(c['steps'], 3)
    if dim == 3 and c['lmax'] >= 3:
        c['lmin'], c['lmax'] = (1, 3) if rng.random() < 0.3 else (rng.choice([1, 2]), rng.choice([2, 3]))
        if c['lmin'] >= c['lmax']:
            c['lmin'] = c['lmax'] - 1
        if c['lmax'] < 2:
            c['lmax'] = 2
        c['steps'] = min(c['steps'], 4)
    c['mb'] = rng.random() < 0.15
    if c['mb']:
        c['boundary'] = False
    c['npts'] = 6
    return c


def _make_dw_function(case, hats, fns):
    import numpy as np
    from sparseSpACE.Function import Function
    dim = case['dim']
    a = [float(x) for x in case['a']]
    b = [float(x) for x in case['b']]
    # distinct 1D hats per dimension and the index table of the tensor hats
    tabs, index = [], []
    for d in range(dim):
        keys = sorted(set((j[d], i[d]) for j, i in hats))
        pos = {k: n for n, k in enumerate(keys)}
        tabs.append(keys)
        index.append(np.array([pos[(j[d], i[d])] for j, i in hats], dtype=int))
    lin = [[(float(al), float(be)) for al, be in cf] for cf in fns]

    class VecF(Function):
        def output_length(self):
            return 1 + len(hats) + len(lin)

        def eval_vectorized(self, coordinates):
            x = np.asarray(coordinates, dtype=float)
            if x.ndim != 2:
                return super().eval_vectorized(coordinates)
            out = np.empty((x.shape[0], self.output_length()))
            out[:, 0] = np.sum(x * x, axis=1) + np.prod(x + 1.5, axis=1)      # the refinement-driving component (unused: errors are scripted)
            if hats:
                prod = np.ones((x.shape[0], len(hats)))
                for d in range(dim):
                    cols = np.empty((x.shape[0], len(tabs[d])))
                    for n, (j, i) in enumerate(tabs[d]):
                        h = (b[d] - a[d]) / 2 ** j
                        c = a[d] + i * h
                        cols[:, n] = np.maximum(0.0, 1.0 - np.abs(x[:, d] - c) / h)
                    prod *= cols[:, index[d]]
                out[:, 1:1 + len(hats)] = prod
            for n, cf in enumerate(lin):
                v = np.ones(x.shape[0])
                for d, (al, be) in enumerate(cf):
                    v = v * (al * x[:, d] + be)
                out[:, 1 + len(hats) + n] = v
            return out

        def eval(self, coordinates):
            return self.eval_vectorized(np.asarray([coordinates], dtype=float))[0]
    return VecF()


def impl_dw(case):
    """One scripted history on the real dimension-wise strategy with the vector-valued integrand."""
    import numpy as np
    from sparseSpACE.spatiallyAdaptiveSingleDimension2 import SpatiallyAdaptiveSingleDimensions2
    from sparseSpACE.ErrorCalculator import ErrorCalculator
    from sparseSpACE.Grid import GlobalTrapezoidalGrid
    from sparseSpACE.GridOperation import Integration

    rng = random.Random(case['seed'])
    dim = case['dim']
    a = np.array(case['a'], dtype=float)
    b = np.array(case['b'], dtype=float)
    margin = dw.margin_of(case)
    fixed = case.get('bens')
    mb = bool(case.get('mb'))
    frng = random.Random(case['seed'] ^ 0x0c04)
    hats = [] if mb else initial_hats(dim, case['lmin'], case['lmax'], case['boundary'])
    fns = gen_lin_fns(frng, dim) if mb else []
    f = _make_dw_function(case, hats, fns)

    class Scripted(ErrorCalculator):
        def __init__(self):
            super().__init__()
            self.sa = None
            self.table = None
            self.round = 0
            self.modes = []

        def calc_error(self, refine_object, norm, volume_weights=None):
            if self.table is None:
                conts = [self.sa.refinement.get_refinement_container_for_dim(d) for d in range(dim)]
                sizes = [c.size() for c in conts]
                if fixed is not None and self.round < len(fixed):
                    bens = [[float(Fraction(*x)) if isinstance(x, (list, tuple)) else float(x) for x in bd] for bd in fixed[self.round]]
                    mode = 'fixed'
                else:
                    mode, bens = dw.gen_benefits(rng, sizes, margin)
                self.modes.append(mode)
                self.table = {}
                for d, c in enumerate(conts):
                    for i, o in enumerate(c.get_objects()):
                        self.table[(d, o.start)] = bens[d][i] if i < len(bens[d]) else 0.0
            return self.table[(refine_object.this_dim, refine_object.start)]

    grid = GlobalTrapezoidalGrid(a, b, boundary=case['boundary'], modified_basis=mb)
    op = Integration(f, grid=grid, dim=dim, reference_solution=None)
    kw = dict(version=case['version'], operation=op, rebalancing=case['rebalancing'], rebalancing_safety_factor=case['safety'])
    if case['margin'] is not None:
        kw['margin'] = case['margin']
    sa = SpatiallyAdaptiveSingleDimensions2(a, b, **kw)
    ec = Scripted()
    ec.sa = sa
    # evaluation points of the interpolant: lattice k/32 of the box and points of the lattice of level lmax+2 (grid points of the
    # initial tree and points that become grid points by refinement)
    aq = [Fraction(x) for x in case['a']]
    bq = [Fraction(x) for x in case['b']]
    pts = case.get('pts')
    if pts is None:
        pts = []
        for n in range(case.get('npts', 6)):
            den = 32 if n % 2 == 0 else 2 ** (case['lmax'] + (n // 2) % 3)
            pts.append([aq[k] + (bq[k] - aq[k]) * Fraction(frng.randrange(0, den + 1), den) for k in range(dim)])
    else:
        pts = [[Fraction(*x) for x in p] for p in pts]
    fpts = [tuple(float(x) for x in p) for p in pts]

    def observe(res):
        st = dw._snapshot(sa, 0)
        st['integral'] = [float(x) for x in np.asarray(res[3], dtype=float).ravel()]
        st['interp'] = None
        if not mb and fpts:
            vals = np.asarray(sa(list(fpts)), dtype=float)
            st['interp'] = [[float(x) for x in row] for row in vals]
        return st

    np_float_crash = None
    try:
        res = sa.performSpatiallyAdaptiv(case['lmin'], case['lmax'], ec, tol=-1, max_evaluations=1, print_output=False)
    except AttributeError as e:
        if not (mb and "no attribute 'float'" in str(e)) or hasattr(np, 'float'):
            raise
        # known finding C04-dw-modified-basis-np-float: the surplus computation of the modified basis uses the alias np.float, which the
        # pinned numpy no longer has.  The crash is reported; the rest of the property is evaluated on a fresh instance with the alias
        # restored IN THIS WORKER for the duration of this case only.
        import traceback
        where = ''
        for fr in reversed(traceback.extract_tb(e.__traceback__)):
            if 'sparseSpACE' in fr.filename:
                where = 'sparseSpACE/%s:%d' % (fr.filename.rsplit('/', 1)[-1], fr.lineno)
                break
        np_float_crash = ['AttributeError', where, str(e)[:120]]
        np.float = float
        try:
            return dict(impl_dw(case), np_float_crash=np_float_crash)
        finally:
            del np.float
    states = [observe(res)]
    bens_used, selected, max_size = [], [], 0
    nsteps = len(fixed) if fixed is not None else case['steps']
    for step in range(nsteps):
        conts = [sa.refinement.get_refinement_container_for_dim(d) for d in range(dim)]
        bens_used.append([[sx.rat(o.benefit) for o in c.get_objects()] for c in conts])
        before = [[(o.start, o.end) for o in c.get_objects()] for c in conts]
        sa.refine()
        after = [set((o.start, o.end) for o in sa.refinement.get_refinement_container_for_dim(d).get_objects()) for d in range(dim)]
        selected.append([[i for i, se in enumerate(before[d]) if se not in after[d]] for d in range(dim)])
        ec.table = None
        ec.round += 1
        res = sa.continue_adaptive_refinement(tol=-1, max_evaluations=1)
        states.append(observe(res))
        max_size = max(max_size, max(len(t) for t in states[-1]['trees']))
    return dict(states=states, bens=bens_used, selected=selected, modes=ec.modes, max_size=max_size,
                hats=hats, fns=fns, pts=pts, np_float_crash=None)


def jsonable_bens(bens):
    return [[[[b.numerator, b.denominator] for b in bd] for bd in st] for st in bens]


def jsonable_pts(pts):
    return [[[x.numerator, x.denominator] for x in p] for p in pts]


def close(x, exact):
    return abs(x - float(exact)) <= TOL * (1.0 + abs(float(exact)))


def oracle_dw(case, r):
    """The property's own predicate on the implementation alone.  Returns (initial_defects, first_loss, int_ok_states) where
    int_ok_states[k] = all integrals exact in state k and first_loss is None or
    dict(step, observable, what, impl, exact[, point]) for the first state in which a function that the INITIAL state treated exactly
    is no longer integrated / interpolated exactly."""
    a = [Fraction(x) for x in case['a']]
    b = [Fraction(x) for x in case['b']]
    hats, fns, pts = r['hats'], r['fns'], r['pts']
    names = [('hat', j, i) for j, i in hats] + [('lin', cf) for cf in fns]
    exact_int = [hat_integral(a, b, j, i) for j, i in hats] + [lin_integral(a, b, cf) for cf in fns]
    exact_val = [[hat_value(a, b, j, i, p) for j, i in hats] for p in pts]
    initial_defects = []
    int_ok_states = [all(close(st['integral'][1 + n], ex) for n, ex in enumerate(exact_int)) for st in r['states']]
    ok_int = [True] * len(names)
    ok_val = [[True] * len(hats) for _ in pts]
    for step, st in enumerate(r['states']):
        integ = st['integral'][1:]
        for n, ex in enumerate(exact_int):
            good = close(integ[n], ex)
            if step == 0:
                ok_int[n] = good
                if not good:
                    initial_defects.append(dict(observable='integral', what=names[n], impl=integ[n], exact=str(ex)))
            elif ok_int[n] and not good:
                return initial_defects, dict(step=step, observable='integral', what=names[n], impl=integ[n], exact=str(ex)), int_ok_states
        if st['interp'] is not None:
            for k, p in enumerate(pts):
                row = st['interp'][k][1:]
                for n in range(len(hats)):
                    good = close(row[n], exact_val[k][n])
                    if step == 0:
                        ok_val[k][n] = good
                        if not good:
                            initial_defects.append(dict(observable='interpolant', what=names[n], point=[str(x) for x in p],
                                                        impl=row[n], exact=str(exact_val[k][n])))
                    elif ok_val[k][n] and not good:
                        return initial_defects, dict(step=step, observable='interpolant', what=names[n], point=[str(x) for x in p],
                                                     impl=row[n], exact=str(exact_val[k][n])), int_ok_states
    return initial_defects, None, int_ok_states


def compare_dw(case, r, mr):
    """implementation vs model (sub 0 / sub 1).  Returns None or dict(step, observable, ...)."""
    if mr is None or sx.is_err(mr) or isinstance(mr, tuple):
        return dict(step=0, observable='model-error', model=str(mr)[:200])
    if case.get('mb'):
        states = mr
    else:
        mhats, states = mr
        if sorted([list(j), list(i)] for j, i in mhats) != sorted([list(j), list(i)] for j, i in r['hats']):
            return dict(step=0, observable='initial-hats', impl=len(r['hats']), model=len(mhats))
        order = {(tuple(j), tuple(i)): n for n, (j, i) in enumerate(mhats)}
        perm = [order[(tuple(j), tuple(i))] for j, i in r['hats']]
    if len(states) != len(r['states']):
        return dict(step=min(len(states), len(r['states'])), observable='number-of-states', impl=len(r['states']), model=len(states))
    for step, (ms, st) in enumerate(zip(states, r['states'])):
        if sx.is_err(ms):
            return dict(step=step, observable='model-rejects-step', model=str(ms))
        integ = st['integral'][1:]
        if case.get('mb'):
            okb, mint = ms           # okb: verified checker lin_mod_okb (side condition of C04_dw_linear_exact_modified_checked)
        else:
            keeps, mint0, mval0 = ms
            mint = [mint0[k] for k in perm]
        for n, mv in enumerate(mint):
            if sx.is_err(mv):
                return dict(step=step, observable='integral', component=n, impl=integ[n], model='compute_weights raises')
            if not close(integ[n], sx.q(mv)):
                return dict(step=step, observable='integral', component=n, impl=integ[n], model=str(sx.q(mv)))
        if not case.get('mb') and st['interp'] is not None:
            for k, row in enumerate(mval0):
                for n in range(len(perm)):
                    mv = sx.q(row[perm[n]])
                    if not close(st['interp'][k][1 + n], mv):
                        return dict(step=step, observable='interpolant', component=n, point=[str(x) for x in r['pts'][k]],
                                    impl=st['interp'][k][1 + n], model=str(mv))
    return None


def model_inputs_dw(case, r):
    hist = dw.model_case(case, r)[1]
    if case.get('mb'):
        return (1, [hist, True, r['fns']])
    return (0, [hist, r['pts']])


DW_BASE = dict(what=0, dim=2, lmin=1, lmax=2, version=6, rebalancing=False, boundary=True, margin=None, safety=0.1,
               a=[0.0, 0.0], b=[1.0, 1.0], steps=0, seed=1, mb=False, npts=6)


def corpus_dw():
    z4 = [[0, 1]] * 4
    z8 = [[0, 1]] * 8
    rot = [[[[0, 1], [0, 1], [0, 1], [1, 1]], z4], [[[0, 1]] * 4 + [[1, 1]], z4], [[[0, 1]] * 5 + [[1, 1]], z4]]
    out = [
        # exemplar of C04-dw-rebalancing-rotation (= C04_dw_rebalancing_refuted): the right-most interval of dimension 0 three times
        dict(DW_BASE, rebalancing=True, bens=rot),
        dict(DW_BASE, rebalancing=False, bens=rot),                                  # same history without rebalancing: holds
        # exemplar of C04-dw-version-2-3 (= C04_dw_version2_refuted): d=2, lmin 2, lmax 3, first interval of dimension 0 once
        dict(DW_BASE, lmin=2, lmax=3, version=2, boundary=False, bens=[[[[1, 1]] + z8[:-1], z8]]),
        dict(DW_BASE, lmin=2, lmax=3, version=3, boundary=False, bens=[[[[1, 1]] + z8[:-1], z8]]),
        dict(DW_BASE, lmin=2, lmax=3, version=6, boundary=False, bens=[[[[1, 1]] + z8[:-1], z8]]),
        dict(DW_BASE, bens=[[z4, z4], [z8, z8]]),                                    # everything refined twice
        dict(DW_BASE, dim=3, a=[0.0, -1.0, 2.0], b=[1.0, 1.0, 2.25], version=7, steps=3, seed=7),
        dict(DW_BASE, lmin=2, lmax=3, version=8, boundary=False, steps=4, seed=11),
        dict(DW_BASE, mb=True, boundary=False, a=[0.5, -3.0], b=[2.0, 6.0], version=6, rebalancing=True, steps=4, seed=5),
        dict(DW_BASE, mb=True, boundary=False, dim=3, a=[0.0, -1.0, 2.0], b=[1.0, 1.0, 2.25], version=2, steps=3, seed=6),
    ]
    # strongly graded trees without rebalancing (large coarsening values: where the subtraction loops of 6/7/8 matter)
    for dim, version, nst, bd in [(2, 6, 4, True), (2, 7, 4, False), (2, 8, 4, True), (3, 6, 3, True), (3, 7, 3, False), (3, 8, 3, True)]:
        bens = [[[[1, 1]] + [[0, 1]] * (3 + k) for _ in range(dim)] for k in range(nst)]
        out.append(dict(DW_BASE, dim=dim, version=version, boundary=bd, a=[0.0] * dim, b=[1.0, 2.0, 0.5][:dim], bens=bens))
    return out


def check_dw(chk, cases, verbose=False):
    impl = run_impl(impl_dw, cases, limit=240)
    slow = [i for i, (st, r) in enumerate(impl) if st == 'timeout']
    if slow:
        chk.count('timeouts-retried', len(slow))
        for i, res in zip(slow, run_impl(impl_dw, [cases[i] for i in slow], nproc=4, limit=900)):
            impl[i] = res
    okidx = [i for i, (st, r) in enumerate(impl) if st == 'ok']
    mres = dict(zip(okidx, run_model(PROP, [model_inputs_dw(cases[i], impl[i][1]) for i in okidx], nproc=16)))
    rot = dict(zip(okidx, run_model(PROP, [(3, dw.model_case(cases[i], impl[i][1])[1]) for i in okidx], nproc=16)))
    keys, samples = [], []
    rc = 0
    for i, c in enumerate(cases):
        st, r = impl[i]
        chk.count('dw:dim=%d' % c['dim']); chk.count('dw:version=%d' % c['version'])
        chk.count('dw:rebalancing=%s' % c['rebalancing']); chk.count('dw:boundary=%s' % c['boundary'])
        chk.count('dw:modified_basis=%s' % bool(c.get('mb')))
        if st != 'ok':
            chk.violation('corr:C04/dw-history', 'impl-exception', dict(strategy='dw', exc=(r[0] if r else st), where=(r[1] if r else '')),
                          c, dict(impl=str(r)), failing_input=True)
            rc = 1
            continue
        chk.traces += 1
        if r.get('np_float_crash'):
            chk.violation('oracle:C04/dw-modified-basis-runs', 'impl-exception',
                          dict(strategy='dw', mb=True, exc=r['np_float_crash'][0], attribute='np.float'),
                          dict(c, steps=0, bens=[]), dict(impl=str(r['np_float_crash'])), failing_input=True)
            chk.count('dw:modified-basis-runs-with-np.float-restored')
        nst = len(r['states'])
        chk.count('dw:states', nst)
        chk.count('dw:functions_checked', (len(r['hats']) + len(r['fns'])) * nst)
        fixed_case = dict(c, bens=jsonable_bens(r['bens']), steps=len(r['bens']), pts=jsonable_pts(r['pts']))
        flags = rot.get(i)
        if flags is None or sx.is_err(flags) or isinstance(flags, tuple) or any(sx.is_err(x) for x in flags):
            flags = None

        def rotated(step):
            return None if flags is None or step >= len(flags) else bool(flags[step])
        if flags is not None and c['rebalancing']:
            chk.count('dw:rebalancing-histories-with-rotation' if flags[-1] else 'dw:rebalancing-histories-without-rotation')
        initial_defects, loss, int_ok_states = oracle_dw(c, r)
        diff = compare_dw(c, r, mres.get(i))
        mkeeps = None
        if c.get('mb') and diff is None:
            for ms in mres[i]:
                chk.count('checker:lin_mod_okb=%s' % bool(ms[0]))
        if not c.get('mb') and diff is None:
            mkeeps = [bool(ms[0]) for ms in mres[i][1]]
            chk.count('checker:dw_keeps_initial_space evaluations', len(mkeeps))
        if verbose:
            print('states %d, hats %d, linear products %d, points %d' % (nst, len(r['hats']), len(r['fns']), len(r['pts'])))
            for step, s_ in enumerate(r['states']):
                print('  step %d: sizes %s lmax %s components %d rotation-so-far %s checker dw_keeps_initial_space %s' % (
                    step, [len(t) for t in s_['trees']], s_['lmax'], len(s_['scheme']), rotated(step), None if mkeeps is None else mkeeps[step]))
            print('  property predicate:', 'holds' if loss is None else 'FAILS ' + str(loss))
            print('  model vs implementation:', 'agree' if diff is None else 'DIFFER ' + str(diff))
        if initial_defects:
            # a function of the initial (lmin,lmax) sparse-grid space (a product of linear functions) is not even treated exactly by the
            # INITIAL configuration: the initial combination / quadrature itself is broken (never the case on the pinned tree)
            chk.violation('oracle:C04/dw-initial-state', 'dw-initial-state-not-exact', dict(boundary=c['boundary'], mb=bool(c.get('mb'))),
                          dict(fixed_case, bens=[], steps=0), dict(defects=str(initial_defects[:3])), failing_input=True)
            rc = 1
        if loss is not None:
            step = loss['step']
            kind = 'dw-linear-lost' if c.get('mb') else 'dw-initial-hat-lost'
            sig = dict(version=c['version'], rotation_occurred=rotated(step), observable=loss['observable'])
            fc = dict(fixed_case, bens=jsonable_bens(r['bens'][:step]), steps=step)
            chk.violation('oracle:C04/dw-' + loss['observable'], kind, sig, fc,
                          dict(loss, rebalancing=c['rebalancing'], corr=str(diff)[:300]), failing_input=True)
            chk.count('dw:histories-losing-exactness')
            rc = 1
        if diff is not None:
            step = diff['step']
            chk.violation('corr:C04/dw-' + diff['observable'], 'dw-model-differs', dict(observable=diff['observable'], mb=bool(c.get('mb'))),
                          dict(fixed_case, bens=jsonable_bens(r['bens'][:step]), steps=step), diff, failing_input=False)
            rc = 1
        elif mkeeps is not None:
            # verified checker vs oracle: the checker must reject exactly the states in which the implementation lost an integral
            if mkeeps != int_ok_states:
                chk.violation('checker:dw_keeps_initial_space', 'dw-checker-disagrees', {}, fixed_case,
                              dict(checker_per_state=mkeeps, implementation_integrals_exact_per_state=int_ok_states), failing_input=False)
                rc = 1
        nsplit = sum(len(s) for st_ in r['selected'] for s in st_)
        if len(r['bens']) >= 2 and nsplit >= 2:
            keys.append(('dw', c['dim'], c['lmin'], c['lmax'], c['version'], c['rebalancing'], c['boundary'], bool(c.get('mb')), str(r['selected'])))
            if len(samples) < 2:
                samples.append(dict(case={k: c[k] for k in ('dim', 'lmin', 'lmax', 'version', 'rebalancing', 'boundary', 'mb', 'a', 'b')},
                                    split_positions_per_step=r['selected'], functions=len(r['hats']) + len(r['fns']),
                                    final_lmax=r['states'][-1]['lmax'], lost=(None if loss is None else str(loss)[:200])))
    return keys, samples, rc


# =============================================================================================== (b) extend-split / cell
ES_DOMAINS = [(0, 1), (-1, 1), (0, 2), (Fraction(1, 2), Fraction(3, 2)), (-2, 1), (Fraction(-1, 4), Fraction(3, 4)), (1, 4), (Fraction(1, 2), 2),
              (2, Fraction(9, 4)), (-3, 5)]


def multilinear_exps(dim):
    return [list(e) for e in itertools.product([0, 1], repeat=dim)]


def moment(a, b, e):
    v = Fraction(1)
    for ad, bd, k in zip(a, b, e):
        v *= (bd ** (k + 1) - ad ** (k + 1)) / (k + 1)
    return v


def gen_case_es(rng, tier):
    dim = rng.choice([2, 2, 3])
    lmin = rng.choice([1, 1, 2])
    span = rng.choice([1, 1, 2])
    if dim == 3 and lmin == 2:
        span = 1
    dom = [rng.choice(ES_DOMAINS) for _ in range(dim)]
    if len(set(dom)) == 1:                 # not cubic
        dom[0] = rng.choice([d for d in ES_DOMAINS if d != dom[1]])
    return dict(strategy='es', dim=dim, version=rng.choice([0, 1, 2]), nrbe=rng.choice([0, 1, 2, 3]), auto=rng.random() < 0.4,
                single=rng.random() < 0.4, lmin=lmin, lmax=lmin + span, steps=rng.randrange(2, 6 if dim == 2 else 5),
                a=[str(Fraction(d[0])) for d in dom], b=[str(Fraction(d[1])) for d in dom], fn=rng.randrange(3), seed=rng.randrange(1 << 30))


def gen_case_cell(rng, tier):
    dim = rng.choice([2, 2, 3])
    lmin = rng.choice([1, 2]) if dim == 2 else 1
    dom = [rng.choice(ES_DOMAINS) for _ in range(dim)]
    if len(set(dom)) == 1:
        dom[0] = rng.choice([d for d in ES_DOMAINS if d != dom[1]])
    return dict(strategy='cell', dim=dim, lmin=lmin, lmax=lmin, steps=rng.randrange(2, 5 if dim == 2 else 4),
                a=[str(Fraction(d[0])) for d in dom], b=[str(Fraction(d[1])) for d in dom], fn=rng.randrange(3), seed=rng.randrange(1 << 30))


def _make_ml_function(case):
    """component 0: the Genz function of C07 (drives automatic_extend_split); then x^e for every e in {0,1}^d"""
    import numpy as np
    from sparseSpACE.Function import Function
    from . import c07
    f0 = c07._make_function(case)
    exps = multilinear_exps(case['dim'])
    E = np.array(exps, dtype=float)

    class VecF(Function):
        def output_length(self):
            return 1 + len(exps)

        def eval(self, coordinates):
            x = np.asarray(coordinates, dtype=float)
            v0 = np.asarray(f0.eval(tuple(float(t) for t in coordinates)), dtype=float).ravel()[0]
            return np.concatenate(([v0], np.prod(np.where(E == 1.0, x[None, :], 1.0), axis=1)))
    return VecF()


def _scripted(seed, tr):
    from sparseSpACE.ErrorCalculator import ErrorCalculator
    from . import c07

    class Scripted(ErrorCalculator):
        def calc_error(self, f, norm, volume_weights=None):
            k = c07.scripted_benefit(seed, tr['step'], c07._box(f))
            ev = getattr(f, 'evaluations', 0)
            return (k / 8.0) * ev if ev else k / 8.0
    return Scripted()


def impl_es(case):
    """extend-split / cell strategy step by step; per state the reported integral and (extend-split) the leaf areas with the
    component grids (coarsened level vector, coefficient) of their local combination"""
    import numpy as np
    from sparseSpACE.GridOperation import Integration
    from sparseSpACE.Grid import TrapezoidalGrid
    from . import c07
    dim = case['dim']
    a = np.array([float(Fraction(x)) for x in case['a']])
    b = np.array([float(Fraction(x)) for x in case['b']])
    tr = dict(step=0)
    f = _make_ml_function(case)
    grid = TrapezoidalGrid(a=a, b=b, boundary=True)
    op = Integration(f=f, grid=grid, dim=dim, reference_solution=None)
    if case['strategy'] == 'es':
        from sparseSpACE.spatiallyAdaptiveExtendSplit import SpatiallyAdaptiveExtendScheme
        s = SpatiallyAdaptiveExtendScheme(a, b, number_of_refinements_before_extend=case['nrbe'], version=case['version'],
                                          automatic_extend_split=case['auto'], split_single_dim=case['single'], operation=op)
    else:
        from sparseSpACE.spatiallyAdaptiveCell import SpatiallyAdaptiveCellScheme
        s = SpatiallyAdaptiveCellScheme(a, b, operation=op)
    ec = _scripted(case['seed'], tr)

    def observe(res):
        st = dict(integral=[float(x) for x in np.asarray(res[3], dtype=float).ravel()], lmax=[int(x) for x in s.lmax])
        objs = s.refinement.get_objects()
        if case['strategy'] == 'es':
            areas = []
            for o in objs:
                gs = []
                for cg in s.scheme:
                    lc, dc = s.coarsen_grid(cg.levelvector, o)
                    if dc:
                        gs.append([[int(x) for x in lc], int(round(float(cg.coefficient)))])
                bx = c07._box(o)
                areas.append([list(bx[0]), list(bx[1]), gs])
            st['areas'] = areas
        else:
            st['ncells'] = len(objs)
            st['nactive'] = sum(1 for o in objs if o.active)
        return st

    states, abort = [], None
    try:
        res = s.performSpatiallyAdaptiv(case['lmin'], case['lmax'], ec, tol=-1, max_evaluations=1, do_plot=False, print_output=False)
        states.append(observe(res))
        for k in range(1, case['steps'] + 1):
            tr['step'] = k
            s.refine()
            res = s.continue_adaptive_refinement(tol=-1, max_evaluations=1)
            states.append(observe(res))
    except Exception as e:          # the states reached so far are still checked
        import traceback
        where = ''
        for fr in reversed(traceback.extract_tb(e.__traceback__)):
            if 'sparseSpACE' in fr.filename:
                where = '%s:%d' % (fr.filename.rsplit('/', 1)[-1], fr.lineno)
                break
        abort = (type(e).__name__, where, str(e)[:200], tr['step'])
    return dict(states=states, abort=abort)


ES_CORPUS = [
    dict(strategy='es', dim=2, version=0, nrbe=1, auto=False, single=False, lmin=1, lmax=2, steps=4, a=['0', '-1'], b=['2', '1'], fn=0, seed=11),
    dict(strategy='es', dim=2, version=1, nrbe=0, auto=False, single=True, lmin=1, lmax=3, steps=4, a=['-1', '0'], b=['1', '4'], fn=2, seed=12),
    dict(strategy='es', dim=3, version=2, nrbe=1, auto=False, single=False, lmin=1, lmax=2, steps=3, a=['0', '1/2', '-2'], b=['1', '3/2', '1'], fn=0, seed=13),
    dict(strategy='es', dim=2, version=0, nrbe=2, auto=True, single=False, lmin=1, lmax=3, steps=4, a=['1/2', '0'], b=['2', '1'], fn=0, seed=14),
    dict(strategy='es', dim=2, version=2, nrbe=0, auto=False, single=False, lmin=2, lmax=3, steps=3, a=['-1/4', '1'], b=['3/4', '4'], fn=1, seed=3),
    dict(strategy='es', dim=2, version=1, nrbe=0, auto=False, single=False, lmin=2, lmax=4, steps=3, a=['0', '2'], b=['2', '9/4'], fn=0, seed=5),
    dict(strategy='cell', dim=2, lmin=2, lmax=2, steps=4, a=['0', '-1'], b=['2', '1'], fn=0, seed=21),
    dict(strategy='cell', dim=3, lmin=1, lmax=1, steps=3, a=['0', '1/2', '-2'], b=['1', '3/2', '1'], fn=1, seed=22),
]


def check_es(chk, cases, verbose=False):
    impl = run_impl(impl_es, cases, limit=240)
    ck_idx, ck_cases = [], []
    for i, (st, r) in enumerate(impl):
        if st == 'ok' and cases[i]['strategy'] == 'es':
            a = [Fraction(x) for x in cases[i]['a']]
            b = [Fraction(x) for x in cases[i]['b']]
            for k, s_ in enumerate(r['states']):
                ck_idx.append((i, k))
                ck_cases.append((2, [a, b, s_['areas']]))
    ck = dict(zip(ck_idx, run_model(PROP, ck_cases, nproc=16)))
    keys, samples = [], []
    rc = 0
    for i, c in enumerate(cases):
        st, r = impl[i]
        strat = c['strategy']
        chk.count('%s:dim=%d' % (strat, c['dim']))
        if strat == 'es':
            chk.count('es:version=%d' % c['version']); chk.count('es:auto=%s' % c['auto']); chk.count('es:single=%s' % c['single'])
        sig0 = dict(strategy=strat, version=c.get('version'), auto=c.get('auto'), single=c.get('single'))
        if st != 'ok':
            chk.violation('corr:C04/%s-history' % strat, 'impl-exception', dict(sig0, exc=(r[0] if r else st)), c, dict(impl=str(r)), failing_input=True)
            rc = 1
            continue
        if r['abort']:
            if strat == 'es' and c['auto'] and r['abort'][0] == 'AssertionError':
                chk.count('es:aborted-by-assert-in-automatic-error-estimator')       # not a C04 observable (as in C07)
            else:
                chk.violation('corr:C04/%s-history' % strat, 'impl-exception', dict(sig0, exc=r['abort'][0], where=r['abort'][1]),
                              dict(c, steps=r['abort'][3]), dict(impl=str(r['abort'])), failing_input=True)
                rc = 1
            if not r['states']:
                continue
        chk.traces += 1
        a = [Fraction(x) for x in c['a']]
        b = [Fraction(x) for x in c['b']]
        exps = multilinear_exps(c['dim'])
        exact = [moment(a, b, e) for e in exps]
        chk.count('%s:states' % strat, len(r['states']))
        done = False
        for k, s_ in enumerate(r['states']):
            integ = s_['integral'][1:]
            bad = [(e, integ[n], ex) for n, (e, ex) in enumerate(zip(exps, exact)) if not close(integ[n], ex)]
            line = '  step %d: lmax %s ' % (k, s_['lmax']) + ('areas %d' % len(s_['areas']) if strat == 'es' else 'cells %d (active %d)' % (s_['ncells'], s_['nactive']))
            line += ' | property predicate: ' + ('holds' if not bad else 'FAILS for x^%s: reported %r, exact %s' % (bad[0][0], bad[0][1], bad[0][2]))
            if bad and not done:
                e, iv, ex = bad[0]
                chk.violation('oracle:C04/%s-multilinear' % strat, '%s-multilinear-lost' % strat, dict(sig0, initial=(k == 0)), dict(c, steps=k),
                              dict(step=k, exponent=e, impl=iv, exact=str(ex), all_wrong=str([(x[0], x[1]) for x in bad])[:300]), failing_input=True)
                done = True
                rc = 1
            if strat == 'es':
                m = ck.get((i, k))
                if m is None or sx.is_err(m) or isinstance(m, tuple):
                    line += ' | model rejects the areas: %s' % str(m)[:100]
                    if not done:
                        chk.violation('checker:C04/es-areas', 'es-model-rejects', sig0, dict(c, steps=k), dict(step=k, model=str(m)[:200]), failing_input=False)
                        done = True
                        rc = 1
                else:
                    additive, valid, vals = m
                    chk.count('checker:moments_additive evaluations')
                    chk.count('checker:valid_local_combi evaluations', len(valid))
                    mv = {tuple(e): sx.q(v) for e, v in vals}
                    dm = [(e, integ[n], mv[tuple(e)]) for n, e in enumerate(exps) if not close(integ[n], mv[tuple(e)])]
                    line += ' | moments_additive %s, valid_local_combi %s, es_integral %s' % (
                        bool(additive), all(valid), 'agrees' if not dm else 'DIFFERS for x^%s: reported %r, model %s' % dm[0])
                    if not done and (not additive or not all(valid) or dm):
                        what = 'es-areas-moments-not-additive' if not additive else ('es-local-combination-invalid' if not all(valid) else 'es-model-differs')
                        det = dict(step=k, moments_additive=bool(additive), valid_local_combi=[bool(v) for v in valid][:40])
                        if not all(valid):
                            det['area'] = str(s_['areas'][[bool(v) for v in valid].index(False)])[:400]
                        if dm:
                            det['differs'] = str(dm[0])
                        chk.violation('checker:C04/' + what, what, sig0, dict(c, steps=k), det, failing_input=False)
                        done = True
                        rc = 1
            if verbose:
                print(line)
        nst = len(r['states'])
        if nst >= 3 and (strat == 'cell' or len(r['states'][-1]['areas']) > len(r['states'][0]['areas'])):
            keys.append((strat, c['dim'], c.get('version'), c.get('nrbe'), c.get('auto'), c.get('single'), c['lmin'], c['lmax'], c['steps'],
                         tuple(c['a']), tuple(c['b']), c['seed']))
            if sum(1 for s__ in samples if s__['case']['strategy'] == strat) < 1:
                samples.append(dict(case=c, states=nst, final=(len(r['states'][-1]['areas']) if strat == 'es' else r['states'][-1]['ncells']),
                                    final_lmax=r['states'][-1]['lmax']))
    return keys, samples, rc


# =============================================================================================== run / replay
def run(chk):
    chk.coq_obligations()
    n_dw = chk.n(100, 900)
    cases = corpus_dw() + [gen_case_dw(chk.rng, chk.tier) for _ in range(n_dw)]
    keys, samples, _ = check_dw(chk, cases)
    chk.record_cases(len(cases), keys,
                     'scripted dimension-wise histories on the real SpatiallyAdaptiveSingleDimensions2 (d 2..4, lmin 1..2, lmax<=3, versions '
                     '2,3,6,7,8, rebalancing on/off, boundary on/off, modified basis, non-cubic domains, <=6 (10) steps) with a vector-valued '
                     'integrand carrying ALL hierarchical hats of the initial sparse-grid space (modified basis: products of linear functions); '
                     'after every step integral and interpolant of every function vs analytic value and vs the Coq model; non-trivial = >=2 steps '
                     'and >=2 splits; distinct by options and split positions', samples)
    es_cases = ES_CORPUS + [gen_case_es(chk.rng, chk.tier) for _ in range(chk.n(100, 1000))] + \
        [gen_case_cell(chk.rng, chk.tier) for _ in range(chk.n(40, 300))]
    keys, samples, _ = check_es(chk, es_cases)
    chk.record_cases(len(es_cases), keys,
                     'scripted histories on the real SpatiallyAdaptiveExtendScheme (d 2..3, versions 0..2, number_of_refinements_before_extend 0..3, '
                     'automatic_extend_split on/off, split_single_dim on/off, lmin 1..2, lmax-lmin 1..2, 2..5 refine() rounds) and '
                     'SpatiallyAdaptiveCellScheme (d 2..3, lmin=lmax 1..2, 2..4 rounds) on non-unit, non-cubic domains, TrapezoidalGrid with boundary, '
                     'vector-valued integrand with all monomials x^e, e in {0,1}^d: reported integral vs exact moment after every step; extend-split: '
                     'observed areas + component grids through the verified checkers moments_additive / valid_local_combi and the model value es_integral; '
                     'non-trivial = >=3 states and the number of areas grew; distinct by configuration+seed', samples)


def replay(chk, rep):
    c = rep['case']
    if c.get('strategy', 'dw') == 'dw':
        keys, samples, rc = check_dw(chk, [c], verbose=True)
        for v in chk.violations:
            print(v['check'], v['kind'], v['sig'], str(v['detail'])[:400])
        return rc
    keys, samples, rc = check_es(chk, [c], verbose=True)
    for v in chk.violations:
        print(v['check'], v['kind'], v['sig'], str(v['detail'])[:400])
    return rc
